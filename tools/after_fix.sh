#!/bin/bash
# after a fix: commit in /repo: bring the scratch suite worktree to the new HEAD and run both matrices (full output)
cd /tmp/wt4_suite && git reset -q --hard $(git -C /repo rev-parse HEAD) && git clean -fdq
cd /verif && tools/matrix.sh seeds 14 2>&1 | grep -v WARN; tools/matrix.sh neutral 14 2>&1 | grep -v WARN
