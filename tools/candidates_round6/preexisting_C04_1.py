#!/usr/bin/env python
""" Pre-existing: Record.extend_location on an origin-spanning location, when the
    extension of the start runs backwards past the origin a second time (i.e. the
    extended span covers the whole ring), returns three overlapping parts instead
    of the whole record.
"""
import os
import sys
sys.path.insert(0, os.path.dirname(os.path.abspath(__file__)))
from antismash.common.secmet.locations import CompoundLocation, FeatureLocation  # noqa: E402
from antismash.common.secmet.test.helpers import DummyRecord  # noqa: E402


def bases(location):
    return {b for part in location.parts for b in range(int(part.start), int(part.end))}


record = DummyRecord(seq="A" * 100, circular=True)
problems = []
for strand in (1, -1):
    parts = [FeatureLocation(20, 100, strand), FeatureLocation(0, 10, strand)]
    if strand == -1:
        parts.reverse()
    location = CompoundLocation(parts)
    distance = 25  # 90 bases + 2 * 25 > 100, so everything is within reach
    result = record.extend_location(location, distance)
    expected = set(range(100))
    total = sum(len(part) for part in result.parts)
    if bases(result) != expected or total != len(expected) or len(result.parts) > 2:
        problems.append(f"extend_location({location}, {distance}) on a ring of 100 gave {result}"
                        f" ({len(result.parts)} parts summing to {total} bases);"
                        " expected the whole record [0:100] as disjoint parts")
for problem in problems:
    print(problem)
sys.exit(1 if problems else 0)
