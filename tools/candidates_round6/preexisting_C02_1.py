""" Pre-existing: an unknown profile in the EXTENDERS section is accepted.
    The same identifier in CONDITIONS or RELATED is rejected with "identifers without signatures". """
import os
import sys

sys.path.insert(0, os.path.dirname(os.path.abspath(__file__)))

from antismash.common.hmm_rule_parser import rule_parser  # noqa: E402
from antismash.common.hmm_rule_parser.structures import Multipliers  # noqa: E402

SIGNATURES = {"a", "b", "c", "d"}
HEAD = "RULE A CATEGORY Cat CUTOFF 10 NEIGHBOURHOOD 20 CONDITIONS "


def parse(text, multipliers=None):
    return rule_parser.Parser(text, SIGNATURES, {"Cat"}, multipliers=multipliers)


def main():
    for section, text in [("CONDITIONS", HEAD + "a and nosuchprofile"),
                          ("RELATED", HEAD.replace("CUTOFF", "RELATED nosuchprofile CUTOFF") + "a")]:
        try:
            parse(text)
        except ValueError:
            continue
        print(f"unexpected: unknown profile accepted in {section}")
        return 1
    bad = 0
    for extenders in ["nosuchprofile", "cds(nosuchprofile and alsomissing)"]:
        text = HEAD + "a EXTENDERS " + extenders
        try:
            rule = parse(text).rules[0]
        except ValueError as err:
            print(f"ok, rejected: EXTENDERS {extenders} ({str(err).splitlines()[0]})")
            continue
        bad = 1
        print(f"observed: rule {rule.name!r} built with extenders {rule.extenders} using profiles"
              f" {sorted(rule.extenders.profiles)}, none of which is a known signature {sorted(SIGNATURES)}")
        print("expected: ValueError, as for an unknown profile in CONDITIONS or RELATED")
    return bad


if __name__ == "__main__":
    sys.exit(main())
