""" Pre-existing: scaling truncates the floating point product instead of rounding it, so
    some kilobase/multiplier pairs come out one base short (100 kb * 0.57 -> 56999). """
import os
import sys

sys.path.insert(0, os.path.dirname(os.path.abspath(__file__)))

from antismash.common.hmm_rule_parser import rule_parser  # noqa: E402
from antismash.common.hmm_rule_parser.structures import Multipliers  # noqa: E402

SIGNATURES = {"a", "b", "c", "d"}
HEAD = "RULE A CATEGORY Cat CUTOFF 10 NEIGHBOURHOOD 20 CONDITIONS "


def parse(text, multipliers=None):
    return rule_parser.Parser(text, SIGNATURES, {"Cat"}, multipliers=multipliers)

from fractions import Fraction  # noqa: E402


def main():
    bad = 0
    for kilobases, multiplier in [(100, "0.57"), (100, "0.29"), (20, "1.5"), (45, "1.1")]:
        exact = Fraction(kilobases * 1000) * Fraction(multiplier)
        assert exact.denominator == 1
        text = HEAD.replace("CUTOFF 10", f"CUTOFF {kilobases}").replace("NEIGHBOURHOOD 20", f"NEIGHBOURHOOD {kilobases}")
        rule = parse(text + "a", Multipliers(float(multiplier), float(multiplier))).rules[0]
        if (rule.cutoff, rule.neighbourhood) != (int(exact), int(exact)):
            bad = 1
            print(f"observed: {kilobases} kb with multiplier {multiplier} gives cutoff {rule.cutoff},"
                  f" neighbourhood {rule.neighbourhood}; expected {int(exact)} for both")
    return bad


if __name__ == "__main__":
    sys.exit(main())
