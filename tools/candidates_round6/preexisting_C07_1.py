#!/usr/bin/env python
""" Pre-existing violation 1 (unchanged tree): a gene crossing the origin is
    invisible to a neighbour whose cutoff window overlaps it without itself
    reaching the origin, so a negated condition ("a and not b") is satisfied
    in one choice of origin and not in another.

    Exits 1 if the genes in protoclusters differ between rotations.
"""

import os
import sys
from collections import defaultdict

sys.path.insert(0, os.path.dirname(os.path.abspath(__file__)))

# pylint: disable=wrong-import-position
from antismash.common.hmm_rule_parser import rule_parser
from antismash.common.hmm_rule_parser.cluster_prediction import apply_cluster_rules, find_protoclusters
from antismash.common.secmet.locations import CompoundLocation, FeatureLocation
from antismash.common.secmet.test.helpers import DummyCDS, DummyRecord
from antismash.common.test.helpers import FakeHSPHit

LENGTH = 10_000

RULES = """
RULE r1 CATEGORY cat CUTOFF 1 NEIGHBOURHOOD 1 CONDITIONS a and not b
"""

# name: (start, length, profiles hit), coordinates for rotation 0
GENES = {
    "gene_a": (8500, 450, ["a"]),   # 8500..8950, window of 1 kb reaches 9950
    "gene_x": (9900, 200, ["b"]),   # 9900..10000 + 0..100, 950 bases from gene_a
    "filler": (3000, 300, []),      # an unrelated gene far from both
}


def build(rotation):
    record = DummyRecord(length=LENGTH, circular=True)
    results = {}
    for name, (start, size, profiles) in GENES.items():
        start = (start + rotation) % LENGTH
        end = start + size
        if end > LENGTH:
            location = CompoundLocation([FeatureLocation(start, LENGTH, 1), FeatureLocation(0, end - LENGTH, 1)])
        else:
            location = FeatureLocation(start, end, 1)
        record.add_cds_feature(DummyCDS(location=location, locus_tag=name))
        if profiles:
            results[name] = [FakeHSPHit(profile, name) for profile in profiles]
    return record, results


def detect(rotation):
    record, results = build(rotation)
    profiles = {p for _, _, ps in GENES.values() for p in ps}
    rules = rule_parser.Parser(RULES, profiles, {"cat"}).rules
    domains, hits = apply_cluster_rules(record, results, rules)
    found = []
    if hits:
        rules_by_name = {rule.name: rule for rule in rules}
        for proto in find_protoclusters(record, hits, rules_by_name, results, domains):
            core = tuple(sorted(cds.get_name() for cds in
                                record.get_cds_features_within_location(proto.core_location)))
            found.append((proto.product, core))
    return sorted(found)


def main():
    # gene_x has profile b and is 950 bases (< 1 kb cutoff) from gene_a, so "a and not b"
    # must not be satisfied by gene_a, whatever the origin is
    expected = []
    failed = False
    for rotation in [0, 2000, 5000]:
        observed = detect(rotation)
        state = "ok" if observed == expected else "WRONG"
        print(f"rotation {rotation}: expected {expected}, observed {observed}: {state}")
        failed = failed or observed != expected
    return 1 if failed else 0


if __name__ == "__main__":
    sys.exit(main())
