#!/usr/bin/env python
""" Pre-existing violation 1 (unchanged tree): on a circular record that has a gene
    spanning the origin, a *non-overlapping* lookup of a simple location that starts
    at coordinate 0 returns nothing at all, so an area starting at 0 that is added
    after the genes stays empty, while the same area added before the genes is filled.
"""
import os
import sys

sys.path.insert(0, os.path.dirname(os.path.abspath(__file__)))

from antismash.common.secmet.locations import CompoundLocation, FeatureLocation  # noqa: E402
from antismash.common.secmet.test.helpers import DummyCDS, DummyRecord, DummySubRegion  # noqa: E402


def genes():
    return [
        DummyCDS(location=CompoundLocation([FeatureLocation(950, 1000, 1), FeatureLocation(0, 30, 1)]),
                 locus_tag="cross"),
        DummyCDS(start=40, end=100, locus_tag="a"),
        DummyCDS(start=200, end=300, locus_tag="b"),
        DummyCDS(start=600, end=700, locus_tag="far"),
    ]


def names(cdses):
    return [cds.get_name() for cds in cdses]


problems = []
record = DummyRecord(length=1000, circular=True)
for gene in genes():
    record.add_cds_feature(gene)

# hand-computed: within [0:500) lie a [40:100) and b [200:300); 'cross' has a part at [950:1000)
expected = ["a", "b"]
observed = names(record.get_cds_features_within_location(FeatureLocation(0, 500)))
if observed != expected:
    problems.append(f"lookup [0:500): observed {observed}, expected {expected}")
# the same query moved by one base works, showing it is the start == 0 tie with the origin gene
observed = names(record.get_cds_features_within_location(FeatureLocation(1, 500)))
if observed != expected:
    problems.append(f"lookup [1:500): observed {observed}, expected {expected}")

# consequence for areas and build order
sub_after = DummySubRegion(start=0, end=500)
record.add_subregion(sub_after)
observed = names(sub_after.cds_children)
if observed != expected:
    problems.append(f"subregion [0:500) added after genes: lists {observed}, expected {expected}")

record2 = DummyRecord(length=1000, circular=True)
sub_before = DummySubRegion(start=0, end=500)
record2.add_subregion(sub_before)
for gene in genes():
    record2.add_cds_feature(gene)
observed = names(sub_before.cds_children)
if observed != expected:
    problems.append(f"subregion [0:500) added before genes: lists {observed}, expected {expected}")

if problems:
    print("pre-existing violation 1:")
    for problem in problems:
        print("  " + problem)
    sys.exit(1)
print("ok")
