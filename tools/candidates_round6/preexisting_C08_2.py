#!/usr/bin/env python
""" Pre-existing violation 2 (unchanged tree): the early exit of the non-overlapping
    lookup gives up at the first gene that pokes out of the query unless the *next*
    gene is nested in it. Two staggered genes poking out of the end of the query,
    followed by a small gene that is inside the query, hide the small gene - from
    lookups and from any area added after the genes, but not from an area added before.
"""
import os
import sys

sys.path.insert(0, os.path.dirname(os.path.abspath(__file__)))

from antismash.common.secmet.locations import FeatureLocation  # noqa: E402
from antismash.common.secmet.test.helpers import DummyCDS, DummyRecord, DummySubRegion  # noqa: E402

GENES = {"early": (110, 140), "long1": (150, 250), "long2": (155, 260), "small": (160, 190)}
QUERY = (100, 200)
# hand-computed: only early [110:140) and small [160:190) lie within [100:200)
EXPECTED = ["early", "small"]


def genes():
    return [DummyCDS(start=start, end=end, locus_tag=name) for name, (start, end) in GENES.items()]


def names(cdses):
    return sorted(cds.get_name() for cds in cdses)


problems = []
record = DummyRecord(length=1000)
for gene in genes():
    record.add_cds_feature(gene)
observed = names(record.get_cds_features_within_location(FeatureLocation(*QUERY)))
if observed != EXPECTED:
    problems.append(f"lookup {QUERY}: observed {observed}, expected {EXPECTED}")
after = DummySubRegion(start=QUERY[0], end=QUERY[1])
record.add_subregion(after)
observed = names(after.cds_children)
if observed != EXPECTED:
    problems.append(f"subregion {QUERY} added after genes: lists {observed}, expected {EXPECTED}")

record = DummyRecord(length=1000)
before = DummySubRegion(start=QUERY[0], end=QUERY[1])
record.add_subregion(before)
for gene in genes():
    record.add_cds_feature(gene)
observed = names(before.cds_children)
if observed != EXPECTED:
    problems.append(f"subregion {QUERY} added before genes: lists {observed}, expected {EXPECTED}")

if problems:
    print("pre-existing violation 2:")
    for problem in problems:
        print("  " + problem)
    sys.exit(1)
print("ok")
