#!/usr/bin/env python
""" Pre-existing: Record.extend_location on a multi-part location where both
    extensions wrap around the origin and meet: the part of the end-side
    extension that lands after the origin is dropped whenever the start-side
    extension was merged first, so bases within the distance are missing.
"""
import os
import sys
sys.path.insert(0, os.path.dirname(os.path.abspath(__file__)))
from antismash.common.secmet.locations import CompoundLocation, FeatureLocation  # noqa: E402
from antismash.common.secmet.test.helpers import DummyRecord  # noqa: E402


def bases(location):
    return {b for part in location.parts for b in range(int(part.start), int(part.end))}


record = DummyRecord(seq="A" * 100, circular=True)
location = CompoundLocation([FeatureLocation(10, 20, 1), FeatureLocation(40, 50, 1), FeatureLocation(80, 85, 1)])
distance = 60
result = record.extend_location(location, distance)
# model: the outer ends move outwards by the distance, wrapping; introns are kept
expected = bases(location)
for step in range(1, distance + 1):
    expected.add((10 - step) % 100)
    expected.add((85 - 1 + step) % 100)
observed = bases(result)
if observed != expected:
    print(f"extend_location({location}, {distance}) on a ring of 100 gave {result};"
          f" missing bases {sorted(expected - observed)}, extra bases {sorted(observed - expected)}")
    sys.exit(1)
sys.exit(0)
