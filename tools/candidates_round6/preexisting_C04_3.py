#!/usr/bin/env python
""" Pre-existing: results with parts that are not mutually disjoint.
    (a) remove_redundant_exons keeps both copies of a duplicated exon (the final
        filter uses equality, so the copy judged redundant is kept as well).
    (b) build_location_from_others, given a reverse strand compound location followed by
        an abutting location, widens the wrong (last = lowest) part.
"""
import os
import sys
sys.path.insert(0, os.path.dirname(os.path.abspath(__file__)))
from antismash.common.secmet.locations import (  # noqa: E402
    CompoundLocation, FeatureLocation, build_location_from_others, remove_redundant_exons,
)


def bases(location):
    return {b for part in location.parts for b in range(int(part.start), int(part.end))}


problems = []
location = CompoundLocation([FeatureLocation(0, 10, 1), FeatureLocation(0, 10, 1), FeatureLocation(20, 30, 1)])
result = remove_redundant_exons(location)
if sum(len(part) for part in result.parts) != len(bases(result)):
    problems.append(f"remove_redundant_exons({location}) gave {result}, parts overlap;"
                    " expected join{[0:10](+), [20:30](+)}")

first = CompoundLocation([FeatureLocation(20, 30, -1), FeatureLocation(0, 10, -1)])
second = FeatureLocation(30, 40, -1)
result = build_location_from_others([first, second])
expected = bases(first) | bases(second)
if bases(result) != expected or sum(len(part) for part in result.parts) != len(expected):
    problems.append(f"build_location_from_others([{first}, {second}]) gave {result} covering"
                    f" {len(bases(result))} bases in overlapping parts; expected exactly the {len(expected)}"
                    " bases of the inputs, e.g. join{[20:40](-), [0:10](-)}")
for problem in problems:
    print(problem)
sys.exit(1 if problems else 0)
