#!/usr/bin/env python3
""" C18, pre-existing: with a single worker the timeout is never applied.

    parallel_function(f, args, cpus=1, timeout=t) takes the in-process shortcut
    and ignores `timeout` (a source comment admits this), so a batch that
    raises "Timeout in parallel function" for every cpus >= 2 quietly runs to
    completion and returns a result list for cpus == 1 (which is also what an
    antismash run with `--cpus 1` gets). The property quantifies over worker
    counts 1..16 and requires a timeout to surface as an error.

    Exits 1 on violation, 0 otherwise.
"""

import os
import sys
import time

sys.path.insert(0, os.path.dirname(os.path.abspath(__file__)))

from antismash.common.subprocessing import parallel_function  # noqa: E402


def outcome(cpus):
    start = time.time()
    try:
        result = parallel_function(time.sleep, [[3]] * 2, cpus=cpus, timeout=1)
    except RuntimeError as err:
        return f"RuntimeError({err.args[0]!r}) after {time.time() - start:.1f}s"
    return f"returned {result} after {time.time() - start:.1f}s"


def main():
    bad = []
    for cpus in (2, 1):
        observed = outcome(cpus)
        print(f"cpus={cpus}: {observed}")
        if not observed.startswith("RuntimeError('Timeout in parallel function:')"):
            bad.append(cpus)
    if bad:
        print("C18 violated (pre-existing): 2 jobs of 3 seconds each with timeout=1")
        print("  expected: RuntimeError('Timeout in parallel function:', ...) for every worker count")
        print(f"  observed: no error for cpus in {bad}")
        return 1
    return 0


if __name__ == "__main__":
    sys.exit(main())
