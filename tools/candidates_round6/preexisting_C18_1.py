#!/usr/bin/env python3
""" C18, pre-existing: a worker process that dies (killed by the OOM killer, a
    segfault in a C extension, os._exit, ...) does not surface as an error.

    multiprocessing.Pool silently replaces the dead worker, but the job it was
    running is lost, so the starmap_async() result never becomes ready.
    parallel_function() without a timeout (which is how pre_process_sequences
    and all other callers in antismash use it) then blocks forever instead of
    raising.

    The call is made in a child interpreter with a watchdog. Expected: the call
    raises (the child exits by itself with a traceback). Observed on the
    unchanged tree: the child is still blocked when the watchdog fires.

    Exits 1 on violation, 0 otherwise.
"""

import os
import signal
import subprocess
import sys

ROOT = os.path.dirname(os.path.abspath(__file__))
WATCHDOG = 20  # seconds, the jobs themselves take a few milliseconds

CHILD = f"""
import os, sys
sys.path.insert(0, {ROOT!r})
from antismash.common.subprocessing import parallel_function

def job(index):
    if index == 1:
        os._exit(9)  # the worker dies without any python-level exception
    return index

if __name__ == "__main__":
    try:
        results = parallel_function(job, [[i] for i in range(4)], cpus=2)
    except BaseException as err:
        print("raised", type(err).__name__, err)
        sys.exit(0)
    print("returned", results)
    sys.exit(3)
"""


def main():
    with subprocess.Popen([sys.executable, "-c", CHILD], stdout=subprocess.PIPE, stderr=subprocess.STDOUT,
                          start_new_session=True, cwd=ROOT) as proc:
        try:
            out, _ = proc.communicate(timeout=WATCHDOG)
        except subprocess.TimeoutExpired:
            os.killpg(proc.pid, signal.SIGKILL)
            proc.communicate()
            print("C18 violated (pre-existing): a dying worker does not surface as an error")
            print("  expected: parallel_function(job, 4 jobs, cpus=2) raises when the worker running job 1 dies")
            print(f"  observed: the call was still blocked after {WATCHDOG} seconds (no error, no result)")
            return 1
    text = out.decode().strip().splitlines()
    last = text[-1] if text else ""
    if proc.returncode == 0 and last.startswith("raised"):
        print("ok:", last)
        return 0
    print("C18 violated (pre-existing): a dying worker does not surface as an error")
    print("  expected: an exception")
    print(f"  observed: exit code {proc.returncode}, output {last!r}")
    return 1


if __name__ == "__main__":
    sys.exit(main())
