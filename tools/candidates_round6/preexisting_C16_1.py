#!/usr/bin/env python
""" Pre-existing violation of C16 (unchanged tree): an over-long record *name*
    (and 'accession' annotation) containing a contig/scaffold number of more
    than five digits is "shortened" to something that is still longer than
    16 characters.

    fix_record_name_id() guards the id against this ("the contig number has no
    upper limit, so the suggestion itself can be too long") but applies
    _shorten_ids() to record.name and record.annotations['accession'] without
    the same length check.

    Exit status 1 on violation, 0 if the behaviour is right.
"""

import logging
import os
import sys

sys.path.insert(0, os.path.dirname(os.path.abspath(__file__)))
logging.disable(logging.CRITICAL)

# pylint: disable=wrong-import-position
from antismash.common import record_processing
from antismash.common.secmet.test.helpers import DummyRecord


def main():
    failures = 0
    for text in ["contig1234567.abcdefgh", "scaffold7654321 whole genome"]:
        record = DummyRecord(seq="ACGT" * 10, record_id=text)
        record.name = text
        record.annotations["accession"] = text
        record.record_index = 1
        record_processing.fix_record_name_id(record, {text}, allow_long_names=False)
        observed = {
            "id": record.id,
            "name": record.name,
            "accession": record.annotations["accession"],
        }
        for key, value in observed.items():
            if len(value) > 16:
                failures += 1
                print(f"input {text!r}: {key} is {value!r} ({len(value)} characters), expected at most 16")
    if failures:
        return 1
    print("names, ids and accessions were all shortened to 16 characters or fewer")
    return 0


if __name__ == "__main__":
    sys.exit(main())
