#!/usr/bin/env python3
""" C18, pre-existing: what happens to the *arguments* depends on the worker count.

    With cpus == 1 the calls run in-process on the caller's objects, with
    cpus >= 2 they run on pickled copies. Two visible consequences:

    (a) parallel_function(): when argument sets share a mutable object and the
        function alters it, "one call after another" lets later calls see the
        earlier alterations, the pool does not - the result lists differ.
    (b) pre_process_sequences() documents "Record instances will be altered
        in-place". That holds for --cpus 1 only: with two or more records and
        cpus >= 2 the records the caller passed in keep their unsanitised
        sequence and never get their skip reason; only the returned copies do.
        (antismash.main uses the returned list, so the main pipeline is not
        affected; any caller relying on the documented behaviour is.)

    Exits 1 on violation, 0 otherwise.
"""

import os
import sys

sys.path.insert(0, os.path.dirname(os.path.abspath(__file__)))

from antismash import config  # noqa: E402
from antismash.common import record_processing  # noqa: E402
from antismash.common.secmet.test.helpers import DummyCDS, DummyRecord  # noqa: E402
from antismash.common.subprocessing import parallel_function  # noqa: E402


def push(stack, value):
    stack.append(value)
    return list(stack)


class Genefinding:
    @staticmethod
    def get_arguments():
        args = config.args.ModuleArgs("genefinding", "genefinding")
        args.add_option("gff3", default="", type=str, help="dummy", dest="gff3")
        args.add_option("tool", default="none", type=str, help="dummy", dest="tool")
        return args

    @staticmethod
    def run_on_record(_record, _options):
        return None


def inputs_after_preprocessing(cpus):
    module = Genefinding()
    options = config.build_config(["--cpus", str(cpus), "--minlength", "1"], isolated=True, modules=[module])
    config.update_config({"triggered_limit": False})
    try:
        records = [DummyRecord(seq="atg-gcxgca", record_id="with_gene",
                               features=[DummyCDS(start=0, end=9, locus_tag="gene")]),
                   DummyRecord(seq="nnn---nnn", record_id="empty")]
        record_processing.pre_process_sequences(records, options, module)
        return [(rec.id, str(rec.seq), rec.skip) for rec in records]
    finally:
        config.destroy_config()


def main():
    status = 0

    config.build_config(["--cpus", "1"], isolated=True, modules=[])
    try:
        shared = []
        sequential = [push(*argset) for argset in [[shared, i] for i in range(3)]]
        shared = []
        parallel = parallel_function(push, [[shared, i] for i in range(3)], cpus=3)
    finally:
        config.destroy_config()
    if parallel != sequential:
        status = 1
        print("C18 violated (pre-existing) (a): argument sets sharing a mutable object")
        print(f"  expected (one call after another): {sequential}")
        print(f"  observed (cpus=3):                 {parallel}")

    expected = [("with_gene", "ATGGCNGCA", None), ("empty", "NNNNNN", "contains no sequence")]
    for cpus in (1, 2):
        observed = inputs_after_preprocessing(cpus)
        if observed != expected:
            status = 1
            print(f"C18 violated (pre-existing) (b): records passed to pre_process_sequences, --cpus {cpus}")
            print(f"  expected (documented in-place alteration): {expected}")
            print(f"  observed:                                  {observed}")
    return status


if __name__ == "__main__":
    sys.exit(main())
