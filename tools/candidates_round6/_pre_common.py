""" Shared helpers for the preexisting_C12_<n>.py scripts """
import os
import sys

sys.path.insert(0, os.path.dirname(os.path.abspath(__file__)))

import random
import tempfile

from Bio.Seq import Seq
from helperlibs.bio import seqio

from antismash.common.secmet import Record
from antismash.common.secmet.locations import CompoundLocation, FeatureLocation
from antismash.common.secmet.test.helpers import DummyCDS, DummyRecord

LENGTH = 3000
SEQUENCE = "".join(random.Random(12).choice("ACGT") for _ in range(LENGTH))


def extract(sequence, location):
    return str(location.extract(Seq(sequence)))


def make_record():
    record = DummyRecord(seq=SEQUENCE, circular=True, record_id="PRE")
    record.length = None
    return record


def make_cds(start, end, strand, name):
    if start > end:
        parts = [FeatureLocation(start, LENGTH, strand), FeatureLocation(0, end, strand)]
        if strand == -1:
            parts.reverse()
        location = CompoundLocation(parts)
    else:
        location = FeatureLocation(start, end, strand)
    cds = DummyCDS(location=location, locus_tag=name)
    cds.translation = "A" * (len(location) // 3)
    return cds


def write_and_parse(region, bio_record=None):
    """ Writes the region file and returns the parsed biopython record """
    with tempfile.TemporaryDirectory() as directory:
        region.write_to_genbank(directory=directory, record=bio_record)
        name = f"{region.parent_record.id}.region{region.get_region_number():03d}.gbk"
        return list(seqio.parse(os.path.join(directory, name)))[0]
