""" Pre-existing violation 1: in an origin-spanning region, protoclusters (and
    candidate clusters) are renumbered by the rank of their number in the full
    record, but after linearisation their order (and so the numbers a reload
    assigns by position) differs whenever the region also holds a protocluster lying
    wholly before the origin: in the full record that one has the highest number,
    in the region file it comes first. The cand_cluster /protoclusters references
    then point at the wrong protoclusters after reloading.
"""
from _pre_common import *
from antismash.common.secmet.test.helpers import DummyProtocluster, DummySubRegion

record = make_record()
for cds in [make_cds(2650, 2710, 1, "pre"), make_cds(2940, 60, 1, "x"), make_cds(150, 210, -1, "post")]:
    record.add_cds_feature(cds)
for proto in [DummyProtocluster(2600, 2760, core_start=2650, core_end=2710, product="pPre"),
              DummyProtocluster(2890, 110, core_start=2940, core_end=60, product="pX", record_length=LENGTH),
              DummyProtocluster(100, 260, core_start=150, core_end=210, product="pPost")]:
    record.add_protocluster(proto)
record.create_candidate_clusters()
record.add_subregion(DummySubRegion(2700, 2950))  # joins pPre to the rest in one region
record.create_regions()
assert len(record.get_regions()) == 1
region = record.get_region(0)
assert region.crosses_origin()

bio = write_and_parse(region)
region_seq = extract(SEQUENCE, region.location)
assert str(bio.seq) == region_seq
try:
    new = Record.from_biopython(bio, taxon="bacteria").get_region(0)
except Exception as err:  # pylint: disable=broad-except
    print(f"observed: reload failed with {type(err).__name__}: {err}\nexpected: reload succeeds")
    sys.exit(1)


def candidates(a_region, sequence):
    return sorted((extract(sequence, cand.location), tuple(sorted(p.product for p in cand.protoclusters)))
                  for cand in a_region.candidate_clusters)


expected = candidates(region, SEQUENCE)
observed = candidates(new, region_seq)
if observed != expected:
    print("candidate clusters of the reloaded region file refer to other protoclusters:")
    print("observed:", [(len(seq), prods) for seq, prods in observed])
    print("expected:", [(len(seq), prods) for seq, prods in expected])
    sys.exit(1)
print("ok")
