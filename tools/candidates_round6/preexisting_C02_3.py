""" Pre-existing: "cds((a))" is accepted (the single-identifier check only looks at a bare
    identifier), but it regenerates as "cds(a)", which the parser rejects. """
import os
import sys

sys.path.insert(0, os.path.dirname(os.path.abspath(__file__)))

from antismash.common.hmm_rule_parser import rule_parser  # noqa: E402
from antismash.common.hmm_rule_parser.structures import Multipliers  # noqa: E402

SIGNATURES = {"a", "b", "c", "d"}
HEAD = "RULE A CATEGORY Cat CUTOFF 10 NEIGHBOURHOOD 20 CONDITIONS "


def parse(text, multipliers=None):
    return rule_parser.Parser(text, SIGNATURES, {"Cat"}, multipliers=multipliers)


def main():
    bad = 0
    for conditions in ["cds((a))", "b and cds((a))", "cds((not a)) and b"]:
        try:
            rule = parse(HEAD + conditions).rules[0]
        except SyntaxError as err:
            print(f"ok, rejected at once: {conditions!r} ({str(err).splitlines()[0]})")
            continue
        regenerated = rule.reconstruct_rule_text()
        try:
            parse(regenerated)
        except SyntaxError as err:
            bad = 1
            print(f"observed: {conditions!r} is accepted, regenerates as {regenerated.split('CONDITIONS ')[1]!r},"
                  f" and that is rejected: {str(err).splitlines()[0]}")
            print("expected: either both texts are rejected or the regenerated text parses back")
    return bad


if __name__ == "__main__":
    sys.exit(main())
