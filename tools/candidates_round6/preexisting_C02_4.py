""" Pre-existing: aliases are not a plain textual substitution. An alias used inside the value of
    another alias that was defined earlier is expanded at the point of use unless it is the FIRST
    token of that value (the spliced-in first token is never looked up). """
import os
import sys

sys.path.insert(0, os.path.dirname(os.path.abspath(__file__)))

from antismash.common.hmm_rule_parser import rule_parser  # noqa: E402
from antismash.common.hmm_rule_parser.structures import Multipliers  # noqa: E402

SIGNATURES = {"a", "b", "c", "d"}
HEAD = "RULE A CATEGORY Cat CUTOFF 10 NEIGHBOURHOOD 20 CONDITIONS "


def parse(text, multipliers=None):
    return rule_parser.Parser(text, SIGNATURES, {"Cat"}, multipliers=multipliers)


def main():
    later = parse("DEFINE outer AS c and inner\nDEFINE inner AS (a or b)\n" + HEAD + "outer").rules[0]
    wanted = "(c and (a or b))"
    if str(later.conditions) != wanted:
        print(f"unexpected: non-leading use gives {later.conditions}, expected {wanted}")
        return 1
    text = "DEFINE outer AS inner and c\nDEFINE inner AS (a or b)\n" + HEAD + "outer"
    try:
        first = parse(text).rules[0]
    except ValueError as err:
        print(f"observed: leading use of the same alias is not substituted: {str(err).splitlines()[0]}")
        print("expected: conditions ((a or b) and c), as 'c and inner' gives (c and (a or b))")
        return 1
    if str(first.conditions) != "((a or b) and c)":
        print(f"observed {first.conditions}, expected ((a or b) and c)")
        return 1
    return 0


if __name__ == "__main__":
    sys.exit(main())
