#!/usr/bin/env python
""" Pre-existing behaviour of C16 on the unchanged tree (interpretation
    dependent): fix_record_name_id() strips '>' , '/', ' ' etc. from record
    ids, but leaves '<', the backslash and the whitespace characters tab,
    carriage return and newline in place. The sibling sanitiser for gene
    identifiers (cds_feature._sanitise_id_value) does treat "\r\n\t" as
    illegal. A tab or newline breaks the GenBank LOCUS line, '<' and '\\' are
    not usable in file names on all platforms, and the record id is used
    verbatim in the region file names.

    Exit status 1 if any of these characters survives in the id, 0 otherwise.
"""

import logging
import os
import sys

sys.path.insert(0, os.path.dirname(os.path.abspath(__file__)))
logging.disable(logging.CRITICAL)

# pylint: disable=wrong-import-position
from antismash.common import record_processing
from antismash.common.secmet.test.helpers import DummyRecord

SUSPECT = "<\\\t\r\n"


def main():
    failures = 0
    for text in ["a<b", "a\\b", "a\tb", "a\nb", "a\rb"]:
        record = DummyRecord(seq="ACGT" * 10, record_id=text)
        record.name = text
        record.record_index = 1
        record_processing.fix_record_name_id(record, {text}, allow_long_names=False)
        remaining = sorted(set(SUSPECT).intersection(record.id))
        if remaining:
            failures += 1
            print(f"input id {text!r}: observed id {record.id!r} still contains {remaining}, "
                  f"expected {text[0] + text[-1]!r} (or some other id free of them)")
    if failures:
        return 1
    print("no suspect characters survive in record ids")
    return 0


if __name__ == "__main__":
    sys.exit(main())
