#!/usr/bin/env python3
""" Pre-existing violation of C17 (unchanged tree): the 'product_categories' list
    that antismash.outputs.html.js.convert_record() writes for a region (it ends
    up in regions.js) is list(region.product_categories), i.e. a set of strings
    turned into a list with no sort, so its order changes with PYTHONHASHSEED
    whenever a region has more than one product category.

    Exits 1 if the JSON differs between hash seeds, 0 if it is identical.
"""

import json
import os
import subprocess
import sys

ROOT = os.path.dirname(os.path.abspath(__file__))
sys.path.insert(0, ROOT)

SEEDS = [str(i) for i in range(10)]


def child() -> None:
    from antismash.common.secmet.test.helpers import DummyCDS, DummyProtocluster, DummyRecord
    from antismash.config import build_config, destroy_config, update_config
    from antismash.main import get_all_modules
    from antismash.outputs.html import js

    record = DummyRecord(seq="A" * 3000, features=[
        DummyCDS(100, 400, locus_tag="geneA"),
        DummyCDS(500, 800, locus_tag="geneB"),
        DummyCDS(900, 1200, locus_tag="geneC"),
    ])
    record.record_index = 1
    record.add_protocluster(DummyProtocluster(start=50, end=900, core_start=100, core_end=400,
                                              product="prodA", product_category="NRPS"))
    record.add_protocluster(DummyProtocluster(start=300, end=1100, core_start=500, core_end=800,
                                              product="prodB", product_category="PKS"))
    record.add_protocluster(DummyProtocluster(start=700, end=1400, core_start=900, core_end=1200,
                                              product="prodC", product_category="RiPP"))
    record.create_candidate_clusters()
    record.create_regions()
    assert len(record.get_regions()) == 1

    options = build_config([], isolated=True, modules=get_all_modules())
    update_config({"all_enabled_modules": []})
    try:
        converted = js.convert_record(record, options, {})
    finally:
        destroy_config()
    print(json.dumps(converted["regions"][0]["product_categories"]))


def main() -> int:
    outputs = {}
    for seed in SEEDS:
        env = dict(os.environ)
        env["PYTHONHASHSEED"] = seed
        proc = subprocess.run([sys.executable, os.path.abspath(__file__), "--child"],
                              env=env, cwd=ROOT, capture_output=True, text=True, check=False)
        if proc.returncode != 0:
            print(f"child with PYTHONHASHSEED={seed} failed:\n{proc.stderr}")
            return 2
        outputs[seed] = proc.stdout.strip().splitlines()[-1]
    distinct = sorted(set(outputs.values()))
    if len(distinct) > 1:
        print(f"observed {len(distinct)} different 'product_categories' lists for the same region "
              f"over hash seeds {SEEDS[0]}..{SEEDS[-1]}; expected 1 (e.g. sorted: [\"NRPS\", \"PKS\", \"RiPP\"])")
        for raw in distinct:
            print(f"  seeds {','.join(s for s, out in outputs.items() if out == raw)}: {raw}")
        return 1
    print(f"identical for all seeds: {distinct[0]}")
    return 0


if __name__ == "__main__":
    if "--child" in sys.argv:
        child()
        sys.exit(0)
    sys.exit(main())
