#!/usr/bin/env python
""" Pre-existing (unchanged tree) C11 candidate: HmmerResults saved under lenient thresholds and
    reused under stricter ones (from_json + refilter, as done by cluster_hmmer / full_hmmer
    regenerate_previous_results) do not equal the results a fresh run with the stricter thresholds
    produces when a hit sits exactly ON the new threshold:
      hmmer.build_hits() treats both thresholds as exclusive (score <= min -> dropped, evalue >= max -> dropped),
      HmmerResults.refilter() treats them as inclusive (score >= min and evalue <= max -> kept).
    Exit 1 on mismatch, 0 if reused == fresh.
"""
import json
import os
import sys
import tempfile
from types import SimpleNamespace

sys.path.insert(0, os.path.dirname(os.path.abspath(__file__)))

from antismash.common import hmmer  # noqa: E402
from antismash.common.secmet.test.helpers import DummyCDS, DummyRecord  # noqa: E402


def main() -> int:
    record = DummyRecord(seq="A" * 400)
    record.id = "rec"
    cds = DummyCDS(0, 300, locus_tag="geneA", translation="M" * 100)
    record.add_cds_feature(cds)

    with tempfile.TemporaryDirectory() as tmp:
        database = os.path.join(tmp, "Pfam-A.hmm")
        with open(database, "w", encoding="utf-8") as handle:
            for name, acc in [("low", "PF00001.1"), ("edge_score", "PF00002.1"),
                              ("edge_evalue", "PF00003.1"), ("good", "PF00004.1")]:
                handle.write(f"HMMER3/f [3.1b2]\nNAME  {name}\nACC   {acc}\n//\n")

        def hsp(name, start, end, score, evalue):
            return SimpleNamespace(query_id="geneA", hit_id=name, hit_description="d", query_start=start,
                                   query_end=end, bitscore=score, evalue=evalue)
        raw = [SimpleNamespace(id="geneA", hsps=[
            hsp("low", 0, 10, 10.0, 1e-9),
            hsp("edge_score", 20, 30, 25.0, 1e-9),       # exactly the new min score
            hsp("edge_evalue", 40, 50, 40.0, 1e-5),      # exactly the new max evalue
            hsp("good", 60, 70, 40.0, 1e-9),
        ])]

        lenient = hmmer.HmmerResults(record.id, 1.0, 0.0, database, "tool",
                                     hmmer.build_hits(record, raw, 0.0, 1.0, database))
        saved = json.loads(json.dumps(lenient.to_json()))
        reused = hmmer.HmmerResults.from_json(saved, record).refilter(1e-5, 25.0)
        fresh = hmmer.build_hits(record, raw, 25.0, 1e-5, database)

    observed = sorted(hit.domain for hit in reused.hits)
    expected = sorted(hit.domain for hit in fresh)
    print("reused+refiltered hits:", observed)
    print("fresh run, same thresholds:", expected)
    if observed != expected or reused.to_json()["hits"] != [hit.to_json() for hit in fresh]:
        print("MISMATCH: reused results claim thresholds (evalue 1e-5, score 25) but hold hits a fresh run excludes")
        return 1
    return 0


if __name__ == "__main__":
    sys.exit(main())
