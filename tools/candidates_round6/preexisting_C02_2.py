""" Pre-existing: the text regenerated for "not ((not b))" is "not not b", which the grammar
    (and the parser) does not accept, so the regenerated rule text cannot be parsed back. """
import os
import sys

sys.path.insert(0, os.path.dirname(os.path.abspath(__file__)))

from antismash.common.hmm_rule_parser import rule_parser  # noqa: E402
from antismash.common.hmm_rule_parser.structures import Multipliers  # noqa: E402

SIGNATURES = {"a", "b", "c", "d"}
HEAD = "RULE A CATEGORY Cat CUTOFF 10 NEIGHBOURHOOD 20 CONDITIONS "


def parse(text, multipliers=None):
    return rule_parser.Parser(text, SIGNATURES, {"Cat"}, multipliers=multipliers)


def main():
    bad = 0
    for conditions in ["a and not (not b)", "a and not ((not b))", "a or not (((not b)))"]:
        rule = parse(HEAD + conditions).rules[0]
        regenerated = rule.reconstruct_rule_text()
        try:
            again = parse(regenerated).rules[0]
        except SyntaxError as err:
            bad = 1
            print(f"observed: {conditions!r} regenerates as {regenerated.split('CONDITIONS ')[1]!r},"
                  f" which fails to parse: {str(err).splitlines()[0]}")
            print("expected: regenerated text parses back to a rule with the same meaning")
            continue
        print(f"ok: {conditions!r} -> {again.conditions}")
    return bad


if __name__ == "__main__":
    sys.exit(main())
