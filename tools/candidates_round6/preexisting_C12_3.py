""" Pre-existing violation 3: RegionData.crosses_origin() is `start > end`. An
    origin-spanning region that wraps all the way around a circular record
    (join{[s:N], [0:s]}, accepted by Protocluster/CandidateCluster/Region) has
    start == end, is treated as not crossing the origin, and record[s:s] gives
    an empty region file.
"""
from _pre_common import *
from antismash.common.secmet.features import Protocluster

record = make_record()
record.add_cds_feature(make_cds(2940, 60, 1, "x"))
core = CompoundLocation([FeatureLocation(2940, LENGTH, 1), FeatureLocation(0, 60, 1)])
surrounds = CompoundLocation([FeatureLocation(2000, LENGTH, 1), FeatureLocation(0, 2000, 1)])
record.add_protocluster(Protocluster(core, surrounds, "test", "pX", 10, 1000, True, product_category="X"))
record.create_candidate_clusters()
record.create_regions()
region = record.get_region(0)
assert region.crosses_origin() and len(region.location) == LENGTH

bio = write_and_parse(region)
expected = extract(SEQUENCE, region.location)
if str(bio.seq) != expected:
    print(f"observed: region file with {len(bio.seq)} bases and {len(bio.features)} features")
    print(f"expected: {len(expected)} bases (bases {region.start}..{LENGTH} then 0..{region.end})")
    sys.exit(1)
print("ok")
