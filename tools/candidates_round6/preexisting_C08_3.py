#!/usr/bin/env python
""" Pre-existing violation 3 (unchanged tree): the pre/cross/post-origin sections of
    an area's gene list are not a partition of its genes. A protocluster that does not
    itself cross the origin files a gene under 'post_origin' (the default) whenever it is
    handed the gene directly (add_protocluster lookup, or the exhaustive search when a gene
    is added later), but when its origin-crossing ancestor (region) passes the same gene
    down, the ancestor's section ('pre_origin') is used as well. The gene is then in two
    sections at once, in either build order, although it is listed once overall.
"""
import os
import sys

sys.path.insert(0, os.path.dirname(os.path.abspath(__file__)))

from antismash.common.secmet.locations import CompoundLocation, FeatureLocation  # noqa: E402
from antismash.common.secmet.test.helpers import (  # noqa: E402
    DummyCDS,
    DummyProtocluster,
    DummyRecord,
    DummySubRegion,
)


def names(cdses):
    return sorted(cds.get_name() for cds in cdses)


def build(genes_first):
    record = DummyRecord(length=1000, circular=True)
    genes = [DummyCDS(start=900, end=960, locus_tag="pre"), DummyCDS(start=20, end=80, locus_tag="post")]
    if genes_first:
        for gene in genes:
            record.add_cds_feature(gene)
    # a protocluster wholly before the origin, and a subregion crossing the origin that overlaps it
    proto = DummyProtocluster(start=850, end=990, core_start=900, core_end=960)
    record.add_protocluster(proto)
    record.add_subregion(DummySubRegion(start=950, end=100, record_length=1000))
    record.create_candidate_clusters()
    record.create_regions()
    assert len(record.get_regions()) == 1 and record.get_regions()[0].crosses_origin()
    if not genes_first:
        for gene in genes:
            record.add_cds_feature(gene)
    return proto


problems = []
results = {}
for genes_first in (True, False):
    proto = build(genes_first)
    children = proto.cds_children
    sections = {"pre_origin": names(children.pre_origin), "cross_origin": names(children.cross_origin),
                "post_origin": names(children.post_origin)}
    results[genes_first] = sections
    label = "genes first" if genes_first else "genes last"
    if names(children) != ["pre"]:
        problems.append(f"[{label}] protocluster lists {names(children)}, expected ['pre']")
    total = sum(len(val) for val in sections.values())
    if total != len(children):
        problems.append(f"[{label}] protocluster has {len(children)} gene(s) but its sections hold {total}: {sections}")
if results[True] != results[False]:
    problems.append(f"sections differ by build order: genes first {results[True]}, genes last {results[False]}")

if problems:
    print("pre-existing violation 3:")
    for problem in problems:
        print("  " + problem)
    sys.exit(1)
print("ok")
