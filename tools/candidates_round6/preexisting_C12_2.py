""" Pre-existing violation 2: _build_record_from_cross_origin() copies *every*
    origin-crossing feature of the full record into an origin-spanning region's
    file, including ones that are not inside the region (here a long gene that
    overhangs the region on both sides). The copied feature gets coordinates
    beyond the region record and the file cannot be loaded again.
"""
from _pre_common import *
from antismash.common.secmet.test.helpers import DummyProtocluster

record = make_record()
record.add_cds_feature(make_cds(2940, 60, 1, "inside"))
record.add_cds_feature(make_cds(2700, 400, -1, "overhanging"))
record.add_protocluster(DummyProtocluster(2890, 110, core_start=2940, core_end=60, product="pX",
                                          record_length=LENGTH))
record.create_candidate_clusters()
record.create_regions()
region = record.get_region(0)
assert region.crosses_origin()
assert [cds.get_name() for cds in region.cds_children] == ["inside"]

bio = write_and_parse(region)
names = sorted(f.qualifiers["locus_tag"][0] for f in bio.features if f.type == "CDS")
outside = [(f.qualifiers["locus_tag"][0], str(f.location)) for f in bio.features
           if f.type == "CDS" and f.location.end > len(bio.seq)]
failed = False
if names != ["inside"]:
    print(f"observed CDS features in region file: {names}\nexpected: ['inside']")
    failed = True
if outside:
    print(f"observed features beyond the {len(bio.seq)} bases of the region record: {outside}\nexpected: none")
    failed = True
try:
    Record.from_biopython(bio, taxon="bacteria")
except Exception as err:  # pylint: disable=broad-except
    print(f"observed: reload failed with {type(err).__name__}: {err}\nexpected: reload succeeds")
    failed = True
sys.exit(1 if failed else 0)
