#!/bin/bash
# usage: tools/nd.sh <neutral name> <props...>   apply neutral/<name>.diff to /repo, run the given checks, revert
name=$1; shift
cd /repo || exit 2
if ! git diff --quiet; then echo "repo dirty"; exit 2; fi
git apply /verif/neutral/$name.diff || exit 2
for p in "$@"; do
  (cd /verif && ./check $p --no-evidence > /tmp/nd.out 2>&1; echo "[$name] $p exit=$?"; grep -E "ANALYSIS-ERROR|^antismash" /tmp/nd.out | cut -c1-${ND_WIDTH:-420})
done
git checkout -- .
