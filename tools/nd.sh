#!/bin/bash
# usage: tools/nd.sh <neutral name | seeded/<seed>> <props...>   apply the diff to the private worktree /tmp/wtx, run the given checks there
name=$1; shift
wt=/tmp/wtx
[ -d $wt ] || git -C /repo worktree add -q --detach $wt HEAD
cd $wt || exit 2
git checkout -q --detach $(git -C /repo rev-parse HEAD) 2>/dev/null; git reset -q --hard; git clean -fdq
case $name in
  seeded/*) patch=/verif/$name/patch.diff;;
  *) patch=/verif/neutral/$name.diff;;
esac
git apply $patch || git apply --3way $patch || exit 2
for p in "$@"; do
  (cd /verif && ./check $p --repo $wt --no-evidence > /tmp/nd.out 2>&1; echo "[$name] $p exit=$?"; grep -E "ANALYSIS-ERROR|^antismash" /tmp/nd.out | cut -c1-${ND_WIDTH:-420})
done
git reset -q --hard
