#!/bin/bash
# usage: tools/suite_with_patch.sh <worktree> <patch> <label>
# resets the scratch worktree, applies the patch and runs the pinned test suite there; prints "label passed=N failed=M"
wt=$1; patch=$2; label=$3
cd $wt || exit 2
git checkout -q -- . && git clean -qfd
git apply $patch || { echo "$label APPLY-FAILED"; exit 2; }
/venv/bin/python -m pytest -q -p no:cacheprovider --timeout=900 --continue-on-collection-errors 2>&1 | tail -1 | sed "s/^/$label /"
git checkout -q -- . && git clean -qfd
