#!/bin/bash
# usage: tools/eval_seed.sh <prop> <suffix> <worktree>   e.g. tools/eval_seed.sh C01 f /tmp/wt10/C01
# copies the sub-agent's seed into /verif/seeded/<prop>-<suffix>, confirms the demo in the private worktree /tmp/wtx
# (0 on the unchanged tree, 1 with the patch), runs the pinned suite with the patch in the scratch suite worktree, then
# runs the property's check against the patched private worktree.  /repo itself is never touched.
prop=$1; suffix=$2; wt=$3; seed=$prop-$suffix
d=/verif/seeded/$seed
mkdir -p $d
cp $wt/seed_$prop.diff $d/patch.diff || exit 2
sed "s#$wt#/repo#g" $wt/demo_$prop.py > $d/demo.py
head=$(git -C /repo rev-parse HEAD)
x=/tmp/wtx
[ -d $x ] || git -C /repo worktree add -q --detach $x HEAD
cd $x || exit 2
git checkout -q --detach $head 2>/dev/null; git reset -q --hard; git clean -fdq
sed "s#/repo#$x#g" $d/demo.py > $x/demo_tmp.py
/venv/bin/python $x/demo_tmp.py > /tmp/eval_demo_base.txt 2>&1; base=$?
git apply $d/patch.diff || { echo "$seed: patch does not apply"; rm -f $x/demo_tmp.py; exit 2; }
/venv/bin/python $x/demo_tmp.py > /tmp/eval_demo_mut.txt 2>&1; mut=$?
rm -f $x/demo_tmp.py; git reset -q --hard
echo "$seed demo: clean=$base patched=$mut"
s=/tmp/wt4_suite
[ -d $s ] || git -C /repo worktree add -q --detach $s HEAD
(cd $s && git checkout -q --detach $head 2>/dev/null; git reset -q --hard; git clean -fdq)
/verif/tools/suite_with_patch.sh $s $d/patch.diff "$seed suite:" 2>&1 | grep -v WARN
cd /verif && tools/nd.sh seeded/$seed $prop 2>&1 | grep -E "exit=|^antismash|^asa|ANALYSIS" | cut -c1-260 | head -6
