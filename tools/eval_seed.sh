#!/bin/bash
# usage: tools/eval_seed.sh <prop> <suffix> <worktree>   e.g. tools/eval_seed.sh C01 c /tmp/wt5/C01
# copies the sub-agent's seed into /verif/seeded/<prop>-<suffix>, confirms the demo (0 on clean /repo, 1 with the patch),
# runs the pinned suite with the patch in the scratch suite worktree, then runs the property's check against it
prop=$1; suffix=$2; wt=$3; seed=$prop-$suffix
d=/verif/seeded/$seed
mkdir -p $d
cp $wt/seed_$prop.diff $d/patch.diff || exit 2
sed "s#$wt#/repo#g" $wt/demo_$prop.py > $d/demo.py
cd /repo || exit 2
if ! git diff --quiet; then echo "repo dirty"; exit 2; fi
/venv/bin/python $d/demo.py > /tmp/eval_demo_base.txt 2>&1; base=$?
git apply $d/patch.diff || { echo "$seed: patch does not apply to /repo"; exit 2; }
/venv/bin/python $d/demo.py > /tmp/eval_demo_mut.txt 2>&1; mut=$?
git checkout -- .
echo "$seed demo: clean=$base patched=$mut"
/verif/tools/suite_with_patch.sh /tmp/wt4_suite $d/patch.diff "$seed suite:" 2>&1 | grep -v WARN
cd /verif && tools/try_seed.sh $seed $prop 2>&1 | grep -E "exit=|^antismash|^asa" | cut -c1-260 | head -6
