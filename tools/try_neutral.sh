#!/bin/bash
# usage: tools/try_neutral.sh <neutral diff name> [props...]  applies a behaviour-preserving refactoring and runs checks (all by default)
name=$1; shift
props="$@"; [ -z "$props" ] && props="C01 C02 C03 C04 C05 C06 C07 C08 C09 C10 C11 C12 C13 C14 C15 C16 C17 C18 C19 C20"
cd /repo || exit 2
if ! git diff --quiet; then echo "repo dirty"; exit 2; fi
git apply /verif/neutral/$name.diff || { echo "patch does not apply"; git reset -q --hard HEAD; exit 2; }
for p in $props; do
  (cd /verif && ./check $p --no-evidence > /tmp/try_neutral.out 2>&1; code=$?; if [ $code -ne 0 ]; then echo "[$name] $p exit=$code"; grep -E "ANALYSIS-ERROR|^antismash" /tmp/try_neutral.out | cut -c1-330; fi)
done
git checkout -- .
echo "[$name] done"
