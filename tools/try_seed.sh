#!/bin/bash
# usage: tools/try_seed.sh <seed dir name> [props...]   applies the seeded patch to /repo, runs checks, reverts
seed=$1; shift
props="$@"
[ -z "$props" ] && props=$(echo $seed | cut -d- -f1)
cd /repo || exit 2
if ! git diff --quiet; then echo "repo dirty"; exit 2; fi
git apply --3way /verif/seeded/$seed/patch.diff 2>/dev/null || { git reset -q --hard HEAD; git apply /verif/seeded/$seed/patch.diff; } || { echo "patch does not apply"; git reset -q --hard HEAD; exit 2; }
git reset -q
for p in $props; do
  (cd /verif && ./check $p --no-evidence > /tmp/try_seed.out 2>&1; echo "[$seed] $p exit=$?"; grep -E "VIOLATION|ANALYSIS-ERROR|^antismash" /tmp/try_seed.out | cut -c1-300)
done
git checkout -- .
