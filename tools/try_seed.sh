#!/bin/bash
# usage: tools/try_seed.sh <seed dir name> [props...]   applies the seeded patch to the private worktree /tmp/wtx (never to
# /repo, which background runs read) and runs the checks against it
seed=$1; shift
props="$@"
[ -z "$props" ] && props=$(echo $seed | cut -d- -f1)
exec /verif/tools/nd.sh seeded/$seed $props
