#!/bin/bash
# usage: tools/matrix.sh neutral|seeds [jobs]
# Runs, in parallel scratch worktrees under /tmp/mx, every neutral diff against all 20 checks (expects silence)
# or every seeded patch against its own property's check (expects a VIOLATION).  Leaves /repo untouched.
kind=$1; jobs=${2:-8}
mkdir -p /tmp/mx
run_one() {
  kind=$1; item=$2; slot=$3
  wt=/tmp/mx/wt_$slot
  if [ ! -d $wt ]; then git -C /repo worktree add -q --detach $wt HEAD >/dev/null 2>&1; fi
  git -C $wt reset -q --hard 2>/dev/null; git -C $wt checkout -q --detach $(git -C /repo rev-parse HEAD) 2>/dev/null; git -C $wt reset -q --hard; git -C $wt clean -fdq
  if [ $kind = neutral ]; then
    git -C $wt apply /verif/neutral/$item.diff || { echo "$item: DOES-NOT-APPLY"; return; }
    for p in C01 C02 C03 C04 C05 C06 C07 C08 C09 C10 C11 C12 C13 C14 C15 C16 C17 C18 C19 C20; do
      out=$(cd /verif && ./check $p --repo $wt --no-evidence 2>&1); rc=$?
      if [ $rc -ne 0 ]; then echo "$item x $p exit=$rc"; echo "$out" | grep -E "^antismash|ANALYSIS-ERROR" | cut -c1-260; fi
    done
  else
    p=$(echo $item | cut -d- -f1)
    git -C $wt apply /verif/seeded/$item/patch.diff 2>/dev/null || git -C $wt apply --3way /verif/seeded/$item/patch.diff >/dev/null 2>&1 || { echo "$item: DOES-NOT-APPLY"; git -C $wt reset -q --hard; return; }
    git -C $wt reset -q 2>/dev/null
    out=$(cd /verif && ./check $p --repo $wt --no-evidence 2>&1); rc=$?
    if [ $rc -ne 1 ]; then echo "$item MISSED exit=$rc"; echo "$out" | grep -E "ANALYSIS-ERROR" | cut -c1-260; fi
  fi
  git -C $wt reset -q --hard; git -C $wt clean -fdq
}
export -f run_one
if [ $kind = neutral ]; then items=$(ls /verif/neutral/*${3}.diff | xargs -n1 basename | sed 's/.diff$//'); else items=$(ls /verif/seeded); fi
n=0
for it in $items; do lists[$((n % jobs))]+=" $it"; n=$((n+1)); done
for k in $(seq 0 $((jobs-1))); do
  ( for it in ${lists[$k]}; do run_one $kind $it $k; done ) &
done
wait
for k in $(seq 0 $((jobs-1))); do git -C /repo worktree remove --force /tmp/mx/wt_$k >/dev/null 2>&1; done
echo "matrix $kind finished"
