#!/venv/bin/python
""" one-off: record, for every nested function listed in asa/reference_helpers.json, its parameter names on the
    reference tree (/repo HEAD), so that asa.renest can put a nested function that a refactoring moved to module
    level back where the rules expect it.  Run only on the reference tree. """
import ast, json, os, sys
sys.path.insert(0, os.path.dirname(os.path.dirname(os.path.abspath(__file__))))
from asa.index import Repo
path = "/verif/asa/reference_helpers.json"
ref = json.load(open(path))
repo = Repo("/repo")
params = {}
for rel, quals in ref["__nested__"].items():
    for qual in quals:
        func = repo.func(rel, qual)
        args = func.args
        names = [a.arg for a in args.posonlyargs + args.args + args.kwonlyargs]
        params.setdefault(rel, {})[qual] = names
ref["__nested_params__"] = params
# a fingerprint of each nested function's body (attribute and call names), to recognise it after a renaming
fps = {}
for rel, quals in ref["__nested__"].items():
    for qual in quals:
        func = repo.func(rel, qual)
        names = sorted({n.attr for n in ast.walk(func) if isinstance(n, ast.Attribute)} |
                       {n.func.id for n in ast.walk(func) if isinstance(n, ast.Call) and isinstance(n.func, ast.Name)})
        fps.setdefault(rel, {})[qual] = names
ref["__nested_fp__"] = fps
json.dump(ref, open(path, "w"), indent=1, sort_keys=True)
print(sum(len(v) for v in params.values()), "nested functions recorded")
