#!/usr/bin/env python3
""" usage: tools/mk_meta.py <seed> <round> <worktree> <detected_by> <existed:yes|no|partly> <needs...>
    writes seeded/<seed>/meta.json after tools/eval_seed.sh confirmed the seed """
import json, subprocess, sys
seed, rnd, wt, detected, existed = sys.argv[1:6]
needs = " ".join(sys.argv[6:])
prop = seed.split("-")[0]
d = f"/verif/seeded/{seed}"
files = [l[6:].strip() for l in open(f"{d}/patch.diff") if l.startswith("+++ b/")]
head = subprocess.run(["git", "-C", "/repo", "rev-parse", "--short=8", "HEAD"], capture_output=True, text=True).stdout.strip()
meta = {
    "property": prop, "seed": seed, "round": int(rnd),
    "source": f"fresh sub-agent given only the property text and its own worktree of /repo ({head}); nothing from /verif; "
              "asked for changes outside the over-used mutation classes (helpers, defaults, caches, hand-offs, copies, serialisation, exception handling)",
    "files_changed": files,
    "needs_to_manifest": needs,
    "confirmed": "by me (tools/eval_seed.sh): demo.py exits 0 on the unchanged tree and 1 with patch.diff applied; pinned suite with the "
                 "patch in a scratch worktree: 19 failed (sandbox baseline) / 1463 passed, same as without",
    "what_i_ran": [f"tools/eval_seed.sh {prop} {seed.split('-')[1]} {wt}", f"tools/try_seed.sh {seed} {prop}"],
    "detected_by": detected,
    "rule_existed_before_seed": {"yes": True, "no": False}.get(existed, existed),
}
json.dump(meta, open(f"{d}/meta.json", "w"), indent=1)
print("wrote", f"{d}/meta.json")
