#!/venv/bin/python
""" Regenerates /verif/MANIFEST.json from the rule modules' metadata """
import importlib
import json
import os
import sys

HERE = os.path.dirname(os.path.dirname(os.path.abspath(__file__)))
sys.path.insert(0, HERE)

NA_REASONS = {}

def main():
    props = [json.loads(line) for line in open(os.path.join(HERE, "properties.jsonl"))]
    checks, na = [], []
    for prop in props:
        pid = prop["id"]
        try:
            mod = importlib.import_module(f"asa.rules.{pid.lower()}")
        except ModuleNotFoundError:
            mod = None
        if mod is None or not getattr(mod, "CLAIMED", True):
            reason = getattr(mod, "NA_REASON", None) or NA_REASONS.get(pid) or \
                "checker not built yet (placeholder during construction; see DESIGN.md section 5)"
            na.append({"property_id": pid, "reason": reason})
            continue
        checks.append({
            "property_id": pid,
            "quick_cmd": f"./check {pid} --tier quick",
            "thorough_cmd": f"./check {pid} --tier thorough",
            "evidence_file": f"/verif/evidence/{pid}.json",
            "replay_cmd_template": f"./check {pid} --replay {{path}}",
            "engine": "asa",
            "level_claimed": {
                "category": "other",
                "text": getattr(mod, "LEVEL_TEXT", mod.EXPLANATION),
                "design_ref": f"DESIGN.md section 5, {pid}",
            },
            "level_note": "Decides only the named structural clauses (necessary conditions), for all inputs/paths at once; "
                          "NOT decided by this technique: " + "; ".join(getattr(mod, "UNDECIDED", [])) +
                          ". Trusted base: " + "; ".join(getattr(mod, "TRUSTED", [])),
            "technique": getattr(mod, "TECHNIQUE", "static analysis: custom AST/CFG rules over the repository source"),
        })
    manifest = {
        "version": 1,
        "setup_cmd": "true",
        "hooks": {"guard": "ANTISMASH_VERIF",
                  "enable": "none needed: the checks are static and read /repo's sources; no hook is compiled in",
                  "baseline_off_cmd": "cd /repo && /venv/bin/python -m pytest -ra -q -p no:cacheprovider --timeout=900 --continue-on-collection-errors",
                  "source_commits": [], "add_only": True},
        "engines": [{"name": "asa", "path": "/verif/asa", "serves_properties": [c["property_id"] for c in checks],
                     "kind_free_text": "repository-specific static analyser: Python ast index with class MRO and constant "
                                       "resolution, statement CFG (dominators, path queries, reaching definitions), "
                                       "comparison/affine kernels decided over operand orderings, table-agreement and "
                                       "unordered-iteration rules, mypy-as-library for expression types"}],
        "checks": checks,
        "notes": "All checks are static (family: static analysis). Each claims named structural clauses of its property; "
                 "see DESIGN.md. ./check exits 2 with ANALYSIS-ERROR when an anchor vanished or a shape is not analysable.",
        "not_applicable": na,
    }
    with open(os.path.join(HERE, "MANIFEST.json"), "w") as handle:
        json.dump(manifest, handle, indent=1)
        handle.write("\n")
    print(f"claimed={len(checks)} not_applicable={len(na)}")

main()
