""" Obligations, verdicts, known findings and evidence files """

from __future__ import annotations

import ast
import json
import os
import time
from dataclasses import dataclass, asdict
from typing import Any, Dict, List, Optional

from .index import AnalysisError, Repo

VERIF = os.path.dirname(os.path.dirname(os.path.abspath(__file__)))


@dataclass
class Ob:
    """ one rule instance examined """
    rule: str
    file: str
    line: int
    function: str
    construct: str      # line-number-free identity, used by known_findings.json
    what: str
    status: str         # holds | violated | cannot
    detail: str = ""
    form: str = ""      # extracted form (canonical expression, table, path)
    vacuous: bool = False


class Ctx:
    """ collects obligations of one property run """

    def __init__(self, prop: str, repo: Repo, tier: str) -> None:
        self.prop = prop
        self.repo = repo
        self.tier = tier
        self.obs: List[Ob] = []
        self.functions: set[str] = set()
        self.call_sites = 0
        self.floors: Dict[str, int] = {}
        self.notes: List[str] = []
        self.undecided: List[str] = []
        self.rules_text: Dict[str, str] = {}

    # --------------------------------------------------------------- record
    def rule(self, rule: str, text: str, floor: int = 1) -> None:
        """ declare a rule, its one-line statement and the minimum number of
            instances confirmed by hand on the reference tree """
        self.rules_text[rule] = text
        self.floors[rule] = floor

    def fn(self, rel: str, qual: str, inline: Any = False) -> ast.FunctionDef:
        """ the anchored function; with `inline` (True or a set of helper names) statement-level calls of private
            helpers of the same module / class are replaced by the helpers' bodies (asa.inline), so that moving
            statements of the anchor into a private helper does not hide them from the rule """
        self.functions.add(f"{rel}::{qual}")
        func = self.repo.func(rel, qual)
        if inline is False:
            # default: inline only private helpers that did not exist on the reference tree (asa/reference_helpers.json):
            # a helper the rules have never seen is taken to be the product of an extract-function refactoring
            known = set(_reference_helpers().get(rel, []))
            fresh = {q.split(".")[-1] for q, _ in self.repo.functions(rel)
                     if q.split(".")[-1].startswith("_") and not q.split(".")[-1].startswith("__") and q not in known}
            # ... and nested functions of the anchored function that the reference tree does not have
            known_nested = set(_reference_helpers().get("__nested__", {}).get(rel, []))
            fresh |= {q.split(".")[-1] for q, _ in self.repo.functions(rel)
                      if q.startswith(qual + ".") and "." not in q[len(qual) + 1:] and q not in known_nested}
            if not fresh:
                return func
            inline = fresh
        key = (rel, qual, True if inline is True else tuple(sorted(inline)))
        cache = self.__dict__.setdefault("_inline_cache", {})
        if key not in cache:
            from .inline import inline_function
            known_nested_all = set(_reference_helpers().get("__nested__", {}).get(rel, []))
            fresh_nested = {q.split(".")[-1] for q, _ in self.repo.functions(rel)
                            if q.startswith(qual + ".") and "." not in q[len(qual) + 1:] and q not in known_nested_all}
            new, names = inline_function(self.repo, rel, qual, func, only=None if inline is True else set(inline),
                                         fresh_nested=fresh_nested)
            for name in names:
                self.functions.add(f"{rel}::{name}")
            cache[key] = new if names else func
        return cache[key]

    def ob(self, rule: str, rel: str, node: Any, function: str, thing: str, ok: Optional[bool],
           what: str, detail: str = "", form: str = "", vacuous: bool = False) -> bool:
        line = node if isinstance(node, int) else getattr(node, "lineno", 0)
        status = "cannot" if ok is None else ("holds" if ok else "violated")
        construct = f"{rel}::{function}::{thing}"
        self.obs.append(Ob(rule, rel, line, function, construct, what, status, detail, form, vacuous))
        if function:
            self.functions.add(f"{rel}::{function}")
        return bool(ok)

    def cannot(self, rule: str, rel: str, node: Any, function: str, thing: str, why: str) -> None:
        self.ob(rule, rel, node, function, thing, None, why)

    def count(self, rule: str) -> int:
        return sum(1 for ob in self.obs if ob.rule == rule)

    @staticmethod
    def minimum(floor: int) -> int:
        """ instances required on the tree under analysis: the hand-confirmed count less a quarter (at least one)
            so that a refactoring which merges or removes a few sites is not reported as an analysis failure,
            while a rule that lost most of its anchors still fails closed """
        return floor if floor < 3 else floor - max(1, floor // 4)

    def finish(self) -> None:
        for rule, floor in self.floors.items():
            have = self.count(rule)
            if have < self.minimum(floor):
                raise AnalysisError(f"rule {rule} matched {have} instance(s), fewer than the minimum {self.minimum(floor)} "
                                    f"({floor} confirmed by hand on the reference tree): the rule would pass vacuously")
        cannot = [ob for ob in self.obs if ob.status == "cannot"]
        if cannot:
            first = cannot[0]
            raise AnalysisError(f"{first.file}:{first.line} {first.function} {first.rule}: cannot analyse: "
                                f"{first.what} {first.detail}".strip())


_REFERENCE_HELPERS: Optional[Dict[str, List[str]]] = None


def _reference_helpers() -> Dict[str, List[str]]:
    global _REFERENCE_HELPERS  # pylint: disable=global-statement
    if _REFERENCE_HELPERS is None:
        path = os.path.join(VERIF, "asa", "reference_helpers.json")
        try:
            with open(path, encoding="utf-8") as handle:
                _REFERENCE_HELPERS = json.load(handle)
        except (OSError, ValueError):
            _REFERENCE_HELPERS = {}
    return _REFERENCE_HELPERS


def load_known(path: Optional[str] = None) -> List[Dict[str, Any]]:
    path = path or os.path.join(VERIF, "known_findings.json")
    if not os.path.exists(path):
        return []
    with open(path, encoding="utf-8") as handle:
        data = json.load(handle)
    return data.get("findings", [])


def verdict(ctx: Ctx, known: List[Dict[str, Any]]):
    """ split violated obligations into (new violations, known findings) """
    suppress = {(k["property"], k["rule"], k["construct"]): k for k in known
                if k.get("status") == "known"}
    new, listed = [], []
    for ob in ctx.obs:
        if ob.status != "violated":
            continue
        key = (ctx.prop, ob.rule, ob.construct)
        # a listed finding may pin the analysed form of the construct: a different way of failing at the same place is new
        if key in suppress and suppress[key].get("form") in (None, ob.form):
            listed.append((ob, suppress[key]))
        else:
            new.append(ob)
    return new, listed


def write_evidence(ctx: Ctx, new: List[Ob], listed, wall: float, seed: int, cmd: str,
                   explanation: str, trusted: List[str], extra: Optional[Dict[str, Any]] = None) -> str:
    os.makedirs(os.path.join(VERIF, "evidence"), exist_ok=True)
    path = os.path.join(VERIF, "evidence", f"{ctx.prop}.json")
    per_rule: Dict[str, Dict[str, int]] = {}
    for ob in ctx.obs:
        slot = per_rule.setdefault(ob.rule, {"instances": 0, "holds": 0, "violated": 0})
        slot["instances"] += 1
        slot["holds" if ob.status == "holds" else "violated"] += 1
    samples = []
    seen_rules: Dict[str, int] = {}
    for ob in ctx.obs:
        if seen_rules.get(ob.rule, 0) >= 3:
            continue
        seen_rules[ob.rule] = seen_rules.get(ob.rule, 0) + 1
        samples.append({"rule": ob.rule, "file": ob.file, "line": ob.line, "function": ob.function,
                        "what": ob.what, "status": ob.status, "form": ob.form[:300]})
    distinct = len({(ob.rule, ob.construct, ob.what) for ob in ctx.obs if not ob.vacuous})
    known_unlisted = len(listed)
    discharged = sum(1 for ob in ctx.obs if ob.status == "holds")
    coverage: Dict[str, Any] = {
        "explanation": explanation,
        "obligations": len(ctx.obs),
        "discharged": discharged,
        "evaluations": len(ctx.obs),
        "distinct_nontrivial": distinct,
        "rule": "one evaluation = one rule instance (a site in the current source matched by a rule "
                "template and decided); non-trivial = the rule's pattern matched a concrete site and "
                "a verdict was computed from its extracted form; distinct by (rule, construct, obligation)",
        "samples": samples,
        "rules": {rule: {"statement": ctx.rules_text.get(rule, ""), **per_rule.get(rule, {"instances": 0})}
                  for rule in sorted(set(ctx.rules_text) | set(per_rule))},
        "functions_analysed": sorted(ctx.functions),
        "n_functions_analysed": len(ctx.functions),
        "modules_consulted": sorted(ctx.repo.consulted),
        "call_sites": ctx.call_sites,
        "undecided_clauses": ctx.undecided,
        "known_findings": [{"rule": ob.rule, "construct": ob.construct, "what": k.get("what", "")}
                           for ob, k in listed],
        "known_findings_count": known_unlisted,
        "source_digest": ctx.repo.digest(sorted(ctx.repo.consulted)),
        "checker_cmd": cmd,
        "trusted_base": trusted,
        "notes": ctx.notes,
    }
    if extra:
        coverage.update(extra)
    evidence = {
        "property_id": ctx.prop,
        "tier": ctx.tier,
        "seed": seed,
        "level": "other",
        "coverage": coverage,
        "assumptions": trusted,
        "wall_s": round(wall, 3),
        "violations": len(new),
    }
    with open(path, "w", encoding="utf-8") as handle:
        json.dump(evidence, handle, indent=1, sort_keys=False)
        handle.write("\n")
    return path


def write_replay(prop: str, index: int, ob: Ob, repo_root: str) -> str:
    directory = os.path.join(VERIF, "evidence", "replay")
    os.makedirs(directory, exist_ok=True)
    path = os.path.join(directory, f"{prop}-{index}.json")
    record = asdict(ob)
    record["property"] = prop
    record["replay_cmd"] = f"./check {prop} --only {ob.rule} --repo {repo_root}"
    record["written"] = time.strftime("%Y-%m-%dT%H:%M:%S")
    with open(path, "w", encoding="utf-8") as handle:
        json.dump(record, handle, indent=1)
        handle.write("\n")
    return path
