""" Load-time normalisation of two spellings that carry no behaviour, so that rules written on statements see one form:

    * a statement whose whole value is a conditional expression
          x = A if T else B        return A if T else B        x += A if T else B
      becomes the if/else statement with the same effect (T is evaluated first in both);
    * an assignment expression that is the first thing an `if` test evaluates
          if (x := f()) is not None:            if not (x := f()):
      becomes `x = f()` followed by the test on `x`.

    * a `while` loop that steps an index over a list (`i = a` / `while i < len(X): ...; i += 1`) becomes the `for` over
      `range(a, len(X))`, and a `for` over `chain.from_iterable(E for v in S)` becomes the nested loops it abbreviates.

    Only positions where the rewrite is exact are touched: `while` tests (re-evaluated per iteration), operands
    after the first of and/or (conditionally evaluated), comprehensions and lambdas are left alone.  New nodes take
    the location of the statement they come from, so reports keep pointing at the original line. """

from __future__ import annotations

import ast
import copy
from typing import List, Optional


def _ifexp_stmt(stmt: ast.stmt) -> Optional[ast.If]:
    value = getattr(stmt, "value", None)
    if not isinstance(value, ast.IfExp):
        return None
    if not isinstance(stmt, (ast.Assign, ast.AnnAssign, ast.AugAssign, ast.Return)):
        return None
    if isinstance(stmt, ast.Assign) and any(not isinstance(t, ast.Name) for t in stmt.targets):
        # the target of a subscript / attribute store is evaluated after the value either way, but keep to the
        # plain case where nothing else is evaluated at all
        simple = all(isinstance(t, (ast.Name, ast.Attribute, ast.Subscript)) for t in stmt.targets)
        if not simple:
            return None

    def arm(expr: ast.expr) -> ast.stmt:
        new = copy.copy(stmt)
        new.value = expr  # type: ignore[attr-defined]
        if isinstance(new, (ast.Assign,)):
            new.targets = [copy.deepcopy(t) for t in stmt.targets]  # type: ignore[attr-defined]
        elif isinstance(new, (ast.AnnAssign, ast.AugAssign)):
            new.target = copy.deepcopy(stmt.target)  # type: ignore[attr-defined]
        return ast.copy_location(new, expr)
    node = ast.If(test=value.test, body=[arm(value.body)], orelse=[arm(value.orelse)])
    return ast.copy_location(node, stmt)


def _first_walrus(test: ast.expr) -> Optional[ast.NamedExpr]:
    """ the assignment expression evaluated first and unconditionally by the test, if any """
    if isinstance(test, ast.NamedExpr):
        return test
    if isinstance(test, ast.UnaryOp) and isinstance(test.op, ast.Not):
        return _first_walrus(test.operand)
    if isinstance(test, ast.Compare):
        return _first_walrus(test.left)
    if isinstance(test, ast.BoolOp):
        return _first_walrus(test.values[0])
    if isinstance(test, ast.Call) and isinstance(test.func, ast.Name) and test.args and not test.keywords:
        return _first_walrus(test.args[0]) if len(test.args) == 1 else None
    return None


class _Replace(ast.NodeTransformer):
    def __init__(self, target: ast.NamedExpr) -> None:
        self.target = target

    def visit_NamedExpr(self, node: ast.NamedExpr) -> ast.AST:  # noqa: N802
        if node is self.target:
            return ast.copy_location(ast.Name(id=node.target.id, ctx=ast.Load()), node)
        return self.generic_visit(node)


def _walrus_if(stmt: ast.stmt) -> Optional[List[ast.stmt]]:
    if not isinstance(stmt, ast.If):
        return None
    found = _first_walrus(stmt.test)
    if found is None or not isinstance(found.target, ast.Name):
        return None
    assign = ast.copy_location(ast.Assign(targets=[ast.copy_location(ast.Name(id=found.target.id, ctx=ast.Store()), found)],
                                          value=found.value), stmt)
    stmt.test = _Replace(found).visit(stmt.test)
    return [assign, stmt]


def _tuple_split(stmt: ast.stmt) -> Optional[List[ast.stmt]]:
    """ `a, b = x, y` with plain names on the left that the right-hand side does not read is `a = x; b = y` """
    if not (isinstance(stmt, ast.Assign) and len(stmt.targets) == 1 and isinstance(stmt.targets[0], ast.Tuple)
            and isinstance(stmt.value, ast.Tuple) and len(stmt.targets[0].elts) == len(stmt.value.elts)
            and all(isinstance(t, ast.Name) for t in stmt.targets[0].elts)):
        return None
    names = {t.id for t in stmt.targets[0].elts}  # type: ignore[attr-defined]
    if len(names) != len(stmt.targets[0].elts):
        return None
    if any(isinstance(n, ast.Name) and n.id in names for v in stmt.value.elts for n in ast.walk(v)):
        return None
    if any(isinstance(n, (ast.Call, ast.NamedExpr, ast.Starred)) for v in stmt.value.elts for n in ast.walk(v)):
        return None  # keep evaluation order questions out of it
    return [ast.copy_location(ast.Assign(targets=[t], value=v), stmt) for t, v in zip(stmt.targets[0].elts, stmt.value.elts)]


def _block(stmts: List[ast.stmt]) -> List[ast.stmt]:
    out: List[ast.stmt] = []
    for stmt in stmts:
        parts = _tuple_split(stmt)
        if parts is not None:
            out.extend(parts)
            continue
        replaced = _ifexp_stmt(stmt)
        if replaced is not None:
            stmt = replaced
        pair = _walrus_if(stmt)
        items = pair if pair is not None else [stmt]
        for item in items:
            for field in ("body", "orelse", "finalbody"):
                sub = getattr(item, field, None)
                if isinstance(sub, list) and sub and isinstance(sub[0], ast.stmt):
                    setattr(item, field, _block(sub))
            for handler in getattr(item, "handlers", []) or []:
                handler.body = _block(handler.body)
            for case in getattr(item, "cases", []) or []:
                case.body = _block(case.body)
            out.append(item)
    return out


def _names(node: ast.AST, name: str) -> int:
    return sum(1 for n in ast.walk(node) if isinstance(n, ast.Name) and n.id == name)


def _while_as_for(func: ast.AST, prev: ast.stmt, loop: ast.stmt) -> Optional[ast.For]:
    """ `i = A` / `while i < N: body; i += 1` is `for i in range(A, N): body` when the body neither moves `i` nor skips
        the increment, N is a length the body does not change, and `i` is not looked at after the loop """
    if not (isinstance(loop, ast.While) and not loop.orelse and isinstance(prev, ast.Assign) and len(prev.targets) == 1
            and isinstance(prev.targets[0], ast.Name)):
        return None
    name = prev.targets[0].id
    test = loop.test
    if not (isinstance(test, ast.Compare) and len(test.ops) == 1 and isinstance(test.ops[0], ast.Lt)
            and isinstance(test.left, ast.Name) and test.left.id == name):
        return None
    stop = test.comparators[0]
    if not (isinstance(stop, ast.Call) and isinstance(stop.func, ast.Name) and stop.func.id == "len" and len(stop.args) == 1
            and not stop.keywords):
        return None
    if not loop.body:
        return None
    last = loop.body[-1]
    if not (isinstance(last, ast.AugAssign) and isinstance(last.op, ast.Add) and isinstance(last.target, ast.Name)
            and last.target.id == name and isinstance(last.value, ast.Constant) and last.value.value == 1):
        return None
    body = loop.body[:-1]
    if not body:
        return None
    seq = ast.unparse(stop.args[0])
    for stmt in body:
        for node in ast.walk(stmt):
            if isinstance(node, (ast.Continue, ast.Delete, ast.FunctionDef, ast.Lambda)):
                return None
            if isinstance(node, ast.Name) and node.id == name and not isinstance(node.ctx, ast.Load):
                return None
            if isinstance(node, ast.Call) and isinstance(node.func, ast.Attribute) and ast.unparse(node.func.value) == seq:
                return None   # a method of the sequence itself may change its length
    if _names(prev.value, name) or _names(stop, name):
        return None
    inside = _names(loop, name) + 1
    if _names(func, name) != inside:
        return None   # read again after the loop, where the two spellings leave different values
    new = ast.For(target=ast.copy_location(ast.Name(id=name, ctx=ast.Store()), prev.targets[0]),
                  iter=ast.copy_location(ast.Call(func=ast.Name(id="range", ctx=ast.Load()), args=[prev.value, stop], keywords=[]),
                                         loop.test),
                  body=body, orelse=[])
    return ast.copy_location(new, loop)


def _chain_as_nested(func: ast.AST, loop: ast.stmt) -> Optional[ast.For]:
    """ `for x in chain.from_iterable(E for v in S): body` is `for v in S: for x in E: body` (no break, no else) """
    if not (isinstance(loop, ast.For) and not loop.orelse and isinstance(loop.iter, ast.Call) and len(loop.iter.args) == 1
            and not loop.iter.keywords and ast.unparse(loop.iter.func) in ("itertools.chain.from_iterable", "chain.from_iterable")):
        return None
    gen = loop.iter.args[0]
    if not (isinstance(gen, (ast.GeneratorExp, ast.ListComp)) and len(gen.generators) == 1 and not gen.generators[0].is_async
            and isinstance(gen.generators[0].target, ast.Name)):
        return None
    comp = gen.generators[0]
    if any(isinstance(n, (ast.Break, ast.NamedExpr)) for st in loop.body for n in ast.walk(st)):
        return None
    if _names(func, comp.target.id) != _names(gen, comp.target.id):
        return None   # the generator's variable would collide with a local
    inner: ast.stmt = ast.copy_location(ast.For(target=loop.target, iter=gen.elt, body=loop.body, orelse=[]), loop)
    for test in reversed(comp.ifs):
        inner = ast.copy_location(ast.If(test=test, body=[inner], orelse=[]), loop)
    outer = ast.For(target=comp.target, iter=comp.iter, body=[inner], orelse=[])
    return ast.copy_location(outer, loop)


def _loops(func: ast.AST, stmts: List[ast.stmt]) -> List[ast.stmt]:
    out: List[ast.stmt] = []
    for stmt in stmts:
        if isinstance(stmt, (ast.FunctionDef, ast.AsyncFunctionDef)):
            stmt.body = _loops(stmt, stmt.body)
            out.append(stmt)
            continue
        if isinstance(stmt, ast.ClassDef):
            stmt.body = _loops(stmt, stmt.body)
            out.append(stmt)
            continue
        if out:
            merged = _while_as_for(func, out[-1], stmt)
            if merged is not None:
                out.pop()
                stmt = merged
        nested = _chain_as_nested(func, stmt)
        if nested is not None:
            stmt = nested
        for field in ("body", "orelse", "finalbody"):
            sub = getattr(stmt, field, None)
            if isinstance(sub, list) and sub and isinstance(sub[0], ast.stmt):
                setattr(stmt, field, _loops(func, sub))
        for handler in getattr(stmt, "handlers", []) or []:
            handler.body = _loops(func, handler.body)
        out.append(stmt)
    return out


def desugar(tree: ast.Module) -> ast.Module:
    tree.body = _loops(tree, _block(tree.body))
    ast.fix_missing_locations(tree)
    return tree


def _bool_join(stmt: ast.stmt) -> Optional[ast.stmt]:
    """ `if T: v = True else: v = E` (what inlining a predicate with an early `return True` leaves behind) is
        `v = T or E`; likewise for the three other placements of a boolean constant """
    if not (isinstance(stmt, ast.If) and len(stmt.body) == 1 and len(stmt.orelse) == 1):
        return None
    a, b = stmt.body[0], stmt.orelse[0]
    if not all(isinstance(x, ast.Assign) and len(x.targets) == 1 and isinstance(x.targets[0], ast.Name) for x in (a, b)):
        return None
    if a.targets[0].id != b.targets[0].id:  # type: ignore[attr-defined]
        return None

    def const(x: ast.stmt):
        v = x.value  # type: ignore[attr-defined]
        return v.value if isinstance(v, ast.Constant) and isinstance(v.value, bool) else None
    ca, cb = const(a), const(b)
    neg = ast.UnaryOp(op=ast.Not(), operand=stmt.test)
    if ca is True and cb is None:
        value: ast.expr = ast.BoolOp(op=ast.Or(), values=[stmt.test, b.value])  # type: ignore[attr-defined]
    elif ca is False and cb is None:
        value = ast.BoolOp(op=ast.And(), values=[neg, b.value])  # type: ignore[attr-defined]
    elif cb is True and ca is None:
        value = ast.BoolOp(op=ast.Or(), values=[neg, a.value])  # type: ignore[attr-defined]
    elif cb is False and ca is None:
        value = ast.BoolOp(op=ast.And(), values=[stmt.test, a.value])  # type: ignore[attr-defined]
    else:
        return None
    new = ast.Assign(targets=[a.targets[0]], value=value)  # type: ignore[attr-defined]
    return ast.fix_missing_locations(ast.copy_location(new, stmt))


def _join_block(stmts: List[ast.stmt]) -> List[ast.stmt]:
    out: List[ast.stmt] = []
    for stmt in stmts:
        for field in ("body", "orelse", "finalbody"):
            sub = getattr(stmt, field, None)
            if isinstance(sub, list) and sub and isinstance(sub[0], ast.stmt):
                setattr(stmt, field, _join_block(sub))
        for handler in getattr(stmt, "handlers", []) or []:
            handler.body = _join_block(handler.body)
        joined = _bool_join(stmt)
        out.append(joined if joined is not None else stmt)
    return out


def desugar_function(func: ast.AST) -> ast.AST:
    """ the same normalisation for a function produced by the inliner, plus the boolean joins inlining leaves behind """
    func.body = _join_block(_block(func.body))  # type: ignore[attr-defined]
    ast.fix_missing_locations(func)
    return func
