""" One view of the loop spellings the repository (and its refactorings) use to walk a list from a position on:

        for e in X[a:]                       for e in X
        for i in range(a, len(X))            for i in range(len(X))
        for i, e in enumerate(X[a:], s)      for i, e in enumerate(X)       (start given positionally or by keyword)

    `view(func, iter, target, body)` answers: which sequence, from which position, what names the element and what
    the position (index name and the affine offset between them: index == position + offset).  Plain aliases of an
    attribute (`existing = self._regions`) are read through.  Anything else gives None. """

from __future__ import annotations

import ast
from typing import Dict, List, Optional

from .astutil import call_name, kwarg, txt, walk_local
from .flow import bound_from
from .kernel import Affine, OutsideFragment, affine


def resolve_alias(func: ast.AST, expr: ast.AST, depth: int = 0) -> ast.AST:
    """ a name bound exactly once in func to an attribute chain / another name is that object """
    if isinstance(expr, ast.Name) and depth < 4:
        values = bound_from(func, expr.id)
        if len(values) == 1 and isinstance(values[0], (ast.Attribute, ast.Name)) and values[0] is not expr:
            return resolve_alias(func, values[0], depth + 1)
        if len(values) == 1 and isinstance(values[0], ast.Subscript) and isinstance(values[0].slice, ast.Slice):
            return values[0]   # a named slice of a list (`shifted = self._regions[index:]`)
    return expr


class LoopView:
    def __init__(self) -> None:
        self.seq = ""                       # text of the sequence walked
        self.lower: Affine = Affine()       # first position visited
        self.lower_text = "0"
        self.to_end = True
        self.elem: Optional[str] = None     # name bound to the element
        self.index: Optional[str] = None    # name bound to a number that moves with the position
        self.offset: Affine = Affine()      # index == position + offset

    def is_element(self, expr: ast.AST, func: ast.AST) -> bool:
        """ does expr denote the element at the current position? """
        if isinstance(expr, ast.Name) and self.elem is not None and expr.id == self.elem:
            return True
        if isinstance(expr, ast.Subscript) and self.index is not None \
                and txt(resolve_alias(func, expr.value)) == self.seq and not isinstance(expr.slice, ast.Slice):
            try:
                want = Affine({self.index: 1}) - self.offset
                return affine(expr.slice) == want
            except OutsideFragment:
                return False
        return False

    def position_plus(self, expr: ast.AST, k: int) -> bool:
        """ does expr equal (current position + k)? """
        if self.index is None:
            return False
        try:
            return affine(expr) == Affine({self.index: 1}) - self.offset + Affine(const=k)
        except OutsideFragment:
            return False


def _sliced(func: ast.AST, expr: ast.AST, out: LoopView) -> bool:
    """ X or X[a:] """
    expr = resolve_alias(func, expr)
    if isinstance(expr, ast.Subscript) and isinstance(expr.slice, ast.Slice):
        if expr.slice.step is not None or expr.slice.upper is not None:
            return False
        out.seq = txt(resolve_alias(func, expr.value))
        if expr.slice.lower is not None:
            try:
                out.lower = affine(expr.slice.lower)
            except OutsideFragment:
                return False
            out.lower_text = txt(expr.slice.lower)
        return True
    if isinstance(expr, (ast.Attribute, ast.Name)):
        out.seq = txt(expr)
        return True
    return False


def view(func: ast.AST, iterable: ast.AST, target: ast.AST, body: Optional[List[ast.stmt]] = None) -> Optional[LoopView]:
    out = LoopView()
    it = resolve_alias(func, iterable)
    if isinstance(it, ast.Call) and call_name(it) == "range" and isinstance(target, ast.Name) and not it.keywords:
        args = it.args
        if len(args) == 1:
            stop, start = args[0], None
        elif len(args) == 2:
            start, stop = args
        else:
            return None
        if isinstance(stop, ast.Name):   # a hoisted `total = len(X)`
            values = bound_from(func, stop.id)
            if len(values) == 1:
                stop = values[0]
        if not (isinstance(stop, ast.Call) and call_name(stop) == "len" and len(stop.args) == 1):
            return None
        out.seq = txt(resolve_alias(func, stop.args[0]))
        if start is not None:
            try:
                out.lower = affine(start)
            except OutsideFragment:
                return None
            out.lower_text = txt(start)
        out.index = target.id
        # an element name bound at the top of the body
        for stmt in body or []:
            if isinstance(stmt, ast.Assign) and len(stmt.targets) == 1 and isinstance(stmt.targets[0], ast.Name) \
                    and out.is_element(stmt.value, func):
                out.elem = stmt.targets[0].id
                break
        return out
    if isinstance(it, ast.Call) and call_name(it) == "enumerate" and it.args and isinstance(target, ast.Tuple) \
            and len(target.elts) == 2 and all(isinstance(e, ast.Name) for e in target.elts):
        if not _sliced(func, it.args[0], out):
            return None
        start = it.args[1] if len(it.args) > 1 else kwarg(it, "start")
        try:
            first = affine(start) if start is not None else Affine()
        except OutsideFragment:
            return None
        out.index, out.elem = target.elts[0].id, target.elts[1].id  # type: ignore[attr-defined]
        out.offset = first - out.lower
        return out
    if isinstance(it, ast.Call) and call_name(it) == "zip" and len(it.args) == 2 and not it.keywords \
            and isinstance(target, ast.Tuple) and len(target.elts) == 2 and all(isinstance(e, ast.Name) for e in target.elts):
        # zip(range(a, len(X) + k), X[c:]) in either order: numbers a, a+1, ... next to the elements from position c on
        pairs = list(zip(it.args, target.elts))
        counted = [(a, t) for a, t in pairs if isinstance(resolve_alias(func, a), ast.Call) and call_name(resolve_alias(func, a)) == "range"]
        walked = [(a, t) for a, t in pairs if (a, t) not in counted]
        if len(counted) != 1 or len(walked) != 1 or not _sliced(func, walked[0][0], out):
            return None
        rng = resolve_alias(func, counted[0][0])
        if rng.keywords or len(rng.args) != 2:
            return None
        try:
            first = affine(rng.args[0])
        except OutsideFragment:
            return None
        out.index, out.elem = counted[0][1].id, walked[0][1].id  # type: ignore[attr-defined]
        out.offset = first - out.lower
        # the count has to last to the end of the list: stop == len(X) + (first - lower)
        stop = rng.args[1]
        extra = Affine()
        if isinstance(stop, ast.BinOp) and isinstance(stop.op, (ast.Add, ast.Sub)):
            try:
                extra = affine(stop.right) if isinstance(stop.op, ast.Add) else Affine() - affine(stop.right)
            except OutsideFragment:
                return None
            stop = stop.left
        if not (isinstance(stop, ast.Call) and call_name(stop) == "len" and len(stop.args) == 1
                and txt(resolve_alias(func, stop.args[0])) == out.seq):
            return None
        if not extra == out.offset:
            out.to_end = False
        return out
    if isinstance(target, ast.Name) and _sliced(func, it, out):
        out.elem = target.id
        return out
    return None


def loops_over(func: ast.AST, seq: str):
    """ (node, view, body statements or None, key/value for comprehensions) for every for-loop and dict comprehension
        generator in func that walks `seq` """
    for node in walk_local(func):
        if isinstance(node, ast.For):
            v = view(func, node.iter, node.target, node.body)
            if v is not None and v.seq == seq:
                yield node, v
        elif isinstance(node, ast.DictComp) and len(node.generators) == 1 and not node.generators[0].ifs:
            gen = node.generators[0]
            v = view(func, gen.iter, gen.target, None)
            if v is not None and v.seq == seq:
                yield node, v


def iteration_sources(func: ast.AST, cfg, loop: ast.For, depth: int = 4):
    """ the expressions whose elements the loop visits, looking through locals bound once and through filtering
        comprehensions ([x for x in S if ...] offers the elements of S); returns (expressions, filters) where filters are
        the (target name, condition) pairs of the comprehensions passed on the way """
    from .flow import inline_reaching
    todo = [inline_reaching(cfg, loop, loop.iter)]
    seen: List[ast.AST] = []
    filters = []
    steps = 0
    while todo and steps < 16:
        steps += 1
        cur = todo.pop()
        seen.append(cur)
        if isinstance(cur, ast.Name):
            todo += [v for v in bound_from(func, cur.id) if all(v is not s for s in seen)][:depth]
        elif isinstance(cur, (ast.ListComp, ast.GeneratorExp)) and len(cur.generators) == 1 \
                and txt(cur.elt) == txt(cur.generators[0].target):
            gen = cur.generators[0]
            filters += [(txt(gen.target), cond) for cond in gen.ifs]
            todo.append(gen.iter)
        elif isinstance(cur, ast.Call) and call_name(cur) in ("list", "tuple") and len(cur.args) == 1:
            todo.append(cur.args[0])
    return seen, filters


def is_area_lookup(func: ast.AST, cfg, expr: ast.AST, area: str) -> bool:
    """ expr is self.get_cds_features_within_location(<area>.location) with the default (contained only) mode """
    from .flow import inline_reaching
    expr = inline_reaching(cfg, expr, expr) if hasattr(expr, "_parent") else expr
    return isinstance(expr, ast.Call) and txt(expr.func) == "self.get_cds_features_within_location" and len(expr.args) == 1 \
        and not expr.keywords and txt(resolve_alias(func, expr.args[0])) == f"{area}.location"
