""" A small ownership analysis for one function: which containers may be written without the write being visible
    through a parameter.

    Levels: DEEP (a private copy all the way down: deepcopy of anything, a fresh literal, a copy of something DEEP),
    SHALLOW (the container itself is private, what it holds is shared: dict(x), x.copy(), list(x), {**x}, x[:]),
    SHARED (reachable from a parameter or unknown).  An element of a SHALLOW container is SHARED unless a store of a
    private value under the same key dominates the read. """

from __future__ import annotations

import ast
from typing import List, Optional, Tuple

from .astutil import call_name, last_attr, txt, walk_local
from .cfg import CFG

DEEP, SHALLOW, SHARED = 2, 1, 0
NAMES = {DEEP: "private at every level", SHALLOW: "private container holding shared values", SHARED: "shared with the caller"}
MUTATORS = {"setdefault", "update", "pop", "popitem", "clear", "append", "extend", "insert", "remove", "sort", "reverse", "add", "discard"}


class Ownership:
    def __init__(self, func: ast.AST) -> None:
        self.func = func
        self.cfg = CFG(func)
        self.params = {a.arg for a in func.args.args + func.args.kwonlyargs}  # type: ignore[attr-defined]

    def _stmt(self, node: ast.AST) -> Optional[ast.AST]:
        cur: Optional[ast.AST] = node
        while cur is not None and not isinstance(cur, ast.stmt):
            cur = getattr(cur, "_parent", None)
        return cur

    def level(self, expr: ast.AST, at: ast.AST, depth: int = 0) -> int:
        """ ownership of the object `expr` evaluates to at statement `at` """
        if depth > 8:
            return SHARED
        if isinstance(expr, (ast.Dict, ast.List, ast.Set, ast.ListComp, ast.DictComp, ast.SetComp, ast.Constant, ast.JoinedStr)):
            if isinstance(expr, ast.Dict) and any(k is None for k in expr.keys):  # {**x}
                levels = [self.level(v, at, depth + 1) for k, v in zip(expr.keys, expr.values) if k is None]
                return DEEP if all(lv == DEEP for lv in levels) else SHALLOW
            return DEEP
        if isinstance(expr, ast.Call):
            name = call_name(expr)
            if name in ("deepcopy", "copy.deepcopy"):
                return DEEP
            if name in ("dict", "list", "set", "OrderedDict", "defaultdict", "copy.copy", "copy", "sorted", "tuple") \
                    or last_attr(expr) == "copy" and isinstance(expr.func, ast.Attribute):
                args = list(expr.args) + [k.value for k in expr.keywords if k.arg is None]
                if last_attr(expr) == "copy" and isinstance(expr.func, ast.Attribute) and name not in ("copy.copy",):
                    args = [expr.func.value]
                if not args:
                    return DEEP
                return DEEP if all(self.level(a, at, depth + 1) == DEEP for a in args) else SHALLOW
            if isinstance(expr.func, ast.Attribute) and expr.func.attr in ("get", "setdefault") and expr.args:
                base = self.level(expr.func.value, at, depth + 1)
                if base == DEEP:
                    return DEEP if len(expr.args) < 2 or self.level(expr.args[1], at, depth + 1) == DEEP else SHALLOW
                if base == SHALLOW:
                    return self._element(expr.func.value, expr.args[0], at, depth)
                return SHARED
            if name == "str" or name == "int" or name == "float":
                return DEEP
            return SHARED
        if isinstance(expr, ast.Subscript):
            if isinstance(expr.slice, ast.Slice):
                return DEEP if self.level(expr.value, at, depth + 1) == DEEP else SHALLOW
            base = self.level(expr.value, at, depth + 1)
            if base == DEEP:
                return DEEP
            if base == SHALLOW:
                return self._element(expr.value, expr.slice, at, depth)
            return SHARED
        if isinstance(expr, ast.Name):
            if expr.id in self.params and self.cfg.reaching_defs(expr.id, self.cfg.n(at)) == {-1}:
                return SHARED
            try:
                defs = self.cfg.reaching_defs(expr.id, self.cfg.n(at))
            except KeyError:
                return SHARED
            levels = []
            for d in defs:
                if d < 0:
                    return SHARED
                node = self.cfg.nodes[d].ast
                value = None
                if isinstance(node, ast.Assign) and len(node.targets) == 1 and isinstance(node.targets[0], ast.Name):
                    value = node.value
                elif isinstance(node, ast.AnnAssign) and node.value is not None:
                    value = node.value
                if value is None:
                    return SHARED
                levels.append(self.level(value, node, depth + 1))
            return min(levels) if levels else SHARED
        if isinstance(expr, ast.Attribute):
            return SHARED
        return SHARED

    def _element(self, base: ast.AST, key: ast.AST, at: ast.AST, depth: int) -> int:
        """ element `base[key]` of a SHALLOW container: private only if a store of a private value under that key
            dominates the read and no other store of the key lies between """
        here = self.cfg.n(at)
        best = SHARED
        for node in walk_local(self.func):
            if isinstance(node, ast.Assign) and len(node.targets) == 1 and isinstance(node.targets[0], ast.Subscript) \
                    and txt(node.targets[0].value) == txt(base) and txt(node.targets[0].slice) == txt(key):
                sid = self.cfg.n(node)
                if sid != here and self.cfg.dominates(sid, here):
                    best = max(best, self.level(node.value, node, depth + 1))
        return best

    def writes(self) -> List[Tuple[ast.AST, ast.AST, str]]:
        """ (site, written container expression, kind) for every in-place write made by the function """
        out: List[Tuple[ast.AST, ast.AST, str]] = []
        for node in walk_local(self.func):
            if isinstance(node, (ast.Assign, ast.AugAssign)):
                targets = node.targets if isinstance(node, ast.Assign) else [node.target]
                for target in targets:
                    if isinstance(target, ast.Subscript):
                        out.append((node, target.value, f"store {txt(target)[:50]}"))
            elif isinstance(node, ast.Delete):
                for target in node.targets:
                    if isinstance(target, ast.Subscript):
                        out.append((node, target.value, f"del {txt(target)[:50]}"))
            elif isinstance(node, ast.Call) and isinstance(node.func, ast.Attribute) and node.func.attr in MUTATORS:
                out.append((node, node.func.value, f"{txt(node)[:60]}"))
        return out
