""" Intra-procedural data-flow helpers: mutation detection, backward slices,
    per-iteration independence of a loop (the loop-carried definition rule),
    and simple provenance (what expression a name was bound from).
"""

from __future__ import annotations

import ast
from dataclasses import dataclass
from typing import Dict, List, Optional, Set, Tuple

from .astutil import txt, walk_local
from .cfg import CFG
from .index import dotted

MUTATORS = {"add", "update", "append", "extend", "insert", "pop", "remove", "discard", "clear",
            "setdefault", "sort", "reverse", "popitem", "difference_update", "intersection_update",
            "symmetric_difference_update", "appendleft", "popleft"}


def base_name(node: ast.AST) -> Optional[str]:
    """ the root Name of a subscript/attribute chain """
    while isinstance(node, (ast.Subscript, ast.Attribute, ast.Call)):
        if isinstance(node, ast.Call):
            node = node.func
        else:
            node = node.value
    if isinstance(node, ast.Name):
        return node.id
    return None


def mutated_names(stmt: ast.AST) -> Set[str]:
    """ names whose *object* is mutated by the expressions evaluated at a node
        (subscript / attribute stores, mutator method calls) """
    result: Set[str] = set()
    exprs: List[ast.AST] = []
    if isinstance(stmt, (ast.If, ast.While)):
        exprs = [stmt.test]
    elif isinstance(stmt, (ast.For, ast.AsyncFor)):
        exprs = [stmt.iter]
    elif isinstance(stmt, (ast.With, ast.AsyncWith)):
        exprs = [item.context_expr for item in stmt.items]
    elif isinstance(stmt, (ast.FunctionDef, ast.AsyncFunctionDef, ast.ClassDef, ast.ExceptHandler)):
        exprs = []
    else:
        exprs = [stmt]
    for expr in exprs:
        for cur in [expr] + list(walk_local(expr)):
            if isinstance(cur, (ast.Subscript, ast.Attribute)) and isinstance(cur.ctx, (ast.Store, ast.Del)):
                name = base_name(cur.value)
                if name:
                    result.add(name)
            elif isinstance(cur, ast.Call) and isinstance(cur.func, ast.Attribute) and cur.func.attr in MUTATORS:
                name = base_name(cur.func.value)
                if name:
                    result.add(name)
    return result


@dataclass
class Problem:
    name: str
    node: ast.AST
    loop: ast.AST
    kind: str        # 'loop-carried' | 'mutated-state' | 'cache-key'
    detail: str


def _loop_var_names(loop: ast.AST) -> Set[str]:
    if isinstance(loop, (ast.For, ast.AsyncFor)):
        return {n.id for n in ast.walk(loop.target) if isinstance(n, ast.Name)}
    return set()


def keyed_cache(cfg: CFG, loop: ast.AST, name: str) -> Tuple[bool, str]:
    """ is `name`, inside `loop`, used only as a cache keyed by one expression:
        stores `name[K] = v` only under a test `K not in name`, loads `name[K]`
        only with the same K, and the loop variable appears in the guarded
        (miss) branch only inside K?  Returns (ok, reason/K). """
    loopvars = _loop_var_names(loop)
    key_text: Optional[str] = None
    body_nodes = [cur for stmt in loop.body for cur in [stmt] + list(walk_local(stmt))]
    stores, loads, tests = [], [], []
    for cur in body_nodes:
        if isinstance(cur, ast.Subscript) and isinstance(cur.value, ast.Name) and cur.value.id == name:
            (stores if isinstance(cur.ctx, ast.Store) else loads).append(cur)
        elif isinstance(cur, ast.Compare) and len(cur.ops) == 1 and isinstance(cur.ops[0], (ast.NotIn, ast.In)) \
                and isinstance(cur.comparators[0], ast.Name) and cur.comparators[0].id == name:
            tests.append(cur)
        elif isinstance(cur, ast.Name) and cur.id == name:
            par = getattr(cur, "_parent", None)
            ok_parent = (isinstance(par, ast.Subscript) and par.value is cur) or \
                        (isinstance(par, ast.Compare) and cur in par.comparators)
            if not ok_parent:
                return False, f"'{name}' is used other than as {name}[key] / key in {name}: {txt(par)[:80]}"
    if not stores or not tests:
        return False, f"'{name}' has no guarded store of the form `if K not in {name}: {name}[K] = ...`"
    keys = {txt(s.slice) for s in stores} | {txt(ld.slice) for ld in loads} | {txt(t.left) for t in tests}
    if len(keys) != 1:
        return False, f"'{name}' is stored/loaded/tested under different key expressions: {sorted(keys)}"
    key_text = keys.pop()
    # each store must sit in the miss-arm of a test on the same key
    for store in stores:
        guarded = None
        child: ast.AST = store
        cur = getattr(store, "_parent", None)
        while cur is not None and cur is not loop:
            if isinstance(cur, ast.If) and any(t is cur.test or any(t is n for n in ast.walk(cur.test)) for t in tests):
                test = next(t for t in tests if any(t is n for n in ast.walk(cur.test)))
                in_body = any(child is s for s in cur.body)
                miss_arm = (isinstance(test.ops[0], ast.NotIn) and in_body) or \
                           (isinstance(test.ops[0], ast.In) and not in_body)
                if miss_arm and cur.test is test:
                    guarded = cur
                    break
            child = cur
            cur = getattr(cur, "_parent", None)
        if guarded is None:
            return False, f"store {txt(store)} is not in the miss arm of `{key_text} not in {name}`"
        arm = guarded.body if isinstance(guarded.test.ops[0], ast.NotIn) else guarded.orelse  # type: ignore[attr-defined]
        # anything that changes from one iteration to the next may appear in the miss arm only inside the key
        # expression: the loop variable and every name bound in the loop body outside the arm
        arm_nodes = {id(x) for stmt in arm for x in [stmt] + list(walk_local(stmt))}
        bound_in_arm = {n.id for stmt in arm for n in [stmt] + list(walk_local(stmt))
                        if isinstance(n, ast.Name) and isinstance(n.ctx, ast.Store)}
        bound_outside = {n.id for n in body_nodes if isinstance(n, ast.Name) and isinstance(n.ctx, ast.Store)
                         and id(n) not in arm_nodes}
        varying = (loopvars | bound_outside) - bound_in_arm - {name}
        for stmt in arm:
            for sub in [stmt] + list(walk_local(stmt)):
                if isinstance(sub, ast.Name) and isinstance(sub.ctx, ast.Load) and sub.id in varying:
                    anc: Optional[ast.AST] = sub
                    inside_key = False
                    while anc is not None and anc is not stmt and not inside_key:
                        if isinstance(anc, ast.expr) and txt(anc) == key_text:
                            inside_key = True
                        anc = getattr(anc, "_parent", None)
                    if anc is stmt and isinstance(anc, ast.expr) and txt(anc) == key_text:
                        inside_key = True
                    if not inside_key:
                        return False, (f"value cached under key `{key_text}` also depends on the loop variable "
                                       f"through `{txt(getattr(sub, '_parent', sub))}`")
    return True, key_text


def iteration_independence(cfg: CFG, eval_node: ast.AST, loops: List[ast.AST],
                           accumulators: Set[str] = frozenset()) -> Tuple[List[Problem], Dict[str, str]]:
    """ The loop-carried definition rule.

        eval_node: the expression (usually a call) evaluated once per iteration
        loops: the enclosing loops (innermost first) the evaluation must not
               carry state across.
        Every name in the backward data slice of `eval_node` that is bound inside
        a loop's body must be bound on *every* path from that loop's header to
        its use; a name whose object is only mutated (never rebound) in the body
        must be a cache keyed by a single expression.
        Returns (problems, classification of every sliced name).
    """
    problems: List[Problem] = []
    classes: Dict[str, str] = {}
    outer = loops[-1]
    outer_body = cfg.loop_body_nodes(outer)
    # --- backward slice over names: (name, use node id)
    start = cfg.n(eval_node)
    work: List[Tuple[str, int]] = []
    seen: Set[Tuple[str, int]] = set()
    from .cfg import free_loads
    for name in free_loads(eval_node):
        work.append((name, start))
    mut_nodes: Dict[str, List[int]] = {}
    for nid in outer_body:
        for name in mutated_names(cfg.nodes[nid].ast):
            mut_nodes.setdefault(name, []).append(nid)
    while work:
        name, use = work.pop()
        if (name, use) in seen:
            continue
        seen.add((name, use))
        deps = [d for d in cfg.reaching_defs(name, use) if d >= 0 and d in outer_body]
        deps += mut_nodes.get(name, [])
        for dep in deps:
            for used in cfg.uses_at(dep):
                if (used, dep) not in seen:
                    work.append((used, dep))
    # --- per loop checks
    reported: Set[Tuple[str, int]] = set()
    for loop in loops:
        head = cfg.n(loop)
        body = cfg.loop_body_nodes(loop)
        loopvars = _loop_var_names(loop)
        for name, use in sorted(seen):
            if use not in body or name in accumulators:
                continue
            if name in loopvars:
                classes.setdefault(name, "loop variable")
                continue
            body_defs = [d for d in cfg.def_nodes(name) if d in body]
            body_muts = [m for m in mut_nodes.get(name, []) if m in body]
            if not body_defs and not body_muts:
                classes.setdefault(name, "loop-invariant")
                continue
            if body_defs:
                # a path header -T-> ... -> use that stays in the body and avoids every def
                starts = [dst for dst, label in cfg.succ[head] if label == "T"]
                avoid = set(body_defs) | {head}
                reachable: Set[int] = set()
                stack = [s for s in starts if s not in avoid or s == use]
                if use in starts and use in body_defs and name not in cfg.uses_at(use):
                    stack = [s for s in stack if s != use]
                while stack:
                    cur = stack.pop()
                    if cur in reachable:
                        continue
                    reachable.add(cur)
                    if cur in avoid:
                        continue
                    for dst, _ in cfg.succ[cur]:
                        if dst in body or dst == use:
                            stack.append(dst)
                bad = use in reachable
                if bad and (name, use) not in reported:
                    reported.add((name, use))
                    path = cfg.find_path(head, use, avoid=set(body_defs))
                    problems.append(Problem(name, cfg.nodes[use].ast, loop, "loop-carried",
                                            f"'{name}' is assigned in the loop body (line(s) "
                                            f"{sorted({getattr(cfg.nodes[d].ast, 'lineno', 0) for d in body_defs})}) "
                                            f"but a path from the loop header to its use avoids every "
                                            f"assignment: {cfg.describe_path(path)}; the value of a previous "
                                            f"iteration is used"))
                    classes[name] = "LOOP-CARRIED"
                elif not bad:
                    classes.setdefault(name, "assigned in every iteration before use")
                continue
            ok, why = keyed_cache(cfg, loop, name)
            if ok:
                classes.setdefault(name, f"cache keyed by `{why}`")
            elif (name, -head) not in reported:
                reported.add((name, -head))
                problems.append(Problem(name, cfg.nodes[body_muts[0]].ast, loop, "mutated-state",
                                        f"'{name}' is mutated inside the loop, never re-created per iteration, "
                                        f"and reaches the evaluation: {why}"))
                classes[name] = "MUTATED-STATE"
    return problems, classes


def bound_from(func: ast.AST, name: str) -> List[ast.AST]:
    """ the value expressions `name` is bound from by plain assignments in func """
    result: List[ast.AST] = []
    for cur in walk_local(func):
        if isinstance(cur, ast.Assign):
            for target in cur.targets:
                if isinstance(target, ast.Name) and target.id == name:
                    result.append(cur.value)
                elif isinstance(target, (ast.Tuple, ast.List)) and isinstance(cur.value, (ast.Tuple, ast.List)) \
                        and len(target.elts) == len(cur.value.elts):
                    for tgt, val in zip(target.elts, cur.value.elts):
                        if isinstance(tgt, ast.Name) and tgt.id == name:
                            result.append(val)
        elif isinstance(cur, ast.AnnAssign) and cur.value is not None:
            if isinstance(cur.target, ast.Name) and cur.target.id == name:
                result.append(cur.value)
    return result


def provenance(func: ast.AST, expr: ast.AST, depth: int = 0) -> Set[str]:
    """ attribute paths / call names an expression may come from, following
        local single-name assignments (flow-insensitive, bounded depth) """
    result: Set[str] = set()
    if depth > 6:
        return result
    for cur in [expr] + list(walk_local(expr)):
        path = dotted(cur)
        if path is not None and (isinstance(cur, ast.Attribute) or depth == 0):
            par = getattr(cur, "_parent", None)
            if not (isinstance(par, ast.Attribute) and par.value is cur):
                result.add(path)
        if isinstance(cur, ast.Name) and isinstance(cur.ctx, ast.Load):
            for value in bound_from(func, cur.id):
                result |= provenance(func, value, depth + 1)
        if isinstance(cur, ast.Call):
            name = dotted(cur.func)
            if name:
                result.add(name + "()")
    return result
