""" Intra-procedural data-flow helpers: mutation detection, backward slices,
    per-iteration independence of a loop (the loop-carried definition rule),
    and simple provenance (what expression a name was bound from).
"""

from __future__ import annotations

import ast
from dataclasses import dataclass
from typing import Dict, List, Optional, Set, Tuple

from .astutil import txt, walk_local
from .cfg import CFG
from .index import dotted
from .astutil import clone

MUTATORS = {"add", "update", "append", "extend", "insert", "pop", "remove", "discard", "clear",
            "setdefault", "sort", "reverse", "popitem", "difference_update", "intersection_update",
            "symmetric_difference_update", "appendleft", "popleft"}


def base_name(node: ast.AST) -> Optional[str]:
    """ the root Name of a subscript/attribute chain """
    while isinstance(node, (ast.Subscript, ast.Attribute, ast.Call)):
        if isinstance(node, ast.Call):
            node = node.func
        else:
            node = node.value
    if isinstance(node, ast.Name):
        return node.id
    return None


def mutated_names(stmt: ast.AST) -> Set[str]:
    """ names whose *object* is mutated by the expressions evaluated at a node
        (subscript / attribute stores, mutator method calls) """
    result: Set[str] = set()
    exprs: List[ast.AST] = []
    if isinstance(stmt, (ast.If, ast.While)):
        exprs = [stmt.test]
    elif isinstance(stmt, (ast.For, ast.AsyncFor)):
        exprs = [stmt.iter]
    elif isinstance(stmt, (ast.With, ast.AsyncWith)):
        exprs = [item.context_expr for item in stmt.items]
    elif isinstance(stmt, (ast.FunctionDef, ast.AsyncFunctionDef, ast.ClassDef, ast.ExceptHandler)):
        exprs = []
    else:
        exprs = [stmt]
    for expr in exprs:
        for cur in [expr] + list(walk_local(expr)):
            if isinstance(cur, (ast.Subscript, ast.Attribute)) and isinstance(cur.ctx, (ast.Store, ast.Del)):
                name = base_name(cur.value)
                if name:
                    result.add(name)
            elif isinstance(cur, ast.Call) and isinstance(cur.func, ast.Attribute) and cur.func.attr in MUTATORS:
                name = base_name(cur.func.value)
                if name:
                    result.add(name)
    return result


@dataclass
class Problem:
    name: str
    node: ast.AST
    loop: ast.AST
    kind: str        # 'loop-carried' | 'mutated-state' | 'cache-key'
    detail: str


def _loop_var_names(loop: ast.AST) -> Set[str]:
    if isinstance(loop, (ast.For, ast.AsyncFor)):
        return {n.id for n in ast.walk(loop.target) if isinstance(n, ast.Name)}
    return set()


def keyed_cache(cfg: CFG, loop: ast.AST, name: str) -> Tuple[bool, str]:
    """ is `name`, inside `loop`, used only as a cache keyed by one expression:
        stores `name[K] = v` only in the miss arm of a test on the same key (`K not in name`, or `v = name.get(K)`
        followed by `v is None`), loads `name[K]` / `name.get(K)` only with the same K, and whatever changes from one
        iteration to the next appears in the miss arm only inside K?  A local bound once in the loop body to a
        call-free expression (`cutoff = rule.cutoff`) stands for that expression.  Returns (ok, reason/K). """
    loopvars = _loop_var_names(loop)
    body_nodes = [cur for stmt in loop.body for cur in [stmt] + list(walk_local(stmt))]
    # locals that merely name a call-free expression
    bound: Dict[str, List[ast.AST]] = {}
    for cur in body_nodes:
        if isinstance(cur, ast.Name) and isinstance(cur.ctx, ast.Store):
            bound.setdefault(cur.id, []).append(cur)
    alias: Dict[str, str] = {}
    for stmt in loop.body:
        if isinstance(stmt, ast.Assign) and len(stmt.targets) == 1 and isinstance(stmt.targets[0], ast.Name) \
                and len(bound.get(stmt.targets[0].id, [])) == 1 and not any(isinstance(n, ast.Call) for n in ast.walk(stmt.value)) \
                and isinstance(stmt.value, (ast.Attribute, ast.Name)):
            alias[stmt.targets[0].id] = txt(stmt.value)

    def norm(expr: ast.AST) -> str:
        if isinstance(expr, ast.Name) and expr.id in alias:
            return alias[expr.id]
        return txt(expr)

    stores, loads, tests = [], [], []   # tests: (test expr node, key text, miss arm is the body?)
    got: Dict[str, str] = {}           # local bound from name.get(K) -> K
    for cur in body_nodes:
        if isinstance(cur, ast.Subscript) and isinstance(cur.value, ast.Name) and cur.value.id == name:
            (stores if isinstance(cur.ctx, ast.Store) else loads).append((cur, norm(cur.slice)))
        elif isinstance(cur, ast.Compare) and len(cur.ops) == 1 and isinstance(cur.ops[0], (ast.NotIn, ast.In)) \
                and isinstance(cur.comparators[0], ast.Name) and cur.comparators[0].id == name:
            tests.append((cur, norm(cur.left), isinstance(cur.ops[0], ast.NotIn)))
        elif isinstance(cur, ast.Call) and isinstance(cur.func, ast.Attribute) and cur.func.attr == "get" \
                and isinstance(cur.func.value, ast.Name) and cur.func.value.id == name and cur.args \
                and (len(cur.args) == 1 or (isinstance(cur.args[1], ast.Constant) and cur.args[1].value is None)):
            loads.append((cur, norm(cur.args[0])))
            par = getattr(cur, "_parent", None)
            if isinstance(par, ast.Assign) and len(par.targets) == 1 and isinstance(par.targets[0], ast.Name):
                got[par.targets[0].id] = norm(cur.args[0])
        elif isinstance(cur, ast.Name) and cur.id == name:
            par = getattr(cur, "_parent", None)
            ok_parent = (isinstance(par, ast.Subscript) and par.value is cur) or \
                        (isinstance(par, ast.Compare) and cur in par.comparators) or \
                        (isinstance(par, ast.Attribute) and par.attr == "get" and isinstance(getattr(par, "_parent", None), ast.Call)
                         and getattr(par, "_parent").func is par)
            if not ok_parent:
                return False, f"'{name}' is used other than as {name}[key] / key in {name}: {txt(par)[:80]}"
    for cur in body_nodes:
        if isinstance(cur, ast.Compare) and len(cur.ops) == 1 and isinstance(cur.ops[0], (ast.Is, ast.IsNot)) \
                and isinstance(cur.left, ast.Name) and cur.left.id in got \
                and isinstance(cur.comparators[0], ast.Constant) and cur.comparators[0].value is None:
            tests.append((cur, got[cur.left.id], isinstance(cur.ops[0], ast.Is)))
    if not stores or not tests:
        return False, f"'{name}' has no guarded store of the form `if K not in {name}: {name}[K] = ...`"
    keys = {k for _, k in stores} | {k for _, k in loads} | {k for _, k, _ in tests}
    if len(keys) != 1:
        return False, f"'{name}' is stored/loaded/tested under different key expressions: {sorted(keys)}"
    key_text = keys.pop()
    # each store must sit in the miss-arm of a test on the same key
    for store, _ in stores:
        guarded = None
        miss_is_body = True
        child: ast.AST = store
        cur = getattr(store, "_parent", None)
        while cur is not None and cur is not loop:
            if isinstance(cur, ast.If):
                hit = [(t, body) for t, _, body in tests if cur.test is t]
                if hit:
                    in_body = any(child is s for s in cur.body)
                    if in_body == hit[0][1]:
                        guarded, miss_is_body = cur, hit[0][1]
                        break
            child = cur
            cur = getattr(cur, "_parent", None)
        if guarded is None:
            return False, f"store {txt(store)} is not in the miss arm of `{key_text} not in {name}`"
        arm = guarded.body if miss_is_body else guarded.orelse
        # anything that changes from one iteration to the next may appear in the miss arm only inside the key
        # expression: the loop variable and every name bound in the loop body outside the arm
        arm_nodes = {id(x) for stmt in arm for x in [stmt] + list(walk_local(stmt))}
        bound_in_arm = {n.id for stmt in arm for n in [stmt] + list(walk_local(stmt))
                        if isinstance(n, ast.Name) and isinstance(n.ctx, ast.Store)}
        bound_outside = {n.id for n in body_nodes if isinstance(n, ast.Name) and isinstance(n.ctx, ast.Store)
                         and id(n) not in arm_nodes}
        varying = (loopvars | bound_outside) - bound_in_arm - {name}
        for stmt in arm:
            for sub in [stmt] + list(walk_local(stmt)):
                if isinstance(sub, ast.Name) and isinstance(sub.ctx, ast.Load) and sub.id in varying:
                    if alias.get(sub.id) == key_text:
                        continue
                    anc: Optional[ast.AST] = sub
                    inside_key = False
                    while anc is not None and anc is not stmt and not inside_key:
                        if isinstance(anc, ast.expr) and txt(anc) == key_text:
                            inside_key = True
                        anc = getattr(anc, "_parent", None)
                    if anc is stmt and isinstance(anc, ast.expr) and txt(anc) == key_text:
                        inside_key = True
                    if not inside_key:
                        return False, (f"value cached under key `{key_text}` also depends on the loop variable "
                                       f"through `{txt(getattr(sub, '_parent', sub))}`")
    return True, key_text


def iteration_independence(cfg: CFG, eval_node: ast.AST, loops: List[ast.AST],
                           accumulators: Set[str] = frozenset()) -> Tuple[List[Problem], Dict[str, str]]:
    """ The loop-carried definition rule.

        eval_node: the expression (usually a call) evaluated once per iteration
        loops: the enclosing loops (innermost first) the evaluation must not
               carry state across.
        Every name in the backward data slice of `eval_node` that is bound inside
        a loop's body must be bound on *every* path from that loop's header to
        its use; a name whose object is only mutated (never rebound) in the body
        must be a cache keyed by a single expression.
        Returns (problems, classification of every sliced name).
    """
    problems: List[Problem] = []
    classes: Dict[str, str] = {}
    outer = loops[-1]
    outer_body = cfg.loop_body_nodes(outer)
    # --- backward slice over names: (name, use node id)
    start = cfg.n(eval_node)
    work: List[Tuple[str, int]] = []
    seen: Set[Tuple[str, int]] = set()
    from .cfg import free_loads
    for name in free_loads(eval_node):
        work.append((name, start))
    mut_nodes: Dict[str, List[int]] = {}
    for nid in outer_body:
        for name in mutated_names(cfg.nodes[nid].ast):
            mut_nodes.setdefault(name, []).append(nid)
    while work:
        name, use = work.pop()
        if (name, use) in seen:
            continue
        seen.add((name, use))
        deps = [d for d in cfg.reaching_defs(name, use) if d >= 0 and d in outer_body]
        deps += mut_nodes.get(name, [])
        for dep in deps:
            for used in cfg.uses_at(dep):
                if (used, dep) not in seen:
                    work.append((used, dep))
    # --- per loop checks
    reported: Set[Tuple[str, int]] = set()
    for loop in loops:
        head = cfg.n(loop)
        body = cfg.loop_body_nodes(loop)
        loopvars = _loop_var_names(loop)
        for name, use in sorted(seen):
            if use not in body or name in accumulators:
                continue
            if name in loopvars:
                classes.setdefault(name, "loop variable")
                continue
            body_defs = [d for d in cfg.def_nodes(name) if d in body]
            body_muts = [m for m in mut_nodes.get(name, []) if m in body]
            if not body_defs and not body_muts:
                classes.setdefault(name, "loop-invariant")
                continue
            if body_defs:
                # a path header -T-> ... -> use that stays in the body and avoids every def
                starts = [dst for dst, label in cfg.succ[head] if label == "T"]
                avoid = set(body_defs) | {head}
                reachable: Set[int] = set()
                stack = [s for s in starts if s not in avoid or s == use]
                if use in starts and use in body_defs and name not in cfg.uses_at(use):
                    stack = [s for s in stack if s != use]
                while stack:
                    cur = stack.pop()
                    if cur in reachable:
                        continue
                    reachable.add(cur)
                    if cur in avoid:
                        continue
                    for dst, _ in cfg.succ[cur]:
                        if dst in body or dst == use:
                            stack.append(dst)
                bad = use in reachable
                if bad and (name, use) not in reported:
                    reported.add((name, use))
                    path = cfg.find_path(head, use, avoid=set(body_defs))
                    problems.append(Problem(name, cfg.nodes[use].ast, loop, "loop-carried",
                                            f"'{name}' is assigned in the loop body (line(s) "
                                            f"{sorted({getattr(cfg.nodes[d].ast, 'lineno', 0) for d in body_defs})}) "
                                            f"but a path from the loop header to its use avoids every "
                                            f"assignment: {cfg.describe_path(path)}; the value of a previous "
                                            f"iteration is used"))
                    classes[name] = "LOOP-CARRIED"
                elif not bad:
                    classes.setdefault(name, "assigned in every iteration before use")
                continue
            ok, why = keyed_cache(cfg, loop, name)
            if ok:
                classes.setdefault(name, f"cache keyed by `{why}`")
            elif (name, -head) not in reported:
                reported.add((name, -head))
                problems.append(Problem(name, cfg.nodes[body_muts[0]].ast, loop, "mutated-state",
                                        f"'{name}' is mutated inside the loop, never re-created per iteration, "
                                        f"and reaches the evaluation: {why}"))
                classes[name] = "MUTATED-STATE"
    return problems, classes


def bound_from(func: ast.AST, name: str) -> List[ast.AST]:
    """ the value expressions `name` is bound from by plain assignments in func """
    result: List[ast.AST] = []
    for cur in walk_local(func):
        if isinstance(cur, ast.Assign):
            for target in cur.targets:
                if isinstance(target, ast.Name) and target.id == name:
                    result.append(cur.value)
                elif isinstance(target, (ast.Tuple, ast.List)) and isinstance(cur.value, (ast.Tuple, ast.List)) \
                        and len(target.elts) == len(cur.value.elts):
                    for tgt, val in zip(target.elts, cur.value.elts):
                        if isinstance(tgt, ast.Name) and tgt.id == name:
                            result.append(val)
        elif isinstance(cur, ast.AnnAssign) and cur.value is not None:
            if isinstance(cur.target, ast.Name) and cur.target.id == name:
                result.append(cur.value)
    return result


def provenance(func: ast.AST, expr: ast.AST, depth: int = 0) -> Set[str]:
    """ attribute paths / call names an expression may come from, following
        local single-name assignments (flow-insensitive, bounded depth) """
    result: Set[str] = set()
    if depth > 6:
        return result
    for cur in [expr] + list(walk_local(expr)):
        path = dotted(cur)
        if path is not None and (isinstance(cur, ast.Attribute) or depth == 0):
            par = getattr(cur, "_parent", None)
            if not (isinstance(par, ast.Attribute) and par.value is cur):
                result.add(path)
        if isinstance(cur, ast.Name) and isinstance(cur.ctx, ast.Load):
            for value in bound_from(func, cur.id):
                result |= provenance(func, value, depth + 1)
        if isinstance(cur, ast.Call):
            name = dotted(cur.func)
            if name:
                result.add(name + "()")
    return result


# ------------------------------------------------------------------ path facts
def literals(test: ast.AST, polarity: bool) -> List[Tuple[ast.AST, bool]]:
    """ atomic facts implied by `test == polarity`: conjuncts of a true `and`, disjuncts of a false `or`,
        with `not` pushed inwards.  A true `or` / false `and` yields the compound itself as one literal. """
    if isinstance(test, ast.UnaryOp) and isinstance(test.op, ast.Not):
        return literals(test.operand, not polarity)
    if isinstance(test, ast.BoolOp):
        if isinstance(test.op, ast.And) and polarity:
            out: List[Tuple[ast.AST, bool]] = []
            for value in test.values:
                out += literals(value, True)
            return out
        if isinstance(test.op, ast.Or) and not polarity:
            out = []
            for value in test.values:
                out += literals(value, False)
            return out
    return [(test, polarity)]


def path_facts(cfg: CFG, node: ast.AST, fresh_only: bool = False, asserts: bool = False) -> List[Tuple[ast.AST, bool]]:
    """ literals (expr, truth) that hold on *every* path from the function entry to `node`:
        a test contributes when cutting one of its outgoing edges makes the node unreachable.
        Handles early continue/return, inverted conditions and merged guards uniformly.
        With fresh_only, a test is dropped when one of the names it reads can be re-bound or
        mutated between the test and the node (the fact may be stale there). """
    target = cfg.n(node)
    facts: List[Tuple[ast.AST, bool]] = []
    reachable = cfg.reach([cfg.entry])
    if target not in reachable:
        return facts
    for cand in cfg.nodes:
        if cand.kind != "test" or cand.ast is None or cand.id == target and not isinstance(cand.ast, ast.While):
            continue
        labels = {lab for _, lab in cfg.succ[cand.id]}
        for label, polarity in (("T", True), ("F", False)):
            if label not in labels:
                continue
            if target not in cfg.reach([cfg.entry], edges_excluded=[(cand.id, label)]):
                test = cand.ast.test  # type: ignore[attr-defined]
                if fresh_only and _stale(cfg, cand.id, label, target, test):
                    continue
                facts += literals(test, polarity)
    if asserts:
        # an assertion every path to the node has passed holds there too (on request: the code relies on it)
        for cand in cfg.nodes:
            if cand.kind == "stmt" and isinstance(cand.ast, ast.Assert) and cand.id != target and cfg.dominates(cand.id, target):
                names = {n.id for n in ast.walk(cand.ast.test) if isinstance(n, ast.Name)}
                stale = False
                if fresh_only:
                    for nid in cfg.reach([cand.id], avoid=[]):
                        if nid in (cand.id, target):
                            continue
                        between = cfg.nodes[nid]
                        defs = set(cfg.defs_at(nid))
                        if between.ast is not None and between.kind != "test":
                            defs |= mutated_names(between.ast)
                        if defs & names and target in cfg.reach([nid]) and nid in cfg.reach([cand.id]) and not cfg.dominates(target, nid):
                            stale = True
                if not stale:
                    facts += literals(cand.ast.test, True)
    # conditional expressions / boolean guards enclosing the node inside one statement
    child = node
    cur = getattr(node, "_parent", None)
    while cur is not None and not isinstance(cur, ast.stmt):
        if isinstance(cur, ast.IfExp):
            if child is cur.body:
                facts += literals(cur.test, True)
            elif child is cur.orelse:
                facts += literals(cur.test, False)
        child = cur
        cur = getattr(cur, "_parent", None)
    return facts


def _stale(cfg: CFG, test_id: int, label: str, target: int, test: ast.AST) -> bool:
    names = {n.id for n in ast.walk(test) if isinstance(n, ast.Name)}
    starts = [dst for dst, lab in cfg.succ[test_id] if lab == label]
    after = cfg.reach(starts, include_start=True, avoid=[test_id])
    for nid in after:
        if nid == target or nid == test_id:
            continue
        node = cfg.nodes[nid]
        defs = set(cfg.defs_at(nid))
        if node.ast is not None and node.kind != "test":
            defs |= mutated_names(node.ast)
        if defs & names and target in cfg.reach([nid], avoid=[test_id]):
            return True
    return False


def fact_texts(cfg: CFG, node: ast.AST) -> Set[str]:
    """ path facts as normalised strings: 'X' for true literals, 'not X' for false ones """
    out: Set[str] = set()
    for expr, truth in path_facts(cfg, node):
        out.add(txt(expr) if truth else f"not {txt(expr)}")
    return out


def inline_locals(func: ast.AST, expr: ast.AST, depth: int = 0, skip: Set[str] = frozenset()) -> ast.AST:
    """ a copy of expr in which every local name bound exactly once in func (by a plain assignment of a
        side-effect-free expression) is replaced by that expression - hoisted locals become transparent """

    class Inliner(ast.NodeTransformer):
        def visit_Name(self, node: ast.Name) -> ast.AST:
            if not isinstance(node.ctx, ast.Load) or node.id in skip or depth > 3:
                return node
            values = bound_from(func, node.id)
            stores = sum(1 for n in walk_local(func) if isinstance(n, ast.Name) and n.id == node.id
                         and isinstance(n.ctx, (ast.Store, ast.Del)))
            if len(values) == 1 and stores == 1 and not isinstance(values[0], (ast.ListComp, ast.DictComp, ast.SetComp,
                                                                              ast.GeneratorExp, ast.Lambda)):
                return inline_locals(func, values[0], depth + 1, skip | {node.id})
            return node
    return ast.fix_missing_locations(Inliner().visit(clone(expr)))


def subscript_stores(func: ast.AST, scope: ast.AST) -> List[Tuple[ast.AST, ast.AST]]:
    """ (site, subject) for every in-place store inside `scope` whose receiver is a subscripted container,
        directly (`acc[k].add(x)`, `acc[a][b] = v`) or through a local alias (`slot = acc[k]; slot.add(x)`);
        subject is the receiver with single-assignment locals inlined """
    out: List[Tuple[ast.AST, ast.AST]] = []
    for node in walk_local(scope):
        if isinstance(node, ast.Call) and isinstance(node.func, ast.Attribute) \
                and node.func.attr in ("add", "update", "append", "extend"):
            subject = inline_locals(func, node.func.value)
            if isinstance(subject, ast.Subscript):
                out.append((node, subject))
        elif isinstance(node, ast.Assign):
            for target in node.targets:
                if isinstance(target, ast.Subscript):
                    subject = inline_locals(func, target)
                    if isinstance(subject, ast.Subscript) and isinstance(subject.value, ast.Subscript):
                        out.append((node, subject))
    return out


def nnf(expr: ast.AST, truth: bool = True):
    """ negation normal form of a boolean expression as nested tuples:
        ('and', frozenset), ('or', frozenset), ('lit', text, truth).  Negated comparisons are
        folded into the literal (`a not in b` -> ('lit', 'a in b', False), `a != b` -> ('lit', 'a == b', False)). """
    if isinstance(expr, ast.UnaryOp) and isinstance(expr.op, ast.Not):
        return nnf(expr.operand, not truth)
    if isinstance(expr, ast.BoolOp):
        conj = isinstance(expr.op, ast.And) == truth
        parts = set()
        for value in expr.values:
            sub = nnf(value, truth)
            if sub[0] == ("and" if conj else "or"):
                parts |= set(sub[1])
            else:
                parts.add(sub)
        return ("and" if conj else "or", frozenset(parts))
    if isinstance(expr, ast.Compare) and len(expr.ops) == 1:
        flip = {ast.NotIn: ast.In, ast.IsNot: ast.Is, ast.NotEq: ast.Eq}
        for neg, pos in flip.items():
            if isinstance(expr.ops[0], neg):
                twin = ast.Compare(left=expr.left, ops=[pos()], comparators=expr.comparators)
                return ("lit", txt(twin), not truth)
    if isinstance(expr, ast.Call) and isinstance(expr.func, ast.Name) and expr.func.id == "bool" and len(expr.args) == 1:
        return nnf(expr.args[0], truth)
    return ("lit", txt(expr), truth)


def facts_nnf(facts: List[Tuple[ast.AST, bool]]):
    """ conjunction of path facts in negation normal form """
    parts = set()
    for expr, truth in facts:
        sub = nnf(expr, truth)
        if sub[0] == "and":
            parts |= set(sub[1])
        else:
            parts.add(sub)
    return ("and", frozenset(parts))


def inline_call(repo, rel: str, call: ast.AST) -> Optional[ast.AST]:
    """ the returned expression of a one-statement module-level (or same-class, via self) helper with the
        call's arguments substituted for its parameters; None when the callee is not such a helper """
    if not isinstance(call, ast.Call):
        return None
    name = None
    skip_self = False
    if isinstance(call.func, ast.Name):
        name = call.func.id
    elif isinstance(call.func, ast.Attribute) and isinstance(call.func.value, ast.Name) and call.func.value.id in ("self", "cls"):
        name = call.func.attr
        skip_self = True
    if name is None:
        return None
    target = None
    for qual, func in repo.functions(rel):
        if qual == name or (skip_self and qual.endswith("." + name) and qual.count(".") == 1):
            target = func
            break
    if target is None:
        return None
    body = [st for st in target.body if not (isinstance(st, ast.Expr) and isinstance(st.value, ast.Constant))]
    if len(body) != 1 or not isinstance(body[0], ast.Return) or body[0].value is None:
        return None
    params = [a.arg for a in target.args.args]
    if skip_self and params:
        params = params[1:]
    if len(call.args) > len(params) or any(k.arg is None for k in call.keywords):
        return None
    mapping = dict(zip(params, call.args))
    for kw in call.keywords:
        mapping[kw.arg] = kw.value
    if set(params) - set(mapping):
        defaults = target.args.defaults
        for param, default in zip(params[len(params) - len(defaults):], defaults):
            mapping.setdefault(param, default)
    if set(params) - set(mapping):
        return None

    class Sub(ast.NodeTransformer):
        def visit_Name(self, node: ast.Name) -> ast.AST:
            if node.id in mapping and isinstance(node.ctx, ast.Load):
                return clone(mapping[node.id])
            return node
    return ast.fix_missing_locations(Sub().visit(clone(body[0].value)))


def expand_helpers(repo, rel: str, expr: ast.AST, depth: int = 0) -> ast.AST:
    """ expr with every call to a one-statement helper of the same module replaced by the helper's body """

    class Expand(ast.NodeTransformer):
        def visit_Call(self, node: ast.Call) -> ast.AST:
            self.generic_visit(node)
            if depth < 2:
                inlined = inline_call(repo, rel, node)
                if inlined is not None:
                    return expand_helpers(repo, rel, inlined, depth + 1)
            return node
    return ast.fix_missing_locations(Expand().visit(clone(expr)))


def inline_reaching(cfg: CFG, at: ast.AST, expr: ast.AST, depth: int = 0, comprehension_scope: Set[str] = frozenset(),
                    keep: Set[str] = frozenset(), max_depth: int = 4) -> ast.AST:
    """ a copy of `expr` (evaluated at statement `at`) in which a local name is replaced by the value of its
        *unique reaching definition* when that is a plain `name = value` assignment, recursively resolved at the
        defining statement.  Unlike inline_locals this follows names that are re-bound elsewhere in the function. """
    try:
        here = cfg.n(at)
    except KeyError:
        return clone(expr)

    class Inliner(ast.NodeTransformer):
        def __init__(self) -> None:
            self.bound: Set[str] = set(comprehension_scope)

        def _comp(self, node):  # names bound by a comprehension are not locals of the function
            saved = set(self.bound)
            for gen in node.generators:
                self.bound |= {n.id for n in ast.walk(gen.target) if isinstance(n, ast.Name)}
            self.generic_visit(node)
            self.bound = saved
            return node
        visit_ListComp = visit_SetComp = visit_DictComp = visit_GeneratorExp = _comp

        def visit_Lambda(self, node: ast.Lambda) -> ast.AST:
            saved = set(self.bound)
            self.bound |= {a.arg for a in node.args.args}
            self.generic_visit(node)
            self.bound = saved
            return node

        def visit_Name(self, node: ast.Name) -> ast.AST:
            if not isinstance(node.ctx, ast.Load) or node.id in self.bound or node.id in keep or depth > max_depth:
                return node
            defs = cfg.reaching_defs(node.id, here)
            if defs == {-1}:
                outer = closure_value(cfg.func, node.id)
                if outer is not None and depth <= 4:
                    return clone(outer)
                return node
            if len(defs) != 1 or -1 in defs:
                return node
            stmt = cfg.nodes[next(iter(defs))].ast
            value = None
            if isinstance(stmt, ast.Assign) and len(stmt.targets) == 1 and isinstance(stmt.targets[0], ast.Name) \
                    and stmt.targets[0].id == node.id:
                value = stmt.value
            elif isinstance(stmt, ast.AnnAssign) and isinstance(stmt.target, ast.Name) and stmt.target.id == node.id:
                value = stmt.value
            if value is None:
                return node
            # a container mutated in place between its definition and the use is not its defining expression any more
            d = next(iter(defs))
            # (any path from the definition to the use that does not run the definition again, loops included)
            between = cfg.reach([d], avoid=[d])
            for nid in between:
                other = cfg.nodes[nid].ast
                if other is not None and nid != d and cfg.nodes[nid].kind != "test" and node.id in mutated_names(other) \
                        and here in cfg.reach([nid], avoid=[d]):
                    return node
            return inline_reaching(cfg, stmt, value, depth + 1, frozenset(self.bound), keep, max_depth)
    return ast.fix_missing_locations(Inliner().visit(clone(expr)))


# ---------------------------------------------------------------- propositional reasoning over NNF forms
def nnf_atoms(form) -> Set[str]:
    if form[0] == "lit":
        return {form[1]}
    out: Set[str] = set()
    for sub in form[1]:
        out |= nnf_atoms(sub)
    return out


def nnf_eval(form, env: Dict[str, bool]) -> bool:
    if form[0] == "lit":
        return env[form[1]] == form[2]
    if form[0] == "and":
        return all(nnf_eval(sub, env) for sub in form[1])
    return any(nnf_eval(sub, env) for sub in form[1])


def nnf_or(forms):
    return ("or", frozenset(forms))


def nnf_not(form):
    if form[0] == "lit":
        return ("lit", form[1], not form[2])
    return ("or" if form[0] == "and" else "and", frozenset(nnf_not(sub) for sub in form[1]))


def nnf_equiv(left, right, limit: int = 10):
    """ (equivalent?, counterexample assignment) by truth table over the atoms (opaque literal texts) """
    import itertools
    atoms = sorted(nnf_atoms(left) | nnf_atoms(right))
    if len(atoms) > limit:
        raise ValueError(f"too many atoms: {atoms}")
    for values in itertools.product([False, True], repeat=len(atoms)):
        env = dict(zip(atoms, values))
        if nnf_eval(left, env) != nnf_eval(right, env):
            return False, env
    return True, None


def resolved_facts(cfg: CFG, node: ast.AST, repo=None, rel: Optional[str] = None, fresh_only: bool = False,
                   max_depth: int = 4):
    """ path facts of node with locals replaced by their reaching definitions (at the node) and, when repo/rel are
        given, one-statement helpers expanded; returned as one NNF conjunction """
    parts = []
    for expr, truth in path_facts(cfg, node, fresh_only=fresh_only):
        anchor = expr if hasattr(expr, "_parent") else node
        full = inline_reaching(cfg, anchor, expr, max_depth=max_depth)
        if repo is not None and rel is not None:
            full = expand_helpers(repo, rel, full)
        parts.append((full, truth))
    return facts_nnf(parts)


def path_conditions(cfg: CFG, node: ast.AST, limit: int = 64):
    """ exact conditions of the acyclic paths from the entry to node: a list with one [(test expr, truth), ...] per
        path.  Raises ValueError when a path revisits a node (loop) or there are more than `limit` paths. """
    target = cfg.n(node)
    can_reach = {target} | {n.id for n in cfg.nodes if target in cfg.reach([n.id])}
    out = []

    def walk(cur: int, seen: Tuple[int, ...], conds: Tuple[Tuple[ast.AST, bool], ...]) -> None:
        if cur == target:
            out.append(list(conds))
            if len(out) > limit:
                raise ValueError("too many paths")
            return
        if cur in seen:
            raise ValueError("loop on a path to the node")
        for dst, label in cfg.succ[cur]:
            if dst not in can_reach:
                continue
            extra = conds
            test = cfg.nodes[cur]
            if test.kind == "test" and label in ("T", "F") and test.ast is not None and hasattr(test.ast, "test"):
                extra = conds + ((test.ast.test, label == "T"),)
            walk(dst, seen + (cur,), extra)
    walk(cfg.entry, (), ())
    return out


def exact_condition(cfg: CFG, node: ast.AST, repo=None, rel: Optional[str] = None):
    """ NNF disjunction over the exact path conditions of node (locals resolved at each test) """
    forms = []
    for conds in path_conditions(cfg, node):
        parts = []
        for expr, truth in conds:
            full = inline_reaching(cfg, expr, expr)
            if repo is not None and rel is not None:
                full = expand_helpers(repo, rel, full)
            parts.append((full, truth))
        forms.append(facts_nnf(parts))
    return nnf_or(forms)


def closure_value(func: ast.AST, name: str) -> Optional[ast.AST]:
    """ value of a free variable of a nested function when the enclosing function binds it exactly once by a plain
        assignment (and nothing in either function re-binds it): a closure constant """
    if name in {a.arg for a in getattr(func, "args", ast.arguments(args=[], posonlyargs=[], kwonlyargs=[])).args}:
        return None
    if any(isinstance(n, ast.Name) and n.id == name and isinstance(n.ctx, (ast.Store, ast.Del)) for n in walk_local(func)):
        return None
    outer = getattr(func, "_parent", None)
    while outer is not None and not isinstance(outer, (ast.FunctionDef, ast.AsyncFunctionDef)):
        outer = getattr(outer, "_parent", None)
    if outer is None:
        return None
    stores = [n for n in walk_local(outer) if isinstance(n, ast.Name) and n.id == name and isinstance(n.ctx, (ast.Store, ast.Del))]
    values = bound_from(outer, name)
    if len(stores) == 1 and len(values) == 1 and not isinstance(values[0], (ast.ListComp, ast.SetComp, ast.DictComp,
                                                                         ast.GeneratorExp, ast.Lambda)):
        return values[0]
    return None


def nnf_literals(form) -> Set[Tuple[str, bool]]:
    """ every (text, truth) literal occurring anywhere in an NNF form """
    if form[0] == "lit":
        return {(form[1], form[2])}
    out: Set[Tuple[str, bool]] = set()
    for sub in form[1]:
        out |= nnf_literals(sub)
    return out


def deciding_test(cfg: CFG, node: ast.AST) -> Optional[Tuple[int, str]]:
    """ (test node, label) of the innermost test dominating `node` one of whose edges is the only way to it """
    target = cfg.n(node)
    best = None
    for cand in cfg.nodes:
        if cand.kind != "test" or cand.id == target or not cfg.dominates(cand.id, target):
            continue
        for label in ("T", "F"):
            if target not in cfg.reach([cfg.entry], edges_excluded=[(cand.id, label)]):
                if best is None or cfg.dominates(best[0], cand.id):
                    best = (cand.id, label)
    return best


def key_function(repo, rel: str, func: Optional[ast.AST], key: ast.AST) -> Optional[Tuple[str, ast.AST]]:
    """ (parameter name, returned expression) of a sort key given as a lambda or as the name of a one-parameter
        function (nested in `func` or at module level) whose returned expressions are all the same after resolving
        its locals """
    if isinstance(key, ast.Lambda) and len(key.args.args) == 1:
        return key.args.args[0].arg, key.body
    if isinstance(key, ast.Name):
        target = None
        if func is not None:
            for node in ast.walk(func):
                if isinstance(node, ast.FunctionDef) and node.name == key.id and node is not func:
                    target = node
        if target is None and repo is not None:
            for qual, node in repo.functions(rel):
                if qual == key.id:
                    target = node
        if target is None or len(target.args.args) != 1:
            return None
        cfg = CFG(target)
        values = []
        for ret in [n for n in walk_local(target) if isinstance(n, ast.Return) and n.value is not None]:
            values.append(inline_reaching(cfg, ret, ret.value))
        if values and len({txt(v) for v in values}) == 1:
            return target.args.args[0].arg, values[0]
    return None


_NEG = {"<": ">=", "<=": ">", ">": "<=", ">=": "<", "==": "!=", "!=": "==", "in": "not in", "not in": "in"}
_FLIP = {"<": ">", "<=": ">=", ">": "<", ">=": "<=", "==": "==", "!=": "!=", "in": "contains", "not in": "lacks"}
_OPS = {ast.Lt: "<", ast.LtE: "<=", ast.Gt: ">", ast.GtE: ">=", ast.Eq: "==", ast.NotEq: "!=", ast.In: "in", ast.NotIn: "not in"}


def effective_compare(expr: ast.AST, truth: bool = True) -> Optional[Tuple[ast.AST, str, ast.AST]]:
    """ (left, op, right) of a single two-operand comparison as it holds when `expr` has the given truth value:
        `not a <= b` true and `a <= b` false both give (a, '>', b) """
    while isinstance(expr, ast.UnaryOp) and isinstance(expr.op, ast.Not):
        expr, truth = expr.operand, not truth
    if not (isinstance(expr, ast.Compare) and len(expr.ops) == 1 and type(expr.ops[0]) in _OPS):
        return None
    op = _OPS[type(expr.ops[0])]
    if not truth:
        op = _NEG[op]
    return expr.left, op, expr.comparators[0]


def oriented(compare: Tuple[ast.AST, str, ast.AST], is_subject) -> Optional[Tuple[ast.AST, str, ast.AST]]:
    """ the comparison turned so that the operand satisfying is_subject is on the left (None if neither or both do) """
    left, op, right = compare
    a, b = bool(is_subject(left)), bool(is_subject(right))
    if a == b:
        return None
    return (left, op, right) if a else (right, _FLIP[op], left)


def compares_at(cfg: CFG, node: ast.AST, keep: Set[str] = frozenset(), fresh_only: bool = False,
                within: Optional[ast.AST] = None) -> List[Tuple[ast.AST, str, ast.AST]]:
    """ the two-operand comparisons among the path facts of `node`, each as (left, op, right) as it holds at the node,
        locals resolved through their reaching definitions; `within` restricts to tests inside that statement """
    out: List[Tuple[ast.AST, str, ast.AST]] = []
    for expr, truth in path_facts(cfg, node, fresh_only=fresh_only):
        if within is not None:
            cur, inside = expr, False
            while cur is not None:
                if cur is within:
                    inside = True
                    break
                cur = getattr(cur, "_parent", None)
            if not inside:
                continue
        anchor = expr if hasattr(expr, "_parent") else node
        cmp_ = effective_compare(inline_reaching(cfg, anchor, expr, keep=keep), truth)
        if cmp_ is not None:
            out.append(cmp_)
    return out


def same_operands(call: ast.AST, name: str, operands: List[str]) -> bool:
    """ `call` is name(a, b) / name([a, b]) with exactly the given operand texts in any order """
    if not (isinstance(call, ast.Call) and isinstance(call.func, ast.Name) and call.func.id == name and not call.keywords):
        return False
    args = call.args
    if len(args) == 1 and isinstance(args[0], (ast.List, ast.Tuple, ast.Set)):
        args = args[0].elts
    return sorted(txt(a) for a in args) == sorted(operands)


def iteration_conditions(cfg: CFG, loop: ast.AST, node: ast.AST, limit: int = 64):
    """ exact conditions of the paths from the top of one iteration of `loop` to node (not passing the loop header
        again): one [(test expr, truth), ...] per path """
    head, target = cfg.n(loop), cfg.n(node)
    can_reach = {target} | {n.id for n in cfg.nodes if target in cfg.reach([n.id], avoid=[head])}
    out = []

    def walk(cur: int, seen: Tuple[int, ...], conds) -> None:
        if cur == target:
            out.append(list(conds))
            if len(out) > limit:
                raise ValueError("too many paths")
            return
        if cur in seen or cur == head:
            return
        for dst, label in cfg.succ[cur]:
            if dst not in can_reach:
                continue
            extra = conds
            test = cfg.nodes[cur]
            if test.kind == "test" and label in ("T", "F") and test.ast is not None and hasattr(test.ast, "test"):
                extra = conds + ((test.ast.test, label == "T"),)
            walk(dst, seen + (cur,), extra)
    for dst, label in cfg.succ[head]:
        if label == "T" and dst in can_reach:
            walk(dst, (), ())
    return out


def all_pairs_of(site: ast.AST, stop: ast.AST) -> Optional[str]:
    """ the sequence X when the loops enclosing `site` visit every unordered pair of X exactly once and cannot be left
        early: `for i, a in enumerate(X[:-1]): for b in X[i + 1:]`, the same over `enumerate(X)`, the index form with
        `range(len(X))` / `range(i + 1, len(X))`, or `for a, b in itertools.combinations(X, 2)` """
    from .astutil import enclosing_loops
    loops = [lp for lp in enclosing_loops(site, stop=stop) if isinstance(lp, ast.For)]
    if not loops or any(isinstance(n, ast.Break) for n in ast.walk(loops[-1])):
        return None
    inner = loops[0]
    if isinstance(inner.iter, ast.Call) and txt(inner.iter.func) in ("combinations", "itertools.combinations") \
            and len(inner.iter.args) == 2 and txt(inner.iter.args[1]) == "2" and isinstance(inner.target, ast.Tuple):
        return txt(inner.iter.args[0])
    if len(loops) < 2:
        return None
    outer = loops[1]
    if isinstance(outer.iter, ast.Call) and txt(outer.iter.func) == "enumerate" and len(outer.iter.args) == 1 \
            and isinstance(outer.target, ast.Tuple) and len(outer.target.elts) == 2:
        index = txt(outer.target.elts[0])
        seq = outer.iter.args[0]
        if isinstance(seq, ast.Subscript) and isinstance(seq.slice, ast.Slice) and seq.slice.lower is None \
                and txt(seq.slice.upper) == "-1" and seq.slice.step is None:
            seq = seq.value
        if isinstance(inner.iter, ast.Subscript) and isinstance(inner.iter.slice, ast.Slice) and inner.iter.slice.upper is None \
                and inner.iter.slice.step is None and txt(inner.iter.slice.lower) in (f"{index} + 1", f"1 + {index}") \
                and txt(inner.iter.value) == txt(seq):
            return txt(seq)
        return None
    if isinstance(outer.iter, ast.Call) and txt(outer.iter.func) == "range" and len(outer.iter.args) == 1 \
            and isinstance(inner.iter, ast.Call) and txt(inner.iter.func) == "range" and len(inner.iter.args) == 2:
        index = txt(outer.target)
        bound = txt(outer.iter.args[0])
        for seq_len in (bound, bound[:-len(" - 1")] if bound.endswith(" - 1") else bound):
            if seq_len.startswith("len(") and txt(inner.iter.args[0]) in (f"{index} + 1", f"1 + {index}") \
                    and txt(inner.iter.args[1]) == seq_len:
                return seq_len[4:-1]
    return None
