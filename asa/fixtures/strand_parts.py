# positive fixture for the strand-order lint: both accesses must be reported, the guarded one must not
def bad(feature, region):
    if feature.location.parts[0].start < region.start or feature.location.parts[-1].end > region.end:
        return True
    return False


def good(feature, region):
    if feature.location.strand == -1:
        first = feature.location.parts[-1]
    else:
        first = feature.location.parts[0]
    return first.start < region.start
