""" C05 Candidate clusters group protoclusters by the documented kinds """

from __future__ import annotations

import ast
import re
from typing import Dict, List, Optional, Set, Tuple

from ..astutil import arg_of, call_name, calls, enclosing_loops, guards, kwarg, last_attr, stmt_key, txt, walk_local
from ..cfg import CFG
from ..flow import bound_from, effective_compare, expand_helpers, facts_nnf, nnf, inline_reaching, key_function, oriented, path_facts
from ..index import AnalysisError, dotted
from ..report import Ctx

PROP = "C05"
FORM = "antismash/common/secmet/features/candidate_cluster/formation.py"
STRUCT = "antismash/common/secmet/features/candidate_cluster/structures.py"

EXPLANATION = (
    "Static rules over candidate_cluster/formation.py: (R05.1) every store into and lookup from the coordinate "
    "de-duplication table builds its key with the same accessor chain; (R05.2) each formation pass compares what its "
    "kind documents - hybrids intersect defining genes, interleaved passes compare cores, neighbouring passes compare "
    "full extents, containment into a hybrid uses the group's connected core; (R05.5) every early `break` out of a "
    "sweep over a sorted list tests a quantity that is a lower bound of that list's sort key, so nothing later in the "
    "list can still qualify; (R05.3) no set of protoclusters is iterated into an ordered result without a total "
    "order (family E, shared with C17); (R05.4) the closing sanity assertion and non-empty groups."
    " R05.8: a protocluster contained in a hybrid group's core span joins every such group, and each group once (the addition depends on that group only and is idempotent)."
)
UNDECIDED = [
    "that the groups are exactly the transitive closures of the documented relations for all layouts",
    "candidate location == hull of members (value)",
    "uniqueness of (coordinates, membership) in general",
]
TRUSTED = ["CPython ast", "a protocluster's core lies inside its full location (core start >= location start)",
           "lists of protoclusters / candidates handed between the passes are sorted by CDSCollection.__lt__ "
           "(location start) as the docstrings state and the callers do"]


def _normalise_key(expr: ast.AST) -> Optional[Tuple[str, Tuple[str, ...]]]:
    """ (subject variable, accessor chains) of a tuple key, int() wrappers removed """
    if not isinstance(expr, ast.Tuple):
        return None
    subjects: Set[str] = set()
    chains = []
    for elt in expr.elts:
        while isinstance(elt, ast.Call) and call_name(elt) == "int" and len(elt.args) == 1:
            elt = elt.args[0]
        path = dotted(elt)
        if path is None or "." not in path:
            return None
        subject, _, chain = path.partition(".")
        subjects.add(subject)
        chains.append(chain)
    if len(subjects) != 1:
        return None
    return subjects.pop(), tuple(chains)


def r05_1(ctx: Ctx) -> None:
    func = ctx.fn(FORM, "create_candidates_from_protoclusters")
    table = "existing"
    uses: List[Tuple[ast.AST, str, ast.AST]] = []
    for node in walk_local(func, into_nested=True):
        if isinstance(node, ast.Subscript) and isinstance(node.value, ast.Name) and node.value.id == table:
            uses.append((node, "store" if isinstance(node.ctx, ast.Store) else "load", node.slice))
        elif isinstance(node, ast.Call) and isinstance(node.func, ast.Attribute) and dotted(node.func.value) == table \
                and node.func.attr in ("get", "pop", "setdefault") and node.args:
            uses.append((node, "lookup", node.args[0]))
    if len(uses) < 3:
        raise AnalysisError("create_candidates_from_protoclusters: de-duplication table `existing` not found")
    chains: Dict[Tuple[str, ...], List[str]] = {}
    resolved = []
    for node, kind, key in uses:
        ctx.call_sites += 1
        if isinstance(key, ast.Name):
            scope = node
            while not isinstance(scope, (ast.FunctionDef, ast.AsyncFunctionDef)):
                scope = getattr(scope, "_parent")
            vals = bound_from(scope, key.id)
            key = vals[0] if len(vals) == 1 else key
        norm = _normalise_key(key)
        if norm is None:
            ctx.cannot("R05.1", FORM, node, "create_candidates_from_protoclusters", f"{kind} {txt(node)[:50]}",
                       f"key expression not a tuple of accessors on one subject: {txt(key)}")
            continue
        resolved.append((node, kind, norm))
        chains.setdefault(norm[1], []).append(f"{kind}@{getattr(node, 'lineno', 0)}")
    stores = {norm[1] for _, kind, norm in resolved if kind == "store"}
    for node, kind, norm in resolved:
        ok = norm[1] in stores and len(stores) == 1
        ctx.ob("R05.1", FORM, node, "create_candidates_from_protoclusters", f"{table} {kind} key ({', '.join(norm[1])})", ok,
               "every access to the coordinate de-duplication table builds its key with the accessor chain used to store "
               "entries (feature start/end differ from location.start/end for origin-spanning features)",
               form=f"{kind}: ({', '.join(norm[0] + '.' + c for c in norm[1])}); stored under {sorted(stores)}")


CORE_WORDS = ("core_location", "core_start", "core_end")


def _operand_class(func: ast.AST, expr: ast.AST, depth: int = 0) -> str:
    text = txt(expr)
    if any(w in text for w in CORE_WORDS):
        return "core"
    if isinstance(expr, ast.Name) and depth < 3:
        vals = bound_from(func, expr.id)
        classes = {_operand_class(func, v, depth + 1) for v in vals}
        if classes == {"core"}:
            return "core"
        # a parameter fed by the group's connected core (nested helper)
        if not vals:
            for call in calls(func, into_nested=True):
                pass
    if text.endswith(".location") or isinstance(expr, ast.Name) or text.endswith(".location.parts[-1]"):
        return "full"
    return "other"


def r05_2(ctx: Ctx) -> None:
    # hybrids: pairs share a defining gene
    func = ctx.fn(FORM, "_find_hybrids")
    cfg = CFG(func)
    pair_adds = [c for c in calls(func) if last_attr(c) == "append" and c.args and isinstance(c.args[0], ast.Set)
                 and len(c.args[0].elts) == 2]
    for index, add in enumerate(pair_adds):
        members = sorted(txt(e) for e in add.args[0].elts)
        shares = False
        forms = []
        for expr, truth in path_facts(cfg, add):
            expanded = expand_helpers(ctx.repo, FORM, expr)
            text = txt(expanded)
            forms.append(("" if truth else "not ") + text)
            m = re.search(r"(\w+)\.definition_cdses\.(intersection|isdisjoint)\((\w+)\.definition_cdses\)", text) \
                or re.search(r"(\w+)\.definition_cdses (&) (\w+)\.definition_cdses", text)
            if m and sorted([m.group(1), m.group(3)]) == members and m.group(1) != m.group(3) \
                    and truth == (m.group(2) != "isdisjoint"):
                shares = True
        ctx.ob("R05.2", FORM, add, "_find_hybrids", f"hybrid pair test#{index}", shares,
               "two protoclusters form a chemical hybrid pair iff their defining genes intersect",
               form=f"{txt(add)} under {forms}")
    ctx.ob("R05.2", FORM, func, "_find_hybrids", "hybrid pair sites", len(pair_adds) == 2,
           "hybrid pairs are found among all pairs and for the first/last (origin) pair", form=str(len(pair_adds)))
    # all pairs: i < j double loop without early exit
    from ..flow import all_pairs_of
    paired = [(add, all_pairs_of(add, func)) for add in pair_adds if enclosing_loops(add, stop=func)]
    ok = len(paired) == 1 and paired[0][1] is not None
    ctx.ob("R05.2", FORM, paired[0][0] if paired else func, "_find_hybrids", "all pairs compared", ok,
           "sharing a gene is not monotone in position, so every pair is compared (no early exit)",
           form=f"all unordered pairs of {paired[0][1]}" if ok else "")
    # containment into a hybrid: inner is a core, outer is the group's connected core
    helper = ctx.fn(FORM, "_find_hybrids.update_if_contained")
    cont = [c for c in calls(helper) if call_name(c) == "location_contains_other"]
    ok = len(cont) == 1 and txt(cont[0].args[1]).endswith(".core_location") and txt(cont[0].args[0]) == helper.args.args[0].arg
    ctx.ob("R05.2", FORM, helper, "_find_hybrids.update_if_contained", "containment inner", ok,
           "a protocluster joins a hybrid when its *core* lies inside the group's core span", form=txt(cont[0]) if cont else "")
    cores = bound_from(func, "core")
    ok = len(cores) == 1 and call_name(cores[0]) == "connect_locations" and "core_location" in txt(cores[0].args[0]) \
        and kwarg(cores[0], "wrap_point") is not None
    ctx.ob("R05.2", FORM, cores[0] if cores else func, "_find_hybrids", "containment outer", ok,
           "the containing span is the connection of the group's core locations (with the wrap point)",
           form=txt(cores[0]) if cores else "")
    for call in calls(func):
        if call_name(call) == "update_if_contained":
            ctx.ob("R05.2", FORM, call, "_find_hybrids", f"containment call {stmt_key(call)}@{call.lineno - func.lineno}",
                   txt(call.args[0]) == "core", "the helper is handed the group's connected core", form=txt(call))
    # interleaved: cores on both sides
    for qual, expect in (("_find_interleaved_candidates", 2), ("_find_interleaved", 2), ("_find_cross_origin_interleaved", 1)):
        func = ctx.fn(FORM, qual)
        rel = [c for c in calls(func) if call_name(c) == "locations_overlap"]
        for index, call in enumerate(rel):
            classes = [_operand_class(func, a) for a in call.args]
            ctx.ob("R05.2", FORM, call, qual, f"interleaved relation#{index}", classes == ["core", "core"],
                   "interleaved groups are defined by overlapping *cores* on both sides",
                   form=f"{txt(call)} -> {classes}")
        ctx.ob("R05.2", FORM, func, qual, "interleaved relation sites", len(rel) == expect,
               "the pass has its documented comparison sites", form=f"{len(rel)} (expected {expect})")
    # neighbouring: full extents on both sides
    for qual, expect in (("_find_neighbouring_candidates", 2), ("_find_neighbouring_protoclusters", 2), ("_find_neighbouring", 2)):
        func = ctx.fn(FORM, qual)
        rel = [c for c in calls(func) if call_name(c) == "locations_overlap" or last_attr(c) == "overlaps_with"]
        for index, call in enumerate(rel):
            operands = list(call.args)
            if last_attr(call) == "overlaps_with":
                operands = [call.func.value] + operands  # type: ignore[attr-defined]
            classes = [_operand_class(func, a) for a in operands]
            ctx.ob("R05.2", FORM, call, qual, f"neighbouring relation#{index}", classes == ["full", "full"],
                   "neighbouring groups are defined by overlapping *full extents* on both sides",
                   form=f"{txt(call)} -> {classes}")
        ctx.ob("R05.2", FORM, func, qual, "neighbouring relation sites", len(rel) == expect,
               "the pass has its documented comparison sites", form=f"{len(rel)} (expected {expect})")
    # candidates built with the kind of their pass, in strength order
    top = ctx.fn(FORM, "create_candidates_from_protoclusters")
    order = []
    for node in walk_local(top):
        if isinstance(node, ast.Assign) and isinstance(node.value, ast.Call) and call_name(node.value) == "build_candidates":
            groups = txt(node.value.args[0])
            kind = txt(node.value.args[1]).split(".")[-1]
            order.append((groups, kind))
    ok = order == [("hybrid_groups", "CHEMICAL_HYBRID"), ("interleaved_groups", "INTERLEAVED"),
                   ("neighbouring_groups", "NEIGHBOURING")]
    ctx.ob("R05.2", FORM, top, "create_candidates_from_protoclusters", "kinds by pass", ok,
           "groups found by each pass are built with that pass's kind, strongest first", form=str(order))
    pipeline = {t: txt(v[0]) for t in ("hybrid_groups", "interleaved_groups", "neighbouring_groups")
                for v in [bound_from(top, t)] if v}
    flows = [txt(n.value) for n in walk_local(top) if isinstance(n, ast.Assign) and isinstance(n.value, ast.Call)
             and call_name(n.value).startswith("_find_")]
    ok = flows == ["_find_hybrids(unassigned, circular_wrap_point)",
                   "_find_interleaved(unassigned, candidates, circular_wrap_point)",
                   "_find_neighbouring(unassigned, candidates)"]
    ctx.ob("R05.2", FORM, top, "create_candidates_from_protoclusters", "pass inputs", ok,
           "each pass receives the protoclusters not yet absorbed and the candidates built so far", form=str(flows))
    _ = pipeline


# quantities that are lower bounds of a sort key (pointwise, for every protocluster / candidate)
LOWER_BOUNDS = {
    "location.start": {"location.start"},
    "core_location.start": {"core_location.start", "core_start", "location.start"},
}


def _sort_key_of(func: ast.FunctionDef, name: str) -> Optional[str]:
    vals = bound_from(func, name)
    keys = set()
    for val in vals:
        if isinstance(val, ast.Call) and call_name(val) == "sorted":
            key = kwarg(val, "key")
            if key is None:
                keys.add("location.start")
            elif isinstance(key, ast.Lambda):
                body = key.body.elts[0] if isinstance(key.body, ast.Tuple) else key.body
                path = dotted(body)
                if path and "." in path:
                    keys.add(path.partition(".")[2])
                else:
                    return None
            else:
                return None
    if not vals and name in {a.arg for a in func.args.args}:
        return "location.start"   # documented: inputs must be sorted (CDSCollection.__lt__)
    if len(keys) == 1:
        return keys.pop()
    if len(keys) > 1:
        # rebinding with different keys: the one in force is the textually last before use; be conservative
        return None
    return None


def _list_sort_key(ctx: Ctx, func: ast.FunctionDef, cfg: CFG, loop: ast.For) -> Optional[str]:
    """ accessor (relative to an element) the iterated list is sorted by, or None """
    base = loop.iter
    while isinstance(base, (ast.Subscript, ast.BinOp)):
        base = base.value if isinstance(base, ast.Subscript) else base.left
    if isinstance(base, ast.Call) and call_name(base) == "sorted":
        source: Optional[ast.AST] = base
    elif isinstance(base, ast.Name):
        defs = [d for d in cfg.reaching_defs(base.id, cfg.n(loop))]
        if defs == [-1] or (len(defs) == 1 and defs[0] == -1):
            return "location.start" if base.id in {a.arg for a in func.args.args} else None
        values = []
        for d in defs:
            node = cfg.nodes[d].ast if d >= 0 else None
            if isinstance(node, (ast.Assign, ast.AnnAssign)) and node.value is not None:
                values.append(node.value)
            else:
                return None
        if len(values) != 1:
            return None
        source = values[0]
    else:
        return None
    if not (isinstance(source, ast.Call) and call_name(source) == "sorted"):
        return None
    key = kwarg(source, "key")
    if key is None:
        return "location.start"
    resolved = key_function(ctx.repo, FORM, func, key)
    if resolved is None:
        return None
    param, body = resolved
    body = body.elts[0] if isinstance(body, ast.Tuple) and body.elts else body
    path = dotted(body)
    if path and path.split(".")[0] == param and "." in path:
        return path.partition(".")[2]
    return None


def r05_5(ctx: Ctx) -> None:
    for qual in ("_find_hybrids", "_find_interleaved", "_find_neighbouring"):
        func = ctx.fn(FORM, qual)
        cfg = CFG(func)
        for loop in [n for n in walk_local(func) if isinstance(n, ast.For) and isinstance(n.target, ast.Name)]:
            var = loop.target.id
            for brk in [b for b in walk_local(loop) if isinstance(b, ast.Break)
                        and enclosing_loops(b, stop=func) and enclosing_loops(b, stop=func)[0] is loop]:
                inner = [(e, t) for e, t in path_facts(cfg, brk) if any(a is loop for a in _ancestors(e))]
                comparisons = []
                for expr, truth in inner:
                    eff = effective_compare(expr, truth)
                    if eff is None:
                        continue
                    left, op, right = eff
                    resolved = (inline_reaching(cfg, expr, left, keep={var}), op, inline_reaching(cfg, expr, right, keep={var}))
                    turned = oriented(resolved, lambda x: bool(dotted(x)) and dotted(x).split(".")[0] == var)
                    if turned is not None:
                        comparisons.append(turned)
                if len(comparisons) != 1 or len(inner) != 1:
                    continue
                ctx.call_sites += 1
                mine, op, bound = comparisons[0]
                accessor = dotted(mine).partition(".")[2]
                key = _list_sort_key(ctx, func, cfg, loop)
                thing = f"break on {txt(mine)} {op} {txt(bound)}"
                if key is None:
                    ctx.cannot("R05.5", FORM, brk, qual, thing, f"cannot determine the sort key of `{txt(loop.iter)}`")
                    continue
                larger = op in (">", ">=")
                ok = larger and accessor in LOWER_BOUNDS.get(key, set())
                ctx.ob("R05.5", FORM, brk, qual, thing, ok,
                       f"the sweep over `{txt(loop.iter)}` (sorted by {key}) stops early only on a quantity that is a lower "
                       f"bound of the sort key, so every later element fails the test as well",
                       detail="" if ok else f"`{var}.{accessor}` is not a lower bound of the sort key `{key}`: later "
                                            f"elements of the list may still qualify",
                       form=f"for {var} in {txt(loop.iter)}: if {txt(mine)} {op} {txt(bound)}: break   [sort key: {key}]")


def _ancestors(node: ast.AST):
    cur = getattr(node, "_parent", None)
    while cur is not None:
        yield cur
        cur = getattr(cur, "_parent", None)


def r05_4(ctx: Ctx) -> None:
    func = ctx.fn(FORM, "create_candidates_from_protoclusters")
    asserts = [n for n in walk_local(func) if isinstance(n, ast.Assert) and "len(assigned)" in txt(n.test)]
    ok = len(asserts) == 1 and txt(asserts[0].test) in ("len(assigned) == len(protoclusters)",
                                                        "len(protoclusters) == len(assigned)")
    ctx.ob("R05.4", FORM, asserts[0] if asserts else func, "create_candidates_from_protoclusters", "sanity assertion", ok,
           "the closing assertion compares the number of protoclusters assigned with the number supplied", form="")
    # `assigned` collects every member of every candidate returned
    region = []
    for node in walk_local(func):
        if isinstance(node, (ast.Assign, ast.AnnAssign)) and node.value is not None and \
                any(isinstance(t, ast.Name) and t.id == "assigned"
                    for t in (node.targets if isinstance(node, ast.Assign) else [node.target])):
            region.append(txt(node.value))
        elif isinstance(node, ast.Call) and isinstance(node.func, ast.Attribute) and txt(node.func.value) == "assigned" \
                and node.func.attr in ("add", "update"):
            region.append(" ".join([txt(node)] + [f"for {txt(lp.target)} in {txt(lp.iter)}"
                                                   for lp in enclosing_loops(node, stop=func) if isinstance(lp, ast.For)]))
    ok = any(re.search(r"\bin candidates\b", text) and ".protoclusters" in text for text in region)
    ctx.ob("R05.4", FORM, func, "create_candidates_from_protoclusters", "assigned collects members", ok,
           "the assertion counts members of the candidates actually returned", form="; ".join(region))
    helper = ctx.fn(FORM, "create_candidates_from_protoclusters.build_candidates")
    asserts = [n for n in walk_local(helper) if isinstance(n, ast.Assert)]
    ok = False
    hcfg = CFG(helper)
    for a in asserts:
        # what the assertion demands, its path condition included: `kind is SINGLE or the group has several members`
        terms = [ast.UnaryOp(op=ast.Not(), operand=e) if t else e for e, t in path_facts(hcfg, a)] + [a.test]
        form = nnf(ast.BoolOp(op=ast.Or(), values=terms) if len(terms) > 1 else terms[0])
        lits = list(form[1]) if form[0] == "or" else [form]
        if len(lits) != 2 or any(lit[0] != "lit" for lit in lits):
            continue
        single = [lit for lit in lits if lit[2] and re.fullmatch(r"kind (==|is) [\w.]*SINGLE|[\w.]*SINGLE (==|is) kind", lit[1])]
        sizes = []
        for lit in lits:
            cmp_ = effective_compare(ast.parse(lit[1], mode="eval").body, lit[2])
            cmp_ = oriented(cmp_, lambda e: txt(e) == "len(group)") if cmp_ else None
            if cmp_ is not None and (cmp_[1], txt(cmp_[2])) in ((">", "1"), (">=", "2")):
                sizes.append(lit)
        ok = ok or (len(single) == 1 and len(sizes) == 1)
    ctx.ob("R05.4", FORM, helper, "create_candidates_from_protoclusters.build_candidates", "group size", ok,
           "only SINGLE candidates may have one member", form="; ".join(txt(a.test) for a in asserts))
    # every leftover protocluster gets a single unless de-duplicated against a candidate containing it
    singles = [c for c in calls(func) if call_name(c) == "CandidateCluster" and "SINGLE" in txt(c.args[0])]
    ok = False
    shape = ""
    if singles:
        cfg = CFG(func)
        loop = enclosing_loops(singles[0], stop=func)
        ok = bool(loop) and "unassigned" in txt(loop[0].iter)
        if loop:
            inner = [(e, t) for e, t in path_facts(cfg, singles[0])
                     if any(a is loop[0] for a in _ancestors(e))]
            form = facts_nnf(inner)
            shape = str(form)
            var = txt(loop[0].target)
            lits = sorted(form[1], key=str)
            if len(lits) == 1 and lits[0][0] == "or":
                lits = sorted(lits[0][1], key=str)
                names = [l for l in lits if l[0] == "lit" and l[2] is False and l[1].isidentifier()]
                ok = ok and len(lits) == 2 and len(names) == 1 and \
                    ("lit", f"{var} in {names[0][1]}.protoclusters", False) in lits
            else:
                ok = False
    ctx.ob("R05.4", FORM, singles[0] if singles else func, "create_candidates_from_protoclusters", "singles", ok,
           "each protocluster outside hybrid/interleaved groups gets a SINGLE unless a same-coordinate candidate contains it",
           form=shape)
    ext = [c for c in calls(func) if last_attr(c) == "extend" and txt(c.func.value) == "unassigned"]  # type: ignore
    ctx.ob("R05.4", FORM, func, "create_candidates_from_protoclusters", "promoted extras get singles",
           any(txt(c.args[0]) == "singles" for c in ext),
           "protoclusters promoted into an existing candidate also receive a SINGLE", form="")


OVERLAP_TESTS = ("locations_overlap", "overlaps_with", "location_contains_other", "update_if_contained", "contains", "is_contained_by")


def r05_6(ctx: Ctx) -> None:
    """ sweeps over a start-sorted list that look for the elements overlapping a query: (a) a bisection-derived lower bound
        must be the *lower* bisection point (ties), and (b) it must not cut off earlier elements at all - in a list sorted
        by start the elements overlapping a query are not the ones next to its insertion point: an earlier, longer element
        reaches further than a later, shorter one, so `bisect_left(...) - 1` skips it """
    from .bisect_lint import scan_bounds
    from ..index import _walk_functions
    count = 0
    for qual, func in _walk_functions(ctx.repo.mod(FORM).tree, ""):
        bounded = {}
        for node, role, kind, ok in scan_bounds(func):
            count += 1
            bounded[id(node)] = (node, role)
            ctx.ob("R05.6", FORM, node, qual, f"{role} bound of {txt(node)[:50]}", ok,
                   "a forward scan over a sorted list starts at the lower bisection point (bisect_left, minus a margin) so that "
                   "elements tying with the searched key are not skipped",
                   detail="" if ok else f"the {role} bound derives from bisect_{kind}: elements equal to the key are skipped",
                   form=f"{txt(node)}  [{role} bound from bisect_{kind}]")
        # sweeps with an early exit on `start > end` that test overlap / containment
        for loop in [n for n in walk_local(func) if isinstance(n, ast.For)]:
            tests = [c for c in calls(loop) if (call_name(c).split(".")[-1] in OVERLAP_TESTS or last_attr(c) in OVERLAP_TESTS)]
            exits = [b for b in walk_local(loop) if isinstance(b, ast.Break)]
            if not tests or not exits:
                continue
            iterated = [n for n in ast.walk(loop.iter) if isinstance(n, ast.Subscript) and id(n) in bounded and bounded[id(n)][1] == "lower"]
            if not iterated and not isinstance(loop.iter, ast.Name):
                continue
            count += 1
            ok = not iterated
            ctx.ob("R05.6", FORM, loop, qual, f"overlap sweep over {txt(loop.iter)[:40]} starts at the beginning", ok,
                   "a sweep that looks for the elements overlapping a query in a start-sorted list visits every element that "
                   "starts before the query ends: a start at a fixed distance before the bisection point skips an earlier, "
                   "longer element",
                   detail="" if ok else "hybrids h0 [0:40), h1 [50:1050) (core 300-700), h2 [100:200) and a protocluster s (core 650-800) "
                   "whose core overlaps h1's: the look-back lands on h2, h1 is never examined and s stays a single - without the "
                   "unrelated h0 and h2 it joins h1", form=txt(loop.iter))
    if count < 3:
        raise AnalysisError(f"formation.py: expected at least 3 sorted sweeps, found {count}")


def r05_7(ctx: Ctx) -> None:
    """ _merge_sets returns the transitive closure of 'share a member': a set that grew by absorbing another one is compared
        again with the sets it was found disjoint from before (merging until nothing changes, or a union-find) """
    qual = "_merge_sets"
    func = ctx.fn(FORM, qual)
    merges = [c for c in calls(func) if last_attr(c) in ("update", "union") and isinstance(c.func, ast.Attribute)
              and isinstance(c.func.value, ast.Name) and c.args and isinstance(c.args[0], ast.Name)
              and enclosing_loops(c, stop=func)]
    merges += [n for n in walk_local(func) if isinstance(n, ast.AugAssign) and isinstance(n.op, ast.BitOr) and enclosing_loops(n, stop=func)]
    if not merges:
        ctx.ob("R05.7", FORM, func, qual, "merged until nothing changes", True, "merging is delegated", form="", vacuous=True)
        return
    for index, merge in enumerate(merges):
        loops = enclosing_loops(merge, stop=func)
        # the scan that found the overlap is repeated for the grown set: a while loop between the outermost loop and the merge
        repeated = any(isinstance(lp, ast.While) for lp in loops)
        ctx.ob("R05.7", FORM, merge, qual, f"merged until nothing changes#{index}", repeated,
               "after a set has absorbed another one it is compared again with the sets it was disjoint from before, so the "
               "result is the transitive closure and the returned sets are disjoint",
               detail="" if repeated else "a single pass: with hybrid pairs {p1,p5} {p2,p3} {p3,p5} (in start order) {p2,p3} is found "
               "disjoint from {p1,p5} before {p3,p5} is absorbed into it, and is returned next to {p1,p2,p3,p5}",
               form=" > ".join(type(lp).__name__ for lp in reversed(loops)))


def r05_8(ctx: Ctx) -> None:
    """ a protocluster whose core lies inside a hybrid group's core span joins that group - every such group, and each
        group once.  The statement that adds it is governed by the containment test and, at most, by membership in that
        same group: a test on state shared between the groups (the set of still-unassigned protoclusters, which the
        first group to claim a protocluster shrinks) would keep it out of the second group; and because a core span of
        two parts is swept twice, the addition has to be idempotent (a set, or guarded by `not in <that group>`). """
    qual = "_find_hybrids"
    outer = ctx.fn(FORM, qual)
    hosts = [(qual, outer)] + [(f"{qual}.{n.name}", n) for n in walk_local(outer) if isinstance(n, ast.FunctionDef)]
    count = 0
    # containers the sweeps over the groups mutate (shared between the groups)
    shared = {txt(c.func.value) for c in calls(outer) if isinstance(c.func, ast.Attribute) and c.func.attr in ("discard", "remove", "pop")
              and isinstance(c.func.value, ast.Name)}
    for hqual, host in hosts:
        cfg = CFG(host)
        for call in calls(host):
            if not (isinstance(call.func, ast.Attribute) and call.func.attr in ("append", "add") and call.args
                    and isinstance(call.func.value, ast.Name)):
                continue
            facts = path_facts(cfg, call)
            if not any("location_contains_other" in txt(e) or "is_contained_by" in txt(e) for e, _ in facts):
                continue
            count += 1
            group, member = call.func.value.id, txt(call.args[0])
            foreign = sorted({n.id for e, _ in facts for n in ast.walk(e) if isinstance(n, ast.Name) and n.id in shared and n.id != group})
            ctx.ob("R05.8", FORM, call, hqual, "joining a hybrid depends on that hybrid only", not foreign,
                   "a contained protocluster joins every hybrid group whose core span contains its core; the decision reads the "
                   "containment test and the group itself, never state that another group's sweep has changed",
                   detail="" if not foreign else f"also tests `{foreign[0]}`, which the first group to take the protocluster shrinks: "
                   "hybrids {a,b} and {c,d} with overlapping core spans and x inside both give {a,b,x} and {c,d} instead of {a,b,x} "
                   "and {c,d,x}", form=" and ".join(("" if t else "not ") + txt(e)[:60] for e, t in facts))
            idempotent = call.func.attr == "add" or any(
                not t and txt(e) in (f"{member} in {group}",) or t and txt(e) == f"{member} not in {group}" for e, t in facts)
            ctx.ob("R05.8", FORM, call, hqual, "a member joins a group once", idempotent,
                   "a core span that crosses the origin is swept once per part, so the same protocluster can be reached twice: "
                   "the addition is idempotent",
                   detail="" if idempotent else "ring of 1000: hybrid {b, d} with core span 950..150 and a (core 980..30) inside it: the "
                   "chemical hybrid lists (a, a, b, d)", form=txt(call))
    if count < 1:
        raise AnalysisError(f"{qual}: the statement adding a contained protocluster to a hybrid group was not found")


def run(ctx: Ctx) -> None:
    ctx.rule("R05.7", "set merging reaches the transitive closure", floor=1)
    r05_7(ctx)
    ctx.rule("R05.1", "store and lookup keys of the de-duplication table agree", floor=3)
    ctx.rule("R05.2", "each formation pass compares what its kind documents", floor=20)
    ctx.rule("R05.4", "closing sanity assertion and group sizes", floor=5)
    ctx.rule("R05.5", "early exits of sorted sweeps test a lower bound of the sort key", floor=4)
    r05_1(ctx)
    r05_2(ctx)
    r05_4(ctx)
    r05_5(ctx)
    ctx.rule("R05.6", "bisection-derived scan bounds do not skip ties", floor=3)
    r05_6(ctx)
    ctx.rule("R05.8", "a contained protocluster joins every containing hybrid, once", floor=2)
    r05_8(ctx)
    from . import family_e
    family_e.run_for(ctx, "R05.3", [FORM], floor=5,
                     statement="no set of protoclusters reaches an ordered result without a total order")
