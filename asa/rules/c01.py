""" C01 Rule conditions evaluate to their documented boolean meaning """

from __future__ import annotations

import ast
from typing import Dict, List, Optional, Set

from ..astutil import arg_of, call_name, calls, enclosing_loops, guards, kwarg, last_attr, stmt_key, txt, walk_local
from ..cfg import CFG
from ..flow import inline_locals, inline_reaching, bound_from, provenance
from ..index import AnalysisError, ClassInfo, dotted
from ..kernel import OutsideFragment, decide, parse, rename
from ..report import Ctx

PROP = "C01"
RP = "antismash/common/hmm_rule_parser/rule_parser.py"
CP = "antismash/common/hmm_rule_parser/cluster_prediction.py"

EXPLANATION = (
    "Structural necessary conditions of the rule evaluator, each decided for every return site / call site of the "
    "condition classes at once: strict 'closer than cutoff' kernel (R01.1, decided over all orderings), negation "
    "reaches every verdict (R01.2), neighbour data never becomes a reason profile (R01.3, taint from neighbour "
    "iteration to the `matches` argument), cds(...) always evaluates its inner formula locally on a single gene "
    "inside the cutoff (R01.4), and/or fold shapes (R01.5), >= thresholds of minimum/minscore agreeing at both "
    "decision points (R01.6), anchoring requires verdict and non-empty reasons (R01.7), and neighbour scans of "
    "conditions that can hold for a gene without hits range over all genes in range (R01.8)."
    " R01.11: local_only (set by cds(...)) is handed on, or forced to True, at every evaluation step - never left to a callee's default."
    " R01.12: a table keyed by profile name and filled from a gene's hits aggregates (a profile can hit a gene more than once); a dictionary comprehension over the hits is last-wins."
)
UNDECIDED = [
    "truth table of arbitrary condition nestings against the documented formula",
    "minimum() counting as a number across genes",
    "the circular distance value itself (see C04)",
    "which genes are supplied as features_by_id",
]
TRUSTED = ["CPython ast", "asa.cfg", "integer-difference-logic small-model bound (asa.kernel.decide)",
           "operator.xor on bools is exclusive or"]

NEIGHBOUR_SOURCES = ("details.features_by_id", "details.results_by_id")


def condition_classes(ctx: Ctx) -> List[ClassInfo]:
    base = ctx.repo.cls(RP, "Conditions")
    result = [base] + [c for c in ctx.repo.subclasses("Conditions") if c.module.rel == RP]
    return result


def _hardwires_unnegated(info: ClassInfo) -> bool:
    init = next((n for n in info.node.body if isinstance(n, ast.FunctionDef) and n.name == "__init__"), None)
    if init is None:
        return False
    for call in calls(init):
        if call_name(call) == "super().__init__" or (isinstance(call.func, ast.Attribute) and call.func.attr == "__init__"
                                                      and txt(call.func.value) == "super()"):
            first = arg_of(call, 0, "negated")
            if isinstance(first, ast.Constant) and first.value is False:
                return True
    return False


def _condition_met_calls(func: ast.AST) -> List[ast.Call]:
    return [c for c in calls(func) if call_name(c) == "ConditionMet"]


def r01_1(ctx: Ctx) -> None:
    func = ctx.fn(RP, "Details.in_range")
    rets = [n for n in walk_local(func) if isinstance(n, ast.Return) and n.value is not None]
    if len(rets) != 1:
        ctx.cannot("R01.1", RP, func, "Details.in_range", "return", f"{len(rets)} return statements")
        return
    ret = rets[0]
    mapping: Dict[str, str] = {"self.cutoff": "C"}
    for name in {n.id for n in ast.walk(ret.value) if isinstance(n, ast.Name)}:
        values = bound_from(func, name)
        if values and all(isinstance(v, ast.Call) and "distance" in last_attr(v) for v in values):
            mapping[name] = "D"
            for value in values:
                ctx.call_sites += 1
                gs = guards(value, stop=func)

                def plain(expr: ast.AST) -> str:
                    """ the text of the expression with local copies of an attribute (`origin = self.circular_origin`) read through """
                    from ..kernel import subst
                    env = {}
                    for sub in ast.walk(expr):
                        if isinstance(sub, ast.Name) and sub.id not in env:
                            held = bound_from(func, sub.id)
                            if held and len(held) == 1 and isinstance(held[0], (ast.Attribute, ast.Name)):
                                env[sub.id] = held[0]
                    return txt(subst(expr, env)) if env else txt(expr)
                circ = [(t, pol) for t, pol in gs if "circular_origin" in plain(t)]
                has_wrap = kwarg(value, "wrap_point") is not None
                want_wrap = bool(circ) and all(pol == (not isinstance(t, ast.UnaryOp)) for t, pol in circ)
                ok = has_wrap == want_wrap and (not has_wrap or plain(kwarg(value, "wrap_point")) == "self.circular_origin")
                ctx.ob("R01.1", RP, value, "Details.in_range", "distance call " + ("with" if has_wrap else "without") + " wrap",
                       ok, "the ring distance (wrap_point=self.circular_origin) is used iff the circular flag is set",
                       form=f"{txt(value)} under {[(txt(t), p) for t, p in gs]}")
    for call in calls(ret.value):
        if "distance" in last_attr(call):
            mapping[txt(call)] = "D"
    try:
        ok, cex, n = decide(rename(ret.value, mapping), parse("D < C"))
        ctx.ob("R01.1", RP, ret, "Details.in_range", "return", ok,
               "in_range is `distance < cutoff` (strict: 'closer than the rule's cutoff')",
               detail=f"counterexample {cex}" if cex else f"{n} orderings enumerated",
               form=txt(rename(ret.value, mapping)))
    except OutsideFragment as err:
        ctx.cannot("R01.1", RP, ret, "Details.in_range", "return", str(err))
    # role: DetectionRule.detect hands self.cutoff to Details, just_cds forwards cutoff and origin
    detect = ctx.fn(RP, "DetectionRule.detect")
    for call in calls(detect):
        if call_name(call) == "Details":
            cut = arg_of(call, 3, "cutoff")
            circ = arg_of(call, 4, "circular_origin")
            ctx.ob("R01.1", RP, call, "DetectionRule.detect", "Details(cutoff=)", cut is not None and txt(cut) == "self.cutoff",
                   "the evaluation context's cutoff is the rule's own cutoff", form=txt(call))
            ctx.ob("R01.1", RP, call, "DetectionRule.detect", "Details(circular_origin=)",
                   circ is not None and txt(circ) == "circular_origin",
                   "the circular origin handed to detect() reaches the evaluation context", form=txt(call))
    just = ctx.fn(RP, "Details.just_cds")
    for call in calls(just):
        if call_name(call) == "Details":
            cut = arg_of(call, 3, "cutoff")
            circ = arg_of(call, 4, "circular_origin")
            ok = cut is not None and txt(cut) == "self.cutoff" and circ is not None and txt(circ) == "self.circular_origin" \
                and txt(arg_of(call, 1)) == "self.features_by_id" and txt(arg_of(call, 2)) == "self.results_by_id"
            ctx.ob("R01.1", RP, call, "Details.just_cds", "Details(...)", ok,
                   "just_cds keeps features, results, cutoff and circular origin, changing only the focus gene",
                   form=txt(call))


def _negation_idiom(expr: ast.AST) -> Optional[str]:
    text = txt(expr)
    if text == "self.negated":
        return "neg"
    if text == "not self.negated":
        return "pos"
    if isinstance(expr, ast.Call) and call_name(expr) == "xor" and len(expr.args) == 2:
        if any(txt(a) == "self.negated" for a in expr.args):
            return "xor"
    return None


def r01_2(ctx: Ctx) -> None:
    for info in condition_classes(ctx):
        method = next((n for n in info.node.body if isinstance(n, ast.FunctionDef) and n.name == "is_satisfied"), None)
        if method is None:
            continue
        qual = f"{info.name}.is_satisfied"
        ctx.functions.add(f"{RP}::{qual}")
        exempt = _hardwires_unnegated(info)
        sites = _condition_met_calls(method)
        if not sites:
            ctx.cannot("R01.2", RP, method, qual, "verdicts", "no ConditionMet(...) construction found")
            continue
        idioms = []
        for index, call in enumerate(sites):
            ctx.call_sites += 1
            first = arg_of(call, 0, "met")
            if isinstance(first, ast.Name):
                at_stmt = next((a for a in _ancestors(call) if isinstance(a, ast.stmt)), call)
                first = inline_reaching(CFG(method), at_stmt, first, max_depth=0)   # a verdict named before it is returned
            idiom = _negation_idiom(first) if first is not None else None
            idioms.append(idiom)
            if exempt:
                ctx.ob("R01.2", RP, call, qual, f"verdict#{index}", True,
                       "class hard-wires negated=False in its constructor; verdict needs no negation",
                       form=txt(call)[:120])
                continue
            ctx.ob("R01.2", RP, call, qual, f"verdict#{index}", idiom is not None,
                   "the verdict's truth value depends on self.negated through xor(self.negated, X), "
                   "`not self.negated` or `self.negated`", form=txt(call)[:120])
        if exempt:
            continue
        plain = [i for i in idioms if i in ("pos", "neg")]
        if plain:
            both = "pos" in plain and "neg" in plain
            ctx.ob("R01.2", RP, method, qual, "polarity pair", both,
                   "when the non-xor idiom is used both polarities occur (a found term yields `not negated`, an absent one `negated`)",
                   form=f"idioms={idioms}")


def _tainted_names(func: ast.AST) -> Set[str]:
    """ names that (transitively) carry data of genes other than the focus gene """
    tainted: Set[str] = set()
    for node in walk_local(func):
        iters = []
        if isinstance(node, ast.For):
            iters.append((node.iter, node.target))
        elif isinstance(node, (ast.ListComp, ast.SetComp, ast.DictComp, ast.GeneratorExp)):
            for gen in node.generators:
                iters.append((gen.iter, gen.target))
        for it, target in iters:
            base = it.func.value if isinstance(it, ast.Call) and isinstance(it.func, ast.Attribute) \
                and it.func.attr in ("items", "values", "keys") else it
            if dotted(base) in NEIGHBOUR_SOURCES:
                tainted |= {n.id for n in ast.walk(target) if isinstance(n, ast.Name)}
    changed = True
    while changed:
        changed = False
        for node in walk_local(func):
            targets: List[ast.AST] = []
            value: Optional[ast.AST] = None
            if isinstance(node, ast.Assign):
                targets, value = node.targets, node.value
            elif isinstance(node, ast.AugAssign):
                targets, value = [node.target], node.value
            elif isinstance(node, ast.AnnAssign) and node.value is not None:
                targets, value = [node.target], node.value
            elif isinstance(node, ast.For):
                targets, value = [node.target], node.iter
            elif isinstance(node, ast.Expr) and isinstance(node.value, ast.Call) \
                    and isinstance(node.value.func, ast.Attribute) \
                    and node.value.func.attr in ("add", "update", "append", "extend"):
                targets, value = [node.value.func.value], node.value
            if value is None:
                continue
            used = {n.id for n in ast.walk(value) if isinstance(n, ast.Name)}
            # a subscript of the sources by the focus gene is not neighbour data
            if used & tainted:
                for target in targets:
                    root = target
                    while isinstance(root, (ast.Subscript, ast.Attribute)):
                        root = root.value
                    for n in ([root] if isinstance(root, ast.Name) else
                              [x for x in ast.walk(target) if isinstance(x, ast.Name)]):
                        if n.id not in tainted and n.id not in ("self", "details"):
                            tainted.add(n.id)
                            changed = True
    return tainted


def r01_3(ctx: Ctx) -> None:
    for info in condition_classes(ctx):
        method = next((n for n in info.node.body if isinstance(n, ast.FunctionDef) and n.name == "is_satisfied"), None)
        if method is None:
            continue
        qual = f"{info.name}.is_satisfied"
        tainted = _tainted_names(method)
        for index, call in enumerate(_condition_met_calls(method)):
            matches = arg_of(call, 1, "matches")
            if matches is None:
                ctx.ob("R01.3", RP, call, qual, f"matches#{index}", True,
                       "verdict carries no reason profiles", form=txt(call)[:100], vacuous=True)
                continue
            used = {n.id for n in ast.walk(matches) if isinstance(n, ast.Name)}
            bad = used & tainted
            ctx.ob("R01.3", RP, call, qual, f"matches#{index}", not bad,
                   "the reason profiles (`matches`) of a verdict never derive from neighbouring genes' data",
                   detail=f"tainted by neighbour iteration: {sorted(bad)}" if bad else "",
                   form=f"matches={txt(matches)}; neighbour-tainted names={sorted(tainted)}")


def r01_10(ctx: Ctx) -> None:
    """ every kind of condition the parser lets inside cds(...) evaluates on the one gene alone when `local_only` is set:
        its neighbour scan (the calls of details.in_range) is unreachable under local_only """
    from ..flow import path_facts
    parse = ctx.fn(RP, "Parser._parse_single_condition")
    pcfg = CFG(parse)
    gate = parse.args.args[1].arg if len(parse.args.args) > 1 else "allow_cds"
    # classes built on a path that needs `allow_cds` cannot occur inside cds(...)
    makers = {"_parse_minimum": "MinimumCondition", "_parse_score": "ScoreCondition", "_parse_cds": None, "_parse_group": None}
    inside, outside = set(), set()
    for call in calls(parse):
        name = call_name(call).split(".")[-1]
        cls = name if name.endswith("Condition") or name == "Conditions" else makers.get(name)
        if cls is None:
            continue
        stmt = next(a for a in _ancestors(call) if isinstance(a, ast.stmt))
        needs_gate = any(t and txt(e) == gate for e, t in path_facts(pcfg, stmt))
        (outside if needs_gate else inside).add(cls)
    if not inside:
        raise AnalysisError("Parser._parse_single_condition: no condition class found that may occur inside cds(...)")
    for cls in sorted(inside | outside):
        try:
            func = ctx.fn(RP, f"{cls}.is_satisfied")
        except AnalysisError:
            continue
        cfg = CFG(func)
        scans = [c for c in calls(func) if last_attr(c) == "in_range"]
        if not scans:
            continue
        if cls in outside and cls not in inside:
            ctx.ob("R01.10", RP, func, f"{cls}.is_satisfied", "neighbour scan of a condition kept out of cds()", True,
                   "the parser only builds this condition where cds(...) is not being parsed", form=f"built under `{gate}`")
            continue
        for index, scan in enumerate(scans):
            stmt = next(a for a in _ancestors(scan) if isinstance(a, ast.stmt))
            guarded = any((txt(e) == "local_only" and not t) or (txt(e) == "not local_only" and t) for e, t in path_facts(cfg, stmt))
            ctx.ob("R01.10", RP, scan, f"{cls}.is_satisfied", f"neighbour scan#{index} unreachable under local_only", guarded,
                   "inside cds(...) a condition is decided on the one gene alone: neighbours are consulted only when "
                   "local_only is not set",
                   detail="" if guarded else "`cds(a and minscore(b, 50))` with g1 hitting a only and g2 (3 kb away) hitting b with score "
                   "100 reports g1 as an anchor although no single gene satisfies the group", form=txt(scan))


def r01_4_8(ctx: Ctx) -> None:
    qual = "CDSCondition.is_satisfied"
    func = ctx.fn(RP, qual)
    cfg = CFG(func)
    evals = [c for c in calls(func) if last_attr(c) == "are_subconditions_satisfied"]
    if len(evals) < 2:
        raise AnalysisError(f"{qual}: expected the own-gene and the neighbour evaluation of the inner formula")
    for index, call in enumerate(evals):
        ctx.call_sites += 1
        local = arg_of(call, 1, "local_only")
        ctx.ob("R01.4", RP, call, qual, f"inner evaluation#{index} local_only",
               isinstance(local, ast.Constant) and local.value is True,
               "cds(...) evaluates its inner formula with local_only=True", form=txt(call))
        det = arg_of(call, 0, "details")
        if det is not None:
            det = inline_locals(func, det)
        is_just = isinstance(det, ast.Call) and last_attr(det) == "just_cds" and txt(det.func.value) == "details"  # type: ignore
        ctx.ob("R01.4", RP, call, qual, f"inner evaluation#{index} context", bool(is_just),
               "the inner formula is evaluated in a context focused on one single gene (details.just_cds(g))",
               form=txt(det) if det is not None else "")
        loops = enclosing_loops(call, stop=func)
        if not loops:
            gene = txt(det.args[0]) if is_just and det.args else ""  # type: ignore[union-attr]
            ctx.ob("R01.4", RP, call, qual, f"inner evaluation#{index} own gene", gene == "details.cds",
                   "outside the neighbour scan the gene evaluated is the focus gene itself", form=gene)
            continue
        loop = loops[0]
        # R01.8 domain of the scan
        base = loop.iter.func.value if isinstance(loop.iter, ast.Call) and isinstance(loop.iter.func, ast.Attribute) \
            and loop.iter.func.attr in ("items", "keys", "values") else loop.iter  # type: ignore[union-attr]
        ctx.ob("R01.8", RP, loop, qual, "neighbour scan domain", dotted(base) == "details.features_by_id",
               "a cds(...) group can hold for a gene without any hit (negated inner terms), so the neighbour scan "
               "ranges over every gene in range (details.features_by_id), not only genes with hits",
               form=f"for {txt(loop.target)} in {txt(loop.iter)}")
        # guard: on every path from the loop header to the evaluation the range test has come out true (whatever the
        # spelling: its own `if`, an early `continue` on its negation, or one operand of a merged `and`)
        from ..flow import path_facts as _facts
        stmt_of_call = next(a for a in _ancestors(call) if isinstance(a, ast.stmt))
        inside = [(e, t) for e, t in _facts(cfg, stmt_of_call) if any(a is loop for a in _ancestors(e))]
        ranges = [e for e, t in inside if t and isinstance(e, ast.Call) and last_attr(e) == "in_range"
                  and txt(e.func.value) == "details"]  # type: ignore[attr-defined]
        loopvars = {n.id for n in ast.walk(loop.target) if isinstance(n, ast.Name)}
        for inner in ranges:
            dep = any(loopvars & {n.id for n in ast.walk(a) if isinstance(n, ast.Name)} for a in inner.args)
            ctx.ob("R01.4", RP, inner, qual, "in_range operands", dep and len(inner.args) == 2,
                   "the range test compares the focus gene with the scanned gene", form=txt(inner))
        ctx.ob("R01.4", RP, call, qual, f"inner evaluation#{index} in range", bool(ranges),
               "every path from the scan's loop header to the neighbour evaluation passes details.in_range(...) == True",
               form="; ".join(("" if t else "not ") + txt(e)[:60] for e, t in inside))
        gene = txt(det.args[0]) if is_just and det.args else ""  # type: ignore[union-attr]
        loopvars = {n.id for n in ast.walk(loop.target) if isinstance(n, ast.Name)}
        ctx.ob("R01.4", RP, call, qual, f"inner evaluation#{index} scanned gene", gene in loopvars,
               "the neighbour evaluation focuses on the scanned gene", form=gene)
    # MinimumCondition scans all genes too (hits looked up with a default)
    mfunc = ctx.fn(RP, "MinimumCondition.is_satisfied")
    mloops = [n for n in walk_local(mfunc) if isinstance(n, ast.For)]
    for loop in mloops:
        base = loop.iter.func.value if isinstance(loop.iter, ast.Call) and isinstance(loop.iter.func, ast.Attribute) else loop.iter
        if dotted(base) in NEIGHBOUR_SOURCES:
            from ..flow import path_facts as _facts2
            mcfg = CFG(mfunc)
            uses_in_range = any(last_attr(c) == "in_range" for c in calls(loop)) or \
                any(t and isinstance(e, ast.Call) and last_attr(e) == "in_range" for e, t in _facts2(mcfg, loop))
            ctx.ob("R01.8", RP, loop, "MinimumCondition.is_satisfied", "neighbour scan guarded", uses_in_range,
                   "minimum() counts only genes inside the cutoff", form=f"for {txt(loop.target)} in {txt(loop.iter)}")
    for cls_name in ("SingleCondition", "ScoreCondition"):
        sfunc = ctx.fn(RP, f"{cls_name}.is_satisfied")
        for loop in [n for n in walk_local(sfunc) if isinstance(n, ast.For)]:
            base = loop.iter.func.value if isinstance(loop.iter, ast.Call) and isinstance(loop.iter.func, ast.Attribute) else loop.iter
            if dotted(base) in NEIGHBOUR_SOURCES:
                uses_in_range = any(last_attr(c) == "in_range" for c in calls(loop))
                ctx.ob("R01.8", RP, loop, f"{cls_name}.is_satisfied", "neighbour scan guarded", uses_in_range,
                       "a neighbour's profile counts only when the neighbour is inside the cutoff",
                       form=f"for {txt(loop.target)} in {txt(loop.iter)}")


def _accumulator_updates(func: ast.AST, name: str) -> List[ast.AST]:
    result = []
    for node in walk_local(func):
        if isinstance(node, ast.Assign) and any(isinstance(t, ast.Name) and t.id == name for t in node.targets):
            result.append(node)
        elif isinstance(node, ast.AugAssign) and isinstance(node.target, ast.Name) and node.target.id == name:
            result.append(node)
        elif isinstance(node, ast.AnnAssign) and isinstance(node.target, ast.Name) and node.target.id == name \
                and node.value is not None:
            result.append(node)
    return result


def _ancestors(node: ast.AST):
    cur = getattr(node, "_parent", None)
    while cur is not None:
        yield cur
        cur = getattr(cur, "_parent", None)


def _fold(ctx: Ctx, qual: str, kind: str) -> None:
    func = ctx.fn(RP, qual)
    sites = [c for c in _condition_met_calls(func) if not _negation_idiom(arg_of(c, 0, "met") or ast.Constant(0))]
    if not sites:
        raise AnalysisError(f"{qual}: no accumulated verdict found")
    fcfg = CFG(func)
    for call in sites:
        acc = arg_of(call, 0, "met")
        resolved = inline_reaching(fcfg, call, acc) if acc is not None else None
        if isinstance(resolved, ast.Call) and call_name(resolved) in ("all", "any"):
            ok = call_name(resolved) == ("all" if kind == "and" else "any")
            # the folded values are the sub-verdicts' truth values
            gen = resolved.args[0] if resolved.args else None
            ok = ok and isinstance(gen, (ast.GeneratorExp, ast.ListComp)) and (
                txt(gen.elt).endswith(".met") or "get_satisfied" in txt(gen.elt)) and not gen.generators[0].ifs
            ctx.ob("R01.5", RP, call, qual, "fold", ok, f"'{kind}' combines sub-verdicts with {kind}", form=txt(resolved))
            _fold_operands(ctx, func, qual)
            continue
        if isinstance(acc, ast.Constant) and isinstance(acc.value, bool):
            # short-circuit form: the absorbing verdict (False for 'and') is returned under the fact that one operand
            # gave it, the other verdict only once no operand did (outside the loop over the operands)
            from ..flow import path_facts
            stmt = next((a for a in _ancestors(call) if isinstance(a, ast.stmt)), None)
            absorbing = acc.value is (kind != "and")
            if absorbing:
                ok = stmt is not None and any(txt(e).endswith(".met") and truth == (kind != "and")
                                              for e, truth in path_facts(fcfg, stmt, fresh_only=True))
            else:
                ok = stmt is not None and not enclosing_loops(stmt, stop=func) and \
                    any(isinstance(c2, ast.Call) and isinstance(arg_of(c2, 0, "met"), ast.Constant)
                        and arg_of(c2, 0, "met").value is (kind != "and") for c2 in sites)
            ctx.ob("R01.5", RP, call, qual, f"fold ({acc.value})", ok,
                   f"a constant verdict of an '{kind}' chain is returned only when the operands' verdicts decide it", form=txt(call)[:80])
            if call is sites[-1]:
                _fold_operands(ctx, func, qual)
            continue
        if not isinstance(acc, ast.Name):
            ctx.cannot("R01.5", RP, call, qual, "fold", f"verdict is neither a name nor all()/any(): {txt(acc)}")
            continue
        updates = _accumulator_updates(func, acc.id)
        init_ok, step_ok, forms = False, True, []
        for upd in updates:
            forms.append(stmt_key(upd))
            if isinstance(upd, (ast.Assign, ast.AnnAssign)) and isinstance(upd.value, ast.Constant):
                if upd.value.value is (kind == "and"):
                    init_ok = True
                    continue
                # the absorbing constant assigned under the fact that a sub-verdict is that constant
                # (`if not result.met: met = False`) is the same step as `met = met and result.met`
                from ..flow import path_facts as _pf
                absorbed = any(txt(e).endswith(".met") and truth == (kind != "and") for e, truth in _pf(fcfg, upd, fresh_only=True))
                if not absorbed:
                    step_ok = False
                continue
            if isinstance(upd, ast.AugAssign):
                good = isinstance(upd.op, ast.BitAnd if kind == "and" else ast.BitOr)
            elif isinstance(upd, ast.Assign) and isinstance(upd.value, ast.BoolOp):
                good = isinstance(upd.value.op, ast.And if kind == "and" else ast.Or) \
                    and any(txt(v) == acc.id for v in upd.value.values)
            else:
                good = False
            # the combined operand is a sub-verdict's truth value
            operand = upd.value if isinstance(upd, ast.AugAssign) else \
                next((v for v in upd.value.values if txt(v) != acc.id), None)  # type: ignore[union-attr]
            good = good and operand is not None and (txt(operand).endswith(".met") or "get_satisfied" in txt(operand))
            step_ok = step_ok and good
        ctx.ob("R01.5", RP, call, qual, "fold", init_ok and step_ok and len(updates) >= 2,
               f"the '{kind}' accumulator starts {kind == 'and'} and is only {kind}-combined with sub-verdicts",
               form="; ".join(forms))
        # matches merged by union
        matches = arg_of(call, 1, "matches")
        if isinstance(matches, ast.Name):
            ups = _accumulator_updates(func, matches.id)
            ups += [n for n in walk_local(func) if isinstance(n, ast.Expr) and isinstance(n.value, ast.Call)
                    and isinstance(n.value.func, ast.Attribute) and txt(n.value.func.value) == matches.id]
            union = all((isinstance(u, ast.AugAssign) and isinstance(u.op, ast.BitOr) and txt(u.value).endswith(".matches"))
                        or (isinstance(u, ast.Expr) and u.value.func.attr == "update" and len(u.value.args) == 1  # type: ignore
                            and txt(u.value.args[0]).endswith(".matches"))  # type: ignore[attr-defined]
                        or (isinstance(u, (ast.Assign, ast.AnnAssign)) and txt(u.value) in ("set()", "set([])"))
                        for u in ups) and len(ups) >= 2
            ctx.ob("R01.5", RP, call, qual, "matches union", union,
                   "reason profiles of the operands are merged by set union", form="; ".join(stmt_key(u) for u in ups))
        _fold_operands(ctx, func, qual)


def _fold_operands(ctx: Ctx, func: ast.AST, qual: str) -> None:
    # the operands folded are all operands, each evaluated once with the same context
    comp = [n for n in walk_local(func) if isinstance(n, (ast.ListComp, ast.GeneratorExp))]
    ok_ops = any("self.operands" in txt(c.generators[0].iter) and "get_satisfied(details, local_only)" in txt(c.elt)
                 and not c.generators[0].ifs for c in comp)
    form = "; ".join(txt(c) for c in comp)
    if not ok_ops:
        # loop form: every iteration evaluates its operand and nothing leaves the loop early - the reason profiles and
        # ancillary hits of *all* operands reach the enclosing group, whatever the verdict
        for loop in [n for n in walk_local(func) if isinstance(n, ast.For) and "self.operands" in txt(n.iter)]:
            evaluated = any(isinstance(c, ast.Call) and last_attr(c) == "get_satisfied" and txt(c.func.value) == txt(loop.target)
                            and [txt(a) for a in c.args] == ["details", "local_only"] for c in calls(loop))
            exits = [n for n in walk_local(loop) if isinstance(n, (ast.Return, ast.Break, ast.Continue))]
            ok_ops = evaluated and not exits
            form = f"for {txt(loop.target)} in {txt(loop.iter)}" + (f" with early exit `{stmt_key(exits[0])}`" if exits else "")
    ctx.ob("R01.5", RP, func, qual, "operands", ok_ops,
           "every operand is evaluated, with the caller's details and local_only (no operand is skipped: its reason profiles "
           "and ancillary hits feed the enclosing group even when the chain's verdict is already decided)", form=form)


def r01_5(ctx: Ctx) -> None:
    _fold(ctx, "AndCondition.is_satisfied", "and")
    _fold(ctx, "Conditions.are_subconditions_satisfied", "or")
    # single-operand shortcut delegates to that operand unchanged
    func = ctx.fn(RP, "Conditions.are_subconditions_satisfied")
    from ..flow import fact_texts
    scfg = CFG(func)
    singles = [r for r in walk_local(func) if isinstance(r, ast.Return) and r.value is not None
               and fact_texts(scfg, r) & {"len(self.sub_conditions) == 1", "1 == len(self.sub_conditions)"}]
    ok = len(singles) == 1 and txt(inline_reaching(scfg, singles[0], singles[0].value)) == \
        "self.sub_conditions[0].get_satisfied(details, local_only)"
    first = singles[0] if singles else func
    ctx.ob("R01.5", RP, first, "Conditions.are_subconditions_satisfied", "single operand", ok,
           "a group with one operand is that operand's verdict", form=stmt_key(first) if singles else "")
    base = ctx.fn(RP, "Conditions.is_satisfied")
    site = _condition_met_calls(base)
    group_verdict = None
    if len(site) == 1:
        at_stmt = next((a for a in _ancestors(site[0]) if isinstance(a, ast.stmt)), site[0])
        group_verdict = arg_of(site[0], 0, "met")
        if isinstance(group_verdict, ast.Name):   # a verdict named before it is returned: read one step through
            group_verdict = inline_reaching(CFG(base), at_stmt, group_verdict, max_depth=0)
    ok = len(site) == 1 and _negation_idiom(group_verdict) == "xor" and \
        txt(group_verdict) in ("xor(self.negated, subs.met)", "xor(subs.met, self.negated)")
    ctx.ob("R01.5", RP, base, "Conditions.is_satisfied", "group negation", ok,
           "a (possibly negated) group is xor(negated, verdict of its sub-conditions)",
           form=txt(site[0]) if site else "")


def _derived_from_options(func: ast.AST) -> set:
    """ names that hold listed profiles found on a gene: bound to an intersection with the condition's options, copied
        from such a name, a dictionary such sets are stored into, or the variable of a loop over such a dictionary """
    tainted: set = set()
    changed = True

    def is_tainted(expr: ast.AST) -> bool:
        text = txt(expr)
        if "intersection" in text and "options" in text:
            return True
        return any(isinstance(n, ast.Name) and n.id in tainted for n in ast.walk(expr))
    while changed:
        changed = False
        for node in walk_local(func):
            new = set()
            if isinstance(node, (ast.Assign, ast.AnnAssign)) and getattr(node, "value", None) is not None and is_tainted(node.value):
                for target in (node.targets if isinstance(node, ast.Assign) else [node.target]):
                    base = target
                    while isinstance(base, (ast.Subscript, ast.Attribute)):
                        base = base.value
                    if isinstance(base, ast.Name):
                        new.add(base.id)
            elif isinstance(node, ast.AugAssign) and is_tainted(node.value):
                base = node.target
                while isinstance(base, (ast.Subscript, ast.Attribute)):
                    base = base.value
                if isinstance(base, ast.Name) and not (isinstance(node.value, ast.Call) and call_name(node.value) == "len"):
                    new.add(base.id)
            elif isinstance(node, ast.Call) and last_attr(node) in ("update", "add", "append", "extend") and node.args \
                    and is_tainted(node.args[0]):
                base = node.func.value  # type: ignore[attr-defined]
                while isinstance(base, (ast.Subscript, ast.Attribute)):
                    base = base.value
                if isinstance(base, ast.Name):
                    new.add(base.id)
            elif isinstance(node, ast.For) and is_tainted(node.iter):
                new |= {n.id for n in ast.walk(node.target) if isinstance(n, ast.Name)}
            if new - tainted:
                tainted |= new
                changed = True
    return tainted


def r01_6(ctx: Ctx) -> None:
    qual = "MinimumCondition.is_satisfied"
    func = ctx.fn(RP, qual)
    from ..flow import path_facts
    cfg = CFG(func)
    returns = [n for n in walk_local(func) if isinstance(n, ast.Return) and isinstance(n.value, ast.Call)
               and call_name(n.value) == "ConditionMet"]
    if len(returns) < 2:
        raise AnalysisError(f"{qual}: ConditionMet returns not found")
    for index, ret in enumerate(returns):
        idiom = _negation_idiom(arg_of(ret.value, 0, "met") or ast.Constant(0))
        if idiom not in ("pos", "neg"):
            ctx.cannot("R01.6", RP, ret, qual, f"return#{index}", f"verdict polarity not recognised: {txt(ret.value)}")
            continue
        facts = [(e, t) for e, t in path_facts(cfg, ret, fresh_only=True) if "self.count" in txt(e)]
        mapping = {"self.count": "K"}
        terms = []
        for expr, truth in facts:
            for name in {n.id for n in ast.walk(expr) if isinstance(n, ast.Name)} - {"self"}:
                mapping[name] = "N"
            terms.append(expr if truth else ast.UnaryOp(op=ast.Not(), operand=expr))
        if not terms:
            ctx.ob("R01.6", RP, ret, qual, f"return#{index}", False,
                   "every verdict of minimum(n, [...]) is decided by a comparison of the found count with n",
                   detail="no count-vs-minimum test governs this return", form=txt(ret.value))
            continue
        cond = terms[0] if len(terms) == 1 else ast.BoolOp(op=ast.And(), values=terms)
        want = "N >= K" if idiom == "pos" else "N < K"
        try:
            ok, cex, n = decide(rename(cond, mapping), parse(want))
            ctx.ob("R01.6", RP, ret, qual, f"return#{index} ({idiom})", ok,
                   "minimum(n, [...]) is satisfied exactly when the number of listed profiles found is >= n",
                   detail=f"counterexample {cex}" if cex else f"{n} orderings", form=f"{txt(rename(cond, mapping))} => {idiom}")
        except OutsideFragment as err:
            ctx.cannot("R01.6", RP, ret, qual, f"return#{index}", str(err))
    # the count accumulates by += len(new hits) of in-range genes, starting from the own-gene hits
    incs = [n for n in walk_local(func) if isinstance(n, ast.AugAssign) and isinstance(n.op, ast.Add)]
    found = _derived_from_options(func)
    ok = len(incs) == 1 and isinstance(incs[0].value, ast.Call) and call_name(incs[0].value) == "len" and \
        any(isinstance(x, ast.Name) and x.id in found for x in ast.walk(incs[0].value))
    ctx.ob("R01.6", RP, incs[0] if incs else func, qual, "count accumulation", ok,
           "neighbour contributions add the number of listed profiles found in that neighbour",
           form="; ".join(stmt_key(i) for i in incs))
    qual = "ScoreCondition.is_satisfied"
    func = ctx.fn(RP, qual)
    methods = [f for q, f in ctx.repo.functions(RP) if q.startswith("ScoreCondition.")]
    comps = [n for m in methods for n in ast.walk(m) if isinstance(n, ast.Compare) and "bitscore" in txt(n)]
    if not comps:
        raise AnalysisError("ScoreCondition: no bitscore comparison found")
    forms = set()
    for index, comp in enumerate(comps):
        mapping = {"self.score": "S"}
        for node in ast.walk(comp):
            if isinstance(node, ast.Attribute) and node.attr == "bitscore" and dotted(node):
                mapping[dotted(node)] = "B"
        try:
            ok, cex, n = decide(rename(comp, mapping), parse("B >= S"))
            forms.add(txt(rename(comp, mapping)))
            # conjoined with identity of the profile
            par = getattr(comp, "_parent", None)
            conj = isinstance(par, ast.BoolOp) and isinstance(par.op, ast.And) and \
                any("query_id == self.name" in txt(v) or "self.name == " in txt(v) for v in par.values)
            ctx.ob("R01.6", RP, comp, qual, f"threshold#{index}", ok and conj,
                   "minscore(p, s) needs a hit of p with bitscore >= s",
                   detail=f"counterexample {cex}" if cex else f"{n} orderings",
                   form=txt(par) if par is not None else txt(comp))
        except OutsideFragment as err:
            ctx.cannot("R01.6", RP, comp, qual, f"threshold#{index}", str(err))
    ctx.ob("R01.6", RP, func, qual, "sibling thresholds", len(forms) == 1,
           "own-gene and neighbour decision points use the same score test", form=str(sorted(forms)))


def r01_7(ctx: Ctx) -> None:
    func = ctx.fn(CP, "apply_cluster_rules")
    verdicts = set()
    for node in walk_local(func):
        if isinstance(node, ast.Assign) and isinstance(node.value, ast.Call) and last_attr(node.value) == "detect":
            verdicts |= {t.id for t in node.targets if isinstance(t, ast.Name)}
    if len(verdicts) != 1:
        raise AnalysisError("apply_cluster_rules: verdict variable of rule.detect(...) not found")
    verdict = verdicts.pop()
    from ..flow import fact_texts, subscript_stores
    cfg = CFG(func)
    stores = [(c, subject) for c, subject in subscript_stores(func, func) if isinstance(c, ast.Call)]
    if len(stores) < 4:
        raise AnalysisError("apply_cluster_rules: accumulator stores not found")
    for index, (call, subject) in enumerate(stores):
        ctx.call_sites += 1
        conj = fact_texts(cfg, call)
        ok = (f"{verdict}.met" in conj or verdict in conj) and f"{verdict}.matches" in conj
        ctx.ob("R01.7", CP, call, "apply_cluster_rules", f"store#{index} {txt(subject.value)}", ok,
               "a gene is registered for a rule only when the verdict is met AND it has at least one reason profile",
               form=f"{txt(call)} under {sorted(conj)}")
        loops = enclosing_loops(call, stop=func)
        inner = [lp for lp in loops if isinstance(lp, ast.For) and "ancillary_hits" in txt(lp.iter)]
        args_names = {n.id for a in call.args for n in ast.walk(a) if isinstance(n, ast.Name)}
        key_names = {n.id for n in ast.walk(subject) if isinstance(n, ast.Name)}
        if inner:
            lp = inner[0]
            ok2 = txt(lp.iter).startswith(f"{verdict}.ancillary_hits")
            ctx.ob("R01.7", CP, call, "apply_cluster_rules", f"store#{index} neighbour source", ok2,
                   "neighbouring genes are registered only from the ancillary hits of that same verdict",
                   form=f"for {txt(lp.target)} in {txt(lp.iter)}")
        else:
            ok3 = f"{verdict}.matches" in txt(call) or "cds_name" in (args_names | key_names)
            ctx.ob("R01.7", CP, call, "apply_cluster_rules", f"store#{index} own gene", ok3,
                   "outside the ancillary loop the gene registered is the gene evaluated", form=txt(call))


def _sources_through_cache(func: ast.AST, name: str) -> List[ast.AST]:
    """ values bound to `name`, looking through a per-key cache: `a, b, c = cache[k]` with `cache[k] = (x, y, z)`
        makes the values of x the values of a """
    direct = [v for v in bound_from(func, name) if not isinstance(v, ast.Subscript)]
    if direct:
        return direct
    out: List[ast.AST] = []

    def tuples(expr: ast.AST, depth: int = 0) -> List[ast.Tuple]:
        """ the tuple displays that `expr` may hold, looking through locals and through a keyed cache """
        if depth > 5:
            return []
        if isinstance(expr, ast.Tuple):
            return [expr]
        if isinstance(expr, ast.Name):
            found: List[ast.Tuple] = []
            for value in bound_from(func, expr.id):
                found += tuples(value, depth + 1)
            return found
        cache = None
        if isinstance(expr, ast.Subscript):
            cache = txt(expr.value)
        elif isinstance(expr, ast.Call) and last_attr(expr) == "get" and isinstance(expr.func, ast.Attribute):
            cache = txt(expr.func.value)
        if cache is None:
            return []
        found = []
        for store in walk_local(func):
            if isinstance(store, ast.Assign) and isinstance(store.targets[0], ast.Subscript) and txt(store.targets[0].value) == cache:
                found += tuples(store.value, depth + 1)
        return found
    for node in walk_local(func):
        if isinstance(node, ast.Assign) and isinstance(node.targets[0], ast.Tuple):
            names = [txt(e) for e in node.targets[0].elts]
            if name not in names:
                continue
            index = names.index(name)
            for display in tuples(node.value):
                if len(display.elts) != len(names):
                    continue
                elem = display.elts[index]
                out += [v for v in bound_from(func, elem.id)] if isinstance(elem, ast.Name) and elem.id != name else [elem]
    return out


def _names_holding(func: ast.AST, value: ast.AST) -> Set[str]:
    """ the locals a given value expression is assigned to """
    out: Set[str] = set()
    for node in walk_local(func):
        if isinstance(node, (ast.Assign, ast.AnnAssign)) and getattr(node, "value", None) is value:
            for target in (node.targets if isinstance(node, ast.Assign) else [node.target]):
                if isinstance(target, ast.Name):
                    out.add(target.id)
    return out


def r01_9(ctx: Ctx) -> None:
    """ the evaluation context holds *every* gene in range, hits or not """
    func = ctx.fn(CP, "apply_cluster_rules", inline=True)
    cfg = CFG(func)
    detects = [c for c in calls(func) if last_attr(c) == "detect"]
    if len(detects) != 1:
        raise AnalysisError("apply_cluster_rules: rule.detect(...) call not found")
    arg = arg_of(detects[0], 1, "feature_by_id")
    if not isinstance(arg, ast.Name):
        ctx.cannot("R01.9", CP, detects[0], "apply_cluster_rules", "features argument", f"not a name: {txt(arg)}")
        return
    name = arg.id
    lookups = [c for c in calls(func) if last_attr(c) == "get_cds_features_within_location"]
    ok = len(lookups) == 1 and isinstance(kwarg(lookups[0], "with_overlapping"), ast.Constant) \
        and kwarg(lookups[0], "with_overlapping").value is True
    ctx.ob("R01.9", CP, lookups[0] if lookups else func, "apply_cluster_rules", "lookup includes overlapping genes", ok,
           "genes that only partly lie in the cutoff range are still neighbours (distance is measured to the nearest base)",
           form=txt(lookups[0])[:100] if lookups else "")
    lookup_names = {t.id for n in walk_local(func) if isinstance(n, ast.Assign) and n.value in lookups
                    for t in n.targets if isinstance(t, ast.Name)}
    sources = _sources_through_cache(func, name)
    verdicts = []
    for src in sources:
        if isinstance(src, ast.DictComp):
            gen = src.generators[0]
            from_lookup = txt(gen.iter) in lookup_names or gen.iter in lookups
            verdicts.append((from_lookup and not gen.ifs and len(src.generators) == 1,
                             f"{{... for {txt(gen.target)} in {txt(gen.iter)}" + (" if " + txt(gen.ifs[0]) if gen.ifs else "") + "}"))
        elif isinstance(src, ast.Dict) and not src.keys:
            # filled in a loop: the store must execute on every iteration of a loop over the lookup result
            filled = _names_holding(func, src) | {name}
            stores = [n for n in walk_local(func) if isinstance(n, ast.Assign) and isinstance(n.targets[0], ast.Subscript)
                      and txt(n.targets[0].value) in filled]
            good = bool(stores)
            forms = []
            for store in stores:
                loops = enclosing_loops(store, stop=func)
                loop = next((lp for lp in loops if isinstance(lp, ast.For) and (txt(lp.iter) in lookup_names or lp.iter in lookups)), None)
                if loop is None:
                    good = False
                    forms.append(f"{stmt_key(store)} not in a loop over the lookup result")
                    continue
                head, sn = cfg.n(loop), cfg.n(store)
                body = cfg.loop_body_nodes(loop)
                starts = [d for d, lab in cfg.succ[head] if lab == "T"]
                skipped = any(head in ({s0} | cfg.reach([s0], avoid=[sn], within=body | {head})) for s0 in starts if s0 != sn)
                good = good and not skipped
                forms.append(f"{stmt_key(store)} on every iteration: {not skipped}")
            verdicts.append((good, "; ".join(forms)))
        else:
            verdicts.append((False, txt(src)[:80]))
    ok = bool(verdicts) and all(v for v, _ in verdicts)
    ctx.ob("R01.9", CP, detects[0], "apply_cluster_rules", "all genes in range are in the context", ok,
           "the features handed to the rule evaluation are every gene returned by the range lookup, not only genes with hits "
           "(a gene without hits can satisfy a negated cds(...) group and separates nothing from the distance test)",
           form=" | ".join(f for _, f in verdicts))
    res = arg_of(detects[0], 2, "results_by_id")
    if isinstance(res, ast.Name):
        srcs = _sources_through_cache(func, res.id)
        held = {res.id}
        for v in srcs:
            held |= _names_holding(func, v)
        ok = bool(srcs) and all(isinstance(v, ast.DictComp) and "results_by_id" in txt(v) for v in srcs) or \
            any(isinstance(n, ast.Assign) and isinstance(n.targets[0], ast.Subscript) and txt(n.targets[0].value) in held
                and "results_by_id" in txt(n.value) for n in walk_local(func))
        ctx.ob("R01.9", CP, detects[0], "apply_cluster_rules", "results restricted to genes in range", ok,
               "the hits handed to the rule evaluation are those of the genes in range", form="; ".join(txt(v)[:80] for v in srcs))


def r01_11(ctx: Ctx) -> None:
    """ `local_only` (set by cds(...) so that its inner formula is judged on the one gene) is handed on at every step of
        the evaluation: inside a function that has the parameter, every call of a function of the module that also has it
        supplies it - with the caller's own value, or with the constant True.  An omitted argument silently falls back to
        the callee's default (False) and switches the neighbourhood search back on below that point. """
    takers: Dict[str, List[str]] = {}
    for qual, func in ctx.repo.functions(RP):
        params = [a.arg for a in func.args.args + func.args.kwonlyargs]
        if "local_only" in params:
            takers.setdefault(qual.split(".")[-1], []).append(qual)
    count = 0
    for qual, func in ctx.repo.functions(RP):
        params = [a.arg for a in func.args.args + func.args.kwonlyargs]
        if "local_only" not in params:
            continue
        for call in calls(func):
            name = last_attr(call) or call_name(call).split(".")[-1]
            if name not in takers:
                continue
            callee = ctx.repo.func(RP, takers[name][0])
            cparams = [a.arg for a in callee.args.args if a.arg not in ("self", "cls")]
            position = cparams.index("local_only") if "local_only" in cparams else None
            given = kwarg(call, "local_only")
            if given is None and position is not None and position < len(call.args):
                given = call.args[position]
            count += 1
            ok = given is not None and (txt(given) == "local_only" or (isinstance(given, ast.Constant) and given.value is True))
            ctx.ob("R01.11", RP, call, qual, f"local_only handed to {name}#{count}", ok,
                   "every evaluation step below a cds(...) group keeps judging the one gene: local_only is passed on (or forced "
                   "to True), never left to the callee's default",
                   detail="" if ok else ("argument omitted: the callee's default applies" if given is None else f"passes `{txt(given)}`"),
                   form=txt(call)[:100])
    if count < 4:
        raise AnalysisError(f"R01.11: expected at least 4 calls handing on local_only, found {count}")


def r01_12(ctx: Ctx) -> None:
    """ a gene's hits are a multiset: one profile can hit a gene more than once (two copies of a domain; dynamic profiles
        are not de-duplicated).  A table keyed by profile name that is filled from a list of hits therefore has to
        aggregate - store under a comparison with what is already stored, as the per-profile best-hit filter does - and a
        dictionary comprehension over the hits cannot: the last listed hit wins, and `minscore(p, s)` then asks about that
        hit's score instead of 'some hit of p scores >= s'. """
    from ..flow import path_facts
    count = 0
    for rel in (RP, CP):
        for qual, func in ctx.repo.functions(rel):
            if "." in qual and qual.split(".")[-1] != qual.split(".")[-1]:
                continue
            cfg = None
            for node in walk_local(func):
                if isinstance(node, ast.DictComp) and isinstance(node.key, ast.Attribute) and node.key.attr == "query_id" \
                        and len(node.generators) == 1 and txt(node.key.value) == txt(node.generators[0].target):
                    count += 1
                    ctx.ob("R01.12", rel, node, qual, f"table keyed by profile name {txt(node)[:50]}", False,
                           "a profile-keyed table built from a gene's hits aggregates over the hits of one profile",
                           detail="a dictionary comprehension keeps the last listed hit of each profile: with hits p:200, p:100 on one "
                           "gene, minscore(p, 150) is judged on 100 and the gene is not reported", form=txt(node)[:120])
                if isinstance(node, ast.Assign) and isinstance(node.targets[0], ast.Subscript) \
                        and isinstance(node.targets[0].slice, ast.Attribute) and node.targets[0].slice.attr == "query_id" \
                        and enclosing_loops(node, stop=func):
                    table = txt(node.targets[0].value)
                    key = txt(node.targets[0].slice)
                    cfg = cfg or CFG(func)
                    compared = any(isinstance(x, ast.Compare) and (f"{table}.get({key}" in txt(x) or f"{table}[{key}]" in txt(x))
                                   for e, _ in path_facts(cfg, node) for x in ast.walk(e))
                    if not compared:
                        # the stored value may have been read into a local first
                        names = {n.id for e, _ in path_facts(cfg, node) for n in ast.walk(e) if isinstance(n, ast.Name)}
                        compared = any(f"{table}.get({key}" in txt(v) or f"{table}[{key}]" in txt(v)
                                       for name in names for v in bound_from(func, name))
                    count += 1
                    ctx.ob("R01.12", rel, node, qual, f"table keyed by profile name {table}[{key}]", compared,
                           "a profile-keyed table built from a gene's hits aggregates over the hits of one profile (the store is "
                           "governed by a comparison with the value already stored)", form=stmt_key(node)[:100])
    if count < 1:
        raise AnalysisError("R01.12: the per-profile best-hit table of filter_result_multiple was not found")


def run(ctx: Ctx) -> None:
    ctx.rule("R01.1", "in_range is strict distance < cutoff with the ring distance iff circular; cutoff role", floor=5)
    ctx.rule("R01.2", "negation reaches every verdict of every condition class", floor=12)
    ctx.rule("R01.3", "neighbour data never flows into the reason profiles of a verdict", floor=10)
    ctx.rule("R01.4", "cds(...) evaluates its inner formula locally, on one gene, inside the cutoff", floor=8)
    ctx.rule("R01.5", "and/or fold shapes", floor=6)
    ctx.rule("R01.6", "minimum/minscore thresholds are >= and agree at both decision points", floor=5)
    ctx.rule("R01.7", "anchoring needs verdict and non-empty reasons; neighbours come from ancillary hits", floor=6)
    ctx.rule("R01.8", "neighbour scans range over the right domain and are range-guarded", floor=4)
    r01_1(ctx)
    r01_2(ctx)
    r01_3(ctx)
    r01_4_8(ctx)
    r01_5(ctx)
    r01_6(ctx)
    r01_7(ctx)
    ctx.rule("R01.9", "the evaluation context contains every gene in range, with or without hits", floor=3)
    r01_9(ctx)
    ctx.rule("R01.10", "conditions allowed inside cds(...) do not consult neighbours under local_only", floor=2)
    r01_10(ctx)
    ctx.rule("R01.11", "local_only is handed on at every evaluation step", floor=4)
    r01_11(ctx)
    ctx.rule("R01.12", "tables keyed by profile name aggregate over a gene's hits", floor=1)
    r01_12(ctx)
