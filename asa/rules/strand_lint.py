""" Shared lint: positional access to the parts of a location whose strand is unconstrained.

    `location.parts` is in reading order: ascending on the forward strand,
    descending on the reverse strand.  `parts[0].start` / `parts[-1].end` as
    "lowest start" / "highest end" is therefore only right for forward
    locations; code handling arbitrary features must test the strand (or use
    min/max).  Area features (CDSCollection subclasses) are always forward when
    multi-part, so accesses on them are exempt.
"""

from __future__ import annotations

import ast
import os
from typing import List, Optional, Tuple

from ..astutil import guards, txt, walk_local
from ..index import dotted

FIXTURE = os.path.join(os.path.dirname(os.path.dirname(os.path.abspath(__file__))), "fixtures", "strand_parts.py")


def positional_part_accesses(func: ast.AST) -> List[Tuple[ast.AST, str, bool]]:
    """ (node, subject text, strand-guarded?) for X.parts[<const>] (.start|.end) accesses """
    found = []
    tested = {txt(n.left).rsplit(".strand", 1)[0] for n in walk_local(func)
              if isinstance(n, ast.Compare) and txt(n.left).endswith(".strand")}
    for node in walk_local(func):
        if isinstance(node, ast.Attribute) and node.attr in ("start", "end") and isinstance(node.value, ast.Subscript) \
                and isinstance(node.value.slice, (ast.Constant, ast.UnaryOp)) and isinstance(node.value.value, ast.Attribute) \
                and node.value.value.attr == "parts":
            subject = txt(node.value.value.value)
            guarded = any(".strand" in txt(t) for t, _ in guards(node, stop=func)) or subject in tested \
                or any(subject.startswith(t) or t.startswith(subject) for t in tested if t)
            found.append((node, subject, guarded))
    return found


def fixture_control() -> Tuple[int, int]:
    """ (flagged, guarded) counts on the fixture: must be (2, 0) for `bad` and (0, >=1) for `good` """
    with open(FIXTURE, encoding="utf-8") as handle:
        tree = ast.parse(handle.read())
    for node in ast.walk(tree):
        for child in ast.iter_child_nodes(node):
            child._parent = node  # type: ignore[attr-defined]
    funcs = {n.name: n for n in tree.body if isinstance(n, ast.FunctionDef)}
    bad = [g for _, _, g in positional_part_accesses(funcs["bad"])]
    good = [g for _, _, g in positional_part_accesses(funcs["good"])]
    return bad.count(False), good.count(False)
