""" C06 Regions are the disjoint connected components of overlapping areas """

from __future__ import annotations

import ast
from typing import Dict, List, Optional, Set, Tuple

from ..astutil import arg_of, call_name, calls, enclosing_loops, guards, kwarg, last_attr, stmt_key, txt, walk_local
from ..cfg import CFG
from ..flow import bound_from, fact_texts, inline_reaching, nnf_literals, path_facts, resolved_facts
from ..index import AnalysisError, ClassInfo, dotted
from ..kernel import OutsideFragment, affine, decide, parse, rename
from ..report import Ctx
from ..astutil import clone

PROP = "C06"
REC = "antismash/common/secmet/record.py"
REGION = "antismash/common/secmet/features/region/structures.py"
CAND = "antismash/common/secmet/features/candidate_cluster/structures.py"
COLL = "antismash/common/secmet/features/cdscollection.py"

EXPLANATION = (
    "Static rules over secmet/record.py: (R06.1) pairing of back links - every child list whose elements get "
    "`parent = self` in a collection constructor, and the gene->region link, is reset by the matching Record.clear_* "
    "before the list is emptied, and the clear_* call chain protoclusters -> candidates -> regions -> re-creation is "
    "in place; (R06.2) the near-clone methods add_protocluster / add_candidate_cluster / add_subregion and the "
    "getter families are equal modulo the family names (ordered insert by bisection, 1-based renumbering from the "
    "insertion index); (R06.3) add_region refuses overlap before mutating anything and renumbers; (R06.4) "
    "create_regions partitions the areas of a section by class exhaustively and creates one region per section; "
    "(R06.5) the test that starts a new section of the sweep is the negated overlap predicate (or a comparison "
    "equivalent to it for sorted half-open intervals, decided over all orderings)."
    ' R06.5 also: the sweep connects sections with the record length as wrap point exactly when the record is circular.'
    ' R06.6: the numbering table filled by add_<area> is emptied by the method that empties the list (numbers shown on a feature always identify that feature).'
)
UNDECIDED = [
    "that the single sweep plus first/last merge yields exactly the connected components for every layout "
    "(it does not for an origin-spanning area overlapping two later unrelated areas - no structural signature)",
    "1..n numbering in location order as a value",
    "stale entries of the numbering dictionaries for removed features",
]
TRUSTED = ["CPython ast", "asa.cfg", "bisect.bisect_left on a sorted list returns an insertion point keeping it sorted"]

FAMILIES = {
    "protocluster": ("add_protocluster", "_protoclusters", "_protocluster_numbering", "Protocluster"),
    "candidate_cluster": ("add_candidate_cluster", "_candidate_clusters", "_candidate_clusters_numbering", "CandidateCluster"),
    "subregion": ("add_subregion", "_subregions", "_subregion_numbering", "SubRegion"),
}


def _normalise(func: ast.FunctionDef, mapping: Dict[str, str]) -> List[str]:
    """ body statements (docstring and assert messages dropped) with family names replaced """
    node = clone(func)
    body = [s for s in node.body if not (isinstance(s, ast.Expr) and isinstance(s.value, ast.Constant))]
    out = []
    for stmt in body:
        for sub in ast.walk(stmt):
            if isinstance(sub, ast.Name) and sub.id in mapping:
                sub.id = mapping[sub.id]
            elif isinstance(sub, ast.Attribute) and sub.attr in mapping:
                sub.attr = mapping[sub.attr]
            elif isinstance(sub, ast.Assert):
                sub.msg = None
            elif isinstance(sub, ast.Constant) and isinstance(sub.value, str):
                sub.value = "S"
        out.append(ast.unparse(stmt))
    return out


def r06_2(ctx: Ctx) -> None:
    record = ctx.repo.cls(REC, "Record")
    for family, (adder, lst, num, cls) in FAMILIES.items():
        qual = f"Record.{adder}"
        func = ctx.fn(REC, qual)
        cfg = CFG(func)
        area = func.args.args[1].arg
        from ..loopview import resolve_alias
        inserts = [c for c in calls(func) if last_attr(c) == "insert" and txt(resolve_alias(func, c.func.value)) == f"self.{lst}"
                   and len(c.args) == 2 and txt(c.args[1]) == area]
        bis = inline_reaching(cfg, inserts[0], inserts[0].args[0]) if len(inserts) == 1 else None
        ok = isinstance(bis, ast.Call) and txt(bis.func) == "bisect.bisect_left" and len(bis.args) == 2 \
            and txt(resolve_alias(func, bis.args[0])) == f"self.{lst}" and txt(bis.args[1]) == area
        ctx.ob("R06.2", REC, inserts[0] if inserts else func, qual, "ordered insert", ok,
               "the area is inserted at the bisection point of the sorted list (the three adders are the same algorithm "
               "modulo the family names: each is held to the same obligations)", form=txt(inserts[0])[:100] if inserts else "")
        ok = any(isinstance(n, ast.Assign) and txt(n.targets[0]) == f"{area}.parent_record" and txt(n.value) == "self"
                 for n in walk_local(func))
        ctx.ob("R06.2", REC, func, qual, "parent record", ok, "the area's parent record is set", form="")
        # renumbering starts at the insertion index
        ok = bool(inserts) and _renumbers(func, f"self.{lst}", f"self.{num}", first=txt(inserts[0].args[0]))
        ctx.ob("R06.2", REC, func, qual, "renumber", ok,
               "every area from the insertion index to the end is renumbered i + 1 (1-based, in list order)", form="")
        from ..loopview import is_area_lookup
        loops = [n for n in walk_local(func) if isinstance(n, ast.For) and is_area_lookup(func, cfg, n.iter, area)]
        ok = len(loops) == 1 and any(txt(c.func) == f"{area}.add_cds" and txt(c.args[0]) == txt(loops[0].target) for c in calls(loops[0]))
        ctx.ob("R06.2", REC, func, qual, "link genes", ok,
               "every gene within the area's location is linked into the area", form="")
        ok = any(isinstance(n, ast.Assert) and txt(n.test) == f"isinstance({area}, {cls})" for n in walk_local(func))
        ctx.ob("R06.2", REC, func, qual, "type asserted", ok, "only areas of the family's own class are accepted", form="")
    # getters
    for kind, (lst, num, getter, number) in {
            "protocluster": ("_protoclusters", "_protocluster_numbering", "get_protocluster", "get_protocluster_number"),
            "candidate_cluster": ("_candidate_clusters", "_candidate_clusters_numbering", "get_candidate_cluster", "get_candidate_cluster_number"),
            "subregion": ("_subregions", "_subregion_numbering", "get_subregion", "get_subregion_number"),
            "region": ("_regions", "_region_numbering", "get_region", "get_region_number")}.items():
        g = ctx.fn(REC, f"Record.{getter}")
        rets = [r for r in walk_local(g) if isinstance(r, ast.Return)]
        ok = len(rets) == 1 and isinstance(rets[0].value, ast.Subscript) and txt(rets[0].value.value) == f"self.{lst}"
        form = ""
        if ok:
            aff = affine(rets[0].value.slice)
            form = f"self.{lst}[{aff}]"
            ok = aff.terms == {g.args.args[1].arg: 1} and aff.const == -1
        ctx.ob("R06.2", REC, g, f"Record.{getter}", "index - 1", ok,
               "the getter converts the 1-based number to the list index by subtracting one", form=form)
        n = ctx.fn(REC, f"Record.{number}")
        param = n.args.args[1].arg
        ncfg = CFG(n)
        absent = {(f"self.{num}.get({param}) is None", True), (f"{param} in self.{num}", False)}
        refused = any(nnf_literals(resolved_facts(ncfg, x)) & absent for x in walk_local(n) if isinstance(x, ast.Raise))
        rets = [x for x in walk_local(n) if isinstance(x, ast.Return) and x.value is not None]
        from_table = bool(rets) and all(txt(inline_reaching(ncfg, x, x.value)) in (f"self.{num}.get({param})", f"self.{num}[{param}]")
                                        for x in rets)
        ok = refused and from_table
        ctx.ob("R06.2", REC, n, f"Record.{number}", "lookup or raise", ok,
               "the number of a feature comes from the numbering table and an unknown feature is refused", form="")
    _ = record


def _child_lists(ctx: Ctx) -> Dict[str, List[str]]:
    """ for each collection class: the public properties exposing the child lists handed to
        CDSCollection.__init__(child_collections=...) """
    result: Dict[str, List[str]] = {}
    # Region: children built from subregions and candidate_clusters
    init = ctx.fn(REGION, "Region.__init__")
    kids = set()
    for loop in [n for n in walk_local(init) if isinstance(n, ast.For)]:
        if any(last_attr(c) == "append" and txt(c.func.value) == "children" for c in calls(loop)):  # type: ignore
            kids.add(txt(loop.iter))
    sup = [c for c in calls(init) if txt(c.func) == "super().__init__"]
    if not sup or txt(kwarg(sup[0], "child_collections")) != "children":
        raise AnalysisError("Region.__init__: children not handed to CDSCollection.__init__")
    result["Region"] = sorted(kids)
    init = ctx.fn(CAND, "CandidateCluster.__init__")
    sup = [c for c in calls(init) if txt(c.func) == "super().__init__"]
    if not sup or kwarg(sup[0], "child_collections") is None:
        raise AnalysisError("CandidateCluster.__init__: children not handed to CDSCollection.__init__")
    result["CandidateCluster"] = [txt(kwarg(sup[0], "child_collections"))]
    base = ctx.fn(COLL, "CDSCollection.__init__")
    ok = any(isinstance(n, ast.Assign) and txt(n.targets[0]) == "child.parent" and txt(n.value) == "self"
             for n in walk_local(base))
    if not ok:
        raise AnalysisError("CDSCollection.__init__: `child.parent = self` not found")
    return result


def _resets(func: ast.FunctionDef, outer_iter: str) -> Dict[str, Tuple[str, ast.AST]]:
    """ {child list property: attribute reset} for loops `for x in <outer>: for c in x.<prop>: c.<attr> = None` """
    found: Dict[str, Tuple[str, ast.AST]] = {}
    for outer in [n for n in func.body if isinstance(n, ast.For) and txt(n.iter) == outer_iter]:
        var = txt(outer.target)
        for inner in [n for n in outer.body if isinstance(n, ast.For)]:
            it = txt(inner.iter)
            if not it.startswith(var + "."):
                continue
            cvar = txt(inner.target)
            for stmt in inner.body:
                if isinstance(stmt, ast.Assign) and isinstance(stmt.value, ast.Constant) and stmt.value.value is None \
                        and txt(stmt.targets[0]).startswith(cvar + "."):
                    found[it[len(var) + 1:]] = (txt(stmt.targets[0])[len(cvar) + 1:], stmt)
    return found


def r06_1(ctx: Ctx) -> None:
    kids = _child_lists(ctx)
    # regions
    func = ctx.fn(REC, "Record.clear_regions")
    cfg = CFG(func)
    resets = _resets(func, "self._regions")
    clear = [c for c in calls(func) if txt(c.func) == "self._regions.clear"]
    for prop in [k.lstrip("_") for k in kids["Region"]]:
        ok = prop in resets and resets[prop][0] == "parent"
        before = ok and bool(clear) and cfg.dominates(cfg.n(resets[prop][1]), cfg.n(clear[0])) is False and \
            not cfg.exists_path(cfg.n(clear[0]), cfg.n(resets[prop][1]))
        ctx.ob("R06.1", REC, func, "Record.clear_regions", f"reset parent of region.{prop}", bool(ok and before),
               f"every child in region.{prop} (linked by `child.parent = self` in the constructor) has its parent reset "
               f"before the region list is emptied", form=str({k: v[0] for k, v in resets.items()}))
    ok = "cds_children" in resets and resets["cds_children"][0] == "region" and bool(clear) and \
        not cfg.exists_path(cfg.n(clear[0]), cfg.n(resets["cds_children"][1]))
    ctx.ob("R06.1", REC, func, "Record.clear_regions", "reset cds.region", ok,
           "every gene of a removed region forgets the region before the region list is emptied", form="")
    ok = bool(clear) and cfg.postdominates(cfg.n(clear[0]), cfg.entry)
    ctx.ob("R06.1", REC, func, "Record.clear_regions", "list emptied", ok, "the region list is emptied on every path", form="")
    # candidate clusters
    func = ctx.fn(REC, "Record.clear_candidate_clusters")
    cfg = CFG(func)
    resets = _resets(func, "self._candidate_clusters")
    clear = [c for c in calls(func) if txt(c.func) == "self._candidate_clusters.clear"]
    for prop in [k.lstrip("_") for k in kids["CandidateCluster"]]:
        ok = prop in resets and resets[prop][0] == "parent" and bool(clear) and \
            not cfg.exists_path(cfg.n(clear[0]), cfg.n(resets[prop][1]))
        ctx.ob("R06.1", REC, func, "Record.clear_candidate_clusters", f"reset parent of candidate.{prop}", ok,
               f"every protocluster of a removed candidate cluster has its parent reset before the list is emptied",
               form=str({k: v[0] for k, v in resets.items()}))
    # call chain
    chain = [
        ("Record.clear_protoclusters", ["self._protoclusters.clear", "self.clear_candidate_clusters"], None),
        ("Record.clear_candidate_clusters", ["self._candidate_clusters.clear", "self.clear_regions", "self.create_regions"],
         "self._regions"),
        ("Record.clear_subregions", ["self._subregions.clear", "self.clear_regions", "self.create_regions"], "self._regions"),
    ]
    for qual, wanted, guard in chain:
        func = ctx.fn(REC, qual)
        cfg = CFG(func)
        names = [txt(c.func) for c in calls(func)]
        order = [n for n in names if n in wanted]
        ok = order == wanted
        detail = ""
        if ok and guard:
            same = {guard, f"bool({guard})", f"len({guard}) > 0", f"len({guard}) != 0", f"0 < len({guard})", f"len({guard}) >= 1"}
            for c in calls(func):
                if txt(c.func) in ("self.clear_regions", "self.create_regions"):
                    facts = {txt(inline_reaching(cfg, e, e)) if t else f"not {txt(inline_reaching(cfg, e, e))}"
                             for e, t in path_facts(cfg, c)}
                    ok = ok and bool(facts & same)
                    # ... and under nothing else: stale regions must not survive because of some other condition
                    if facts - same:
                        ok = False
                        detail = f"`{txt(c)}` also requires {sorted(facts - same)}: when that fails the old regions keep members that were just removed"
        ctx.ob("R06.1", REC, func, qual, "call chain", ok,
               "clearing a family empties its list, then clears what depends on it and re-creates the regions "
               "(exactly when regions existed)", detail=detail, form=" -> ".join(order))
    # Region.add_cds links the gene back
    func = ctx.fn(REGION, "Region.add_cds")
    ok = any(isinstance(n, ast.Assign) and txt(n.targets[0]) == "cds.region" and txt(n.value) == "self" for n in walk_local(func)) \
        and any(txt(c.func) == "super().add_cds" for c in calls(func))
    ctx.ob("R06.1", REGION, func, "Region.add_cds", "gene -> region link", ok,
           "adding a gene to a region records the region on the gene", form="")
    # the parent setter refuses a parent that does not contain the child
    setter = [n for q, n in ctx.repo.functions(COLL) if q == "CDSCollection.parent" and n.args.args[-1].arg == "parent"]
    ok = False
    if setter:
        scfg = CFG(setter[-1])
        stores = [n for n in walk_local(setter[-1]) if isinstance(n, ast.Assign) and txt(n.targets[0]) == "self._parent"]
        demands = [n for n in walk_local(setter[-1]) if isinstance(n, ast.Assert) and "self.is_contained_by(parent)" in txt(n.test)
                   and "not self.is_contained_by" not in txt(n.test)]
        # every path that stores a real parent passes the containment demand (an assert, or a raise on its negation)
        ok = bool(stores)
        for store in stores:
            by_fact = any(truth and txt(e) == "self.is_contained_by(parent)" for e, truth in path_facts(scfg, store))
            none_edges = [(n.id, lab) for n in scfg.nodes if n.kind == "test" and n.ast is not None and hasattr(n.ast, "test")
                          for lab, pol in (("T", True), ("F", False))
                          if txt(n.ast.test) in ("parent is not None", "parent") and not pol
                          or txt(n.ast.test) in ("parent is None", "not parent") and pol]
            by_assert = bool(demands) and scfg.n(store) not in scfg.reach([scfg.entry], avoid=[scfg.n(d) for d in demands],
                                                                           edges_excluded=none_edges)
            ok = ok and (by_fact or by_assert)
    ctx.ob("R06.1", COLL, setter[-1] if setter else 0, "CDSCollection.parent", "parent contains child", ok,
           "a parent link can only be set to a collection containing the child", form="")


def _renumbers(func: ast.AST, lst: str, table: str, first: Optional[str] = None) -> bool:
    """ every element from the insertion index to the end gets its list position + 1: a loop over the list from that
        index on (any of the spellings of asa.loopview) whose body stores `T[<element>] = <position> + 1`, or the same
        pairs handed to T.update({...}) as a dict comprehension.  With `first`, the walk must start at that position. """
    from ..loopview import loops_over, resolve_alias
    for node, v in loops_over(func, lst):
        if not v.to_end:
            continue
        if first is not None and v.lower_text != first:
            continue
        if isinstance(node, ast.For):
            stores = [st for st in node.body if isinstance(st, ast.Assign) and isinstance(st.targets[0], ast.Subscript)
                      and txt(resolve_alias(func, st.targets[0].value)) == table]
            others = [st for st in node.body if st not in stores
                      and not (isinstance(st, ast.Assign) and isinstance(st.targets[0], ast.Name) and st.targets[0].id == v.elem)]
            if len(stores) == 1 and not others and v.is_element(stores[0].targets[0].slice, func) \
                    and v.position_plus(stores[0].value, 1):
                return True
        else:
            par = getattr(node, "_parent", None)
            if isinstance(par, ast.Call) and isinstance(par.func, ast.Attribute) and par.func.attr == "update" \
                    and txt(resolve_alias(func, par.func.value)) == table \
                    and v.is_element(node.key, func) and v.position_plus(node.value, 1):
                return True
    return False


def r06_3(ctx: Ctx) -> None:
    qual = "Record.add_region"
    func = ctx.fn(REC, qual)
    cfg = CFG(func)
    def scan_loops(f: ast.AST):
        return [n for n in walk_local(f) if isinstance(n, ast.For) and "self._regions" in txt(n.iter) and "enumerate" in txt(n.iter)]
    host, host_call = func, None
    loops = scan_loops(func)
    if not loops:
        # the scan may live in a private method that add_region calls first (its `return` sits inside the loop, so it
        # cannot be inlined): analyse it there, and treat the call as the scan
        for call in calls(func):
            if isinstance(call.func, ast.Attribute) and txt(call.func.value) == "self" and call.func.attr.startswith("_") \
                    and ctx.repo.has_func(REC, f"Record.{call.func.attr}"):
                helper = ctx.fn(REC, f"Record.{call.func.attr}")
                if scan_loops(helper):
                    host, host_call, loops = helper, call, scan_loops(helper)
                    break
    if not loops:
        raise AnalysisError("add_region: scan over existing regions not found")
    loop = loops[0]
    new_region = host.args.args[1].arg
    tests = [n for n in loop.body if isinstance(n, ast.If) and "overlaps_with" in txt(n.test)]
    ok = bool(tests) and any(isinstance(s, ast.Raise) for s in tests[0].body) and isinstance(tests[0].test, ast.Call) and \
        sorted(x for x in (txt(tests[0].test.func.value), txt(tests[0].test.args[0]))) == \
        sorted([new_region, txt(loop.target.elts[1])])  # type: ignore[attr-defined]
    ctx.ob("R06.3", REC, tests[0] if tests else loop, qual, "overlap refused", ok,
           "a region overlapping any existing region is refused with an error", form=txt(tests[0].test) if tests else "")
    # the overlap test is the first thing done with each existing region (before a possible break)
    ok = bool(tests) and loop.body[0] is tests[0]
    ctx.ob("R06.3", REC, loop, qual, "overlap tested before ordering", ok,
           "each existing region is tested for overlap before the insertion point can end the scan", form="")
    mutations = []
    for node in walk_local(func):
        if isinstance(node, ast.Call) and txt(node.func) in ("self._regions.insert", "self._regions.append"):
            mutations.append(node)
        if isinstance(node, ast.Assign) and any(txt(t).startswith(("self._region_numbering", "region.parent_record", "cds.region"))
                                                for t in node.targets):
            mutations.append(node)
        if isinstance(node, ast.Call) and txt(node.func) == "region.add_cds":
            mutations.append(node)
    if host_call is None:
        head = cfg.n(loop)
        ok = len(mutations) >= 4 and all(cfg.dominates(head, cfg.n(m)) and cfg.n(m) not in cfg.loop_body_nodes(loop)
                                         for m in mutations)
    else:
        head = cfg.n(host_call)
        ok = len(mutations) >= 4 and all(cfg.dominates(head, cfg.n(m)) and cfg.n(m) != head for m in mutations) and \
            not [w for w in walk_local(host) if isinstance(w, ast.Assign) and any(txt(t).startswith("self.") for t in w.targets)]
    ctx.ob("R06.3", REC, func, qual, "mutation after the scan", ok,
           "the record is modified only after every existing region has passed the overlap test",
           form=f"{len(mutations)} mutating statements")
    text = txt(func)
    ok = _renumbers(func, "self._regions", "self._region_numbering")
    ctx.ob("R06.3", REC, func, qual, "renumber", ok, "regions from the insertion index on are renumbered i + 1", form="")
    ok = "for cds in self.get_cds_features_within_location(region.location):" in text and "region.add_cds(cds)" in text \
        and "cds.region = region" in text
    ctx.ob("R06.3", REC, func, qual, "link genes", ok, "genes inside the region are linked both ways", form="")


def _ancestors(node: ast.AST):
    cur = getattr(node, "_parent", None)
    while cur is not None:
        yield cur
        cur = getattr(cur, "_parent", None)


def r06_4_5(ctx: Ctx) -> None:
    qual = "Record.create_regions"
    func = ctx.fn(REC, qual, inline=True)
    cfg = CFG(func)
    # R06.5: the section split test
    appends = [c for c in calls(func) if txt(c.func) == "sections.append" and enclosing_loops(c, stop=func)]
    if not appends:
        raise AnalysisError("create_regions: section split not found")
    app = appends[0]
    loop = enclosing_loops(app, stop=func)[0]
    from ..loopview import view as _loop_view
    lview = _loop_view(func, loop.iter, loop.target, loop.body)
    var = lview.elem if lview is not None and lview.elem else txt(loop.target)
    merges = [c for c in calls(loop) if call_name(c) == "connect_locations"]
    running = ""
    for merge in merges:
        par = getattr(merge, "_parent", None)
        if isinstance(par, (ast.Assign, ast.AnnAssign)):
            running = txt(par.targets[0] if isinstance(par, ast.Assign) else par.target)
    if not running:
        raise AnalysisError("create_regions: the running section location was not found")
    facts = [(e, t) for e, t in path_facts(cfg, app) if any(a is loop for a in _ancestors(e))]
    if not facts:
        ctx.cannot("R06.5", REC, app, qual, "split test", "the section split is not guarded by a test")
    for index, (expr, truth) in enumerate(facts):
        resolved = inline_reaching(cfg, expr, expr, keep={running, var})
        if isinstance(resolved, ast.Call) and (last_attr(resolved) == "overlaps_with" or call_name(resolved) == "locations_overlap"):
            operands = ([resolved.func.value] if last_attr(resolved) == "overlaps_with" else []) + list(resolved.args)  # type: ignore
            names = sorted(txt(o).replace(".location", "") for o in operands)
            ok = (not truth) and names == sorted([var, running])
            ctx.ob("R06.5", REC, expr, qual, f"split test#{index}", ok,
                   "a new section starts exactly when the next area does not overlap the running section",
                   form=("" if truth else "not ") + txt(resolved))
            continue
        mapping = {f"{var}.location.start": "a_s", f"{var}.location.end": "a_e", f"{var}.start": "a_s", f"{var}.end": "a_e",
                   f"{running}.start": "l_s", f"{running}.end": "l_e"}
        try:
            spec = parse("a_s >= l_e") if truth else parse("a_s < l_e")
            pre = parse("l_s <= a_s and l_s < l_e and a_s < a_e")
            ok, cex, n = decide(rename(resolved, mapping), spec, pre=pre)
            ctx.ob("R06.5", REC, expr, qual, f"split test#{index}", ok,
                   "a comparison used instead of the overlap predicate must be equivalent to 'no shared base' for "
                   "start-sorted half-open intervals (next.start >= running.end)",
                   detail=f"counterexample {cex}" if cex else f"{n} orderings", form=txt(rename(resolved, mapping)))
        except OutsideFragment as err:
            ctx.cannot("R06.5", REC, expr, qual, f"split test#{index}", str(err))
    # the running section absorbs an overlapping area by connecting locations
    ok = len(merges) == 1 and sorted(txt(e) for e in merges[0].args[0].elts) == sorted([f"{var}.location", running]) \
        and kwarg(merges[0], "wrap_point") is not None
    if ok:
        # the section grows for *every* overlapping area: no further condition on the way to the merge (ends of
        # compound, origin-spanning locations are not comparable with plain ends)
        inner = [(e, t) for e, t in path_facts(cfg, merges[0]) if any(a is loop for a in _ancestors(e))]
        extra = []
        for e, t in inner:
            resolved = inline_reaching(cfg, e, e, keep={running, var})
            is_overlap = isinstance(resolved, ast.Call) and (last_attr(resolved) == "overlaps_with" or call_name(resolved) == "locations_overlap")
            if not (is_overlap and t):
                extra.append(("" if t else "not ") + txt(e))
        ok = not extra
        ctx.ob("R06.5", REC, merges[0], qual, "section grows with every overlapping area", ok,
               "every area that overlaps the running section extends it, unconditionally (skipping the extension for an area "
               "that 'cannot reach further' compares ends that are not comparable for origin-spanning sections)",
               detail=f"extension only under {extra}" if extra else "", form=txt(merges[0])[:100])
        ok = True
    from .c04 import _wrap_iff
    wrap_ok, wrap_forms = _wrap_iff(func, "self.is_circular()", None)
    ctx.ob("R06.5", REC, merges[0] if merges else loop, qual, "wrap point iff circular", wrap_ok,
           "sections are connected with the record length as wrap point exactly when the record is circular: whether any "
           "particular area crosses the origin says nothing about the areas the sweep meets later (a whole-record area sorts "
           "before the crossing ones)", form=str(wrap_forms)[:200])
    ctx.ob("R06.5", REC, merges[0] if merges else loop, qual, "section growth", ok,
           "an overlapping area extends the running section to the span covering both (with the wrap point)",
           form=txt(merges[0]) if merges else "")
    swept = loop.iter.value if isinstance(loop.iter, ast.Subscript) else loop.iter
    if lview is not None and lview.seq:
        swept = ast.parse(lview.seq, mode="eval").body
    ok = any(isinstance(s, ast.Expr) and txt(s.value) == f"{txt(swept)}.sort()" and cfg.dominates(cfg.n(s), cfg.n(loop))
             for s in func.body) or (isinstance(swept, ast.Call) and call_name(swept) == "sorted") or \
        (isinstance(swept, ast.Name) and bool(bound_from(func, swept.id))
         and all(isinstance(v, ast.Call) and call_name(v) == "sorted" and kwarg(v, "key") is None for v in bound_from(func, swept.id)))
    ctx.ob("R06.5", REC, func, qual, "areas sorted", ok, "the sweep runs over the areas in sorted order", form="")
    # the closing step of the ring: an overlap test between the first and the last section of the swept list
    section_list = next((txt(c.func.value) for c in calls(func) if last_attr(c) == "append" and isinstance(c.func, ast.Attribute)
                         and c.args and isinstance(c.args[0], ast.Tuple)
                         and any(lp is loop for lp in enclosing_loops(c, stop=func))), "sections")
    end_of = {}
    for node in walk_local(func):
        if isinstance(node, ast.Assign) and isinstance(node.value, ast.Subscript) and txt(node.value.value) == section_list \
                and txt(node.value.slice) in ("0", "-1"):
            for target in node.targets:
                for name in [n.id for n in ast.walk(target) if isinstance(n, ast.Name)]:
                    end_of[name] = txt(node.value.slice)
    wraps = []
    for call in calls(func):
        if call_name(call) != "locations_overlap" and last_attr(call) != "overlaps_with":
            continue
        if any(call is c for c in calls(loop)):
            continue
        ends = set()
        for node in ast.walk(call):
            if isinstance(node, ast.Name) and node.id in end_of:
                ends.add(end_of[node.id])
            if isinstance(node, ast.Subscript) and txt(node.value) == section_list and txt(node.slice) in ("0", "-1"):
                ends.add(txt(node.slice))
        if ends == {"0", "-1"}:
            wraps.append(call)
    ctx.ob("R06.5", REC, wraps[0] if wraps else func, qual, "first/last merge", bool(wraps),
           "the first and last sections are merged when they overlap (across the origin)", form=txt(wraps[0]) if wraps else "")
    repeated = bool(wraps) and any(isinstance(a, ast.While) for a in _ancestors(wraps[0]))
    ctx.ob("R06.5", REC, wraps[0] if wraps else func, qual, "first/last merge repeated", repeated,
           "after the first section has absorbed the last one it is compared with the new last section, until they no longer "
           "overlap: the section that crosses the origin sorts first and can reach several of the sections that sort last",
           detail="" if repeated else "a single test: subregions join{[900:1000),[0:100)}, [700:800), [780:920), [950:980) on a ring of "
           "1000 give the sections X, [700:920), [950:980); X absorbs [950:980) but is never compared with [700:920), and adding "
           "the two overlapping regions raises 'regions cannot overlap'", form="")
    # finalisation of the last section is unconditional
    finals = [c for c in calls(func) if txt(c.func) == "sections.append" and not enclosing_loops(c, stop=func)]
    ok = len(finals) == 1 and cfg.postdominates(cfg.n(finals[0]), cfg.n(loop))
    ctx.ob("R06.5", REC, finals[0] if finals else func, qual, "last section kept", ok,
           "the section still open at the end of the sweep is always recorded", form="")
    # R06.4 partition by class and one region per section
    adds = [c for c in calls(func) if txt(c.func) == "self.add_region"]
    ok = len(adds) == 1
    form = ""
    if ok:
        outer = enclosing_loops(adds[0], stop=func)
        ok = len(outer) == 1 and txt(outer[0].iter) == "sections" and adds[0] in [c for s in outer[0].body for c in calls(s)] \
            and not guards(adds[0], stop=outer[0])
        region = adds[0].args[0]
        ok = ok and isinstance(region, ast.Call) and call_name(region) == "Region" and len(region.args) == 2
        form = txt(adds[0])
    ctx.ob("R06.4", REC, adds[0] if adds else func, qual, "one region per section", ok,
           "every section produces exactly one region, unconditionally", form=form)
    ok = False
    form = ""
    if adds and isinstance(adds[0].args[0], ast.Call) and len(adds[0].args[0].args) >= 2:
        region = adds[0].args[0]
        outer = enclosing_loops(adds[0], stop=func)[-1]
        cand_list, sub_list = txt(region.args[0]), txt(region.args[1])
        # the lists may be handed over by a tuple assignment (an inlined partition helper)
        for st in walk_local(outer):
            if isinstance(st, ast.Assign) and isinstance(st.targets[0], ast.Tuple) and isinstance(st.value, ast.Tuple) \
                    and len(st.targets[0].elts) == len(st.value.elts):
                pairs = {txt(t): txt(v) for t, v in zip(st.targets[0].elts, st.value.elts)}
                cand_list, sub_list = pairs.get(cand_list, cand_list), pairs.get(sub_list, sub_list)
        # ... or by plain copies (the same hand-over after the tuple assignment has been split)
        copies = {st.targets[0].id: st.value.id for st in walk_local(outer) if isinstance(st, ast.Assign) and len(st.targets) == 1
                  and isinstance(st.targets[0], ast.Name) and isinstance(st.value, ast.Name)}
        cand_list, sub_list = copies.get(cand_list, cand_list), copies.get(sub_list, sub_list)
        cand_adds = [c for c in calls(outer) if txt(c.func) == f"{cand_list}.append"]
        sub_adds = [c for c in calls(outer) if txt(c.func) == f"{sub_list}.append"]
        if len(cand_adds) == 1 and len(sub_adds) == 1:
            elem = txt(cand_adds[0].args[0])
            cand_facts = fact_texts(cfg, cand_adds[0])
            sub_facts = fact_texts(cfg, sub_adds[0])
            asserted = any(isinstance(a, ast.Assert) and txt(a.test) == f"isinstance({elem}, SubRegion)"
                           and cfg.dominates(cfg.n(a), cfg.n(sub_adds[0])) for a in walk_local(outer))
            ok = f"isinstance({elem}, CandidateCluster)" in cand_facts and txt(sub_adds[0].args[0]) == elem and \
                (f"not isinstance({elem}, CandidateCluster)" in sub_facts) and \
                (asserted or f"isinstance({elem}, SubRegion)" in sub_facts)
            # both lists are re-created per section
            fresh = [txt(t) for st in walk_local(outer) if isinstance(st, (ast.Assign, ast.AnnAssign)) and st.value is not None
                     and txt(st.value) == "[]" for t in (st.targets if isinstance(st, ast.Assign) else [st.target])]
            ok = ok and cand_list in fresh and sub_list in fresh
            form = f"{cand_list} under {sorted(cand_facts)[:3]}; {sub_list} under {sorted(sub_facts)[:3]}"
    ctx.ob("R06.4", REC, adds[0] if adds else func, qual, "partition by class", ok,
           "the areas of a section are split exhaustively into candidate clusters and subregions (else-arm asserts the "
           "type), into lists that are fresh for each section", form=form)
    swept_name = txt(swept)
    sources = " ".join(txt(v) for v in bound_from(func, swept_name)) + " " + " ".join(
        txt(c) for c in calls(func) if txt(c.func) in (f"{swept_name}.extend", f"{swept_name}.append"))
    params = [a.arg for a in func.args.args[1:3]]
    ok = all(p in sources for p in params) and len(params) == 2
    ctx.ob("R06.4", REC, func, qual, "all areas considered", ok,
           "both candidate clusters and subregions enter the sweep", form=sources[:160])
    _ = cfg


def r06_6(ctx: Ctx) -> None:
    """ the numbers shown on a feature always identify that feature: the numbering table that `add_<area>` fills is emptied
        by the function that empties the list - otherwise a cleared feature keeps answering with a number that now belongs
        to another feature (pairing rule: filled where the list grows => emptied where the list is emptied) """
    tables = {lst: num for _, (_, lst, num, _) in FAMILIES.items()}
    tables["_regions"] = "_region_numbering"
    record = ctx.repo.cls(REC, "Record")
    count = 0
    for node in record.node.body:
        if not isinstance(node, ast.FunctionDef):
            continue
        for call in calls(node):
            if last_attr(call) != "clear" or not isinstance(call.func, ast.Attribute):
                continue
            target = txt(call.func.value)
            if not target.startswith("self.") or target[5:] not in tables:
                continue
            count += 1
            table = tables[target[5:]]
            emptied = any(last_attr(c) == "clear" and txt(c.func.value) == f"self.{table}" for c in calls(node)) or \
                any(isinstance(n, ast.Assign) and txt(n.targets[0]) == f"self.{table}" for n in walk_local(node))
            ctx.ob("R06.6", REC, call, f"Record.{node.name}", f"numbering of {target[5:]} emptied with the list", emptied,
                   "the numbers of cleared features are forgotten together with the features",
                   detail="" if emptied else f"`self.{table}` keeps the numbers of the cleared features: a cleared subregion (and its "
                   "region) still reports number 2 after another subregion has become number 2", form=txt(call))
    if count < 4:
        raise AnalysisError(f"R06.6: expected the four area lists to be emptied by clear_* methods, found {count}")


def run(ctx: Ctx) -> None:
    ctx.rule("R06.1", "back links set when building areas are reset when clearing them; clear_* call chain", floor=9)
    ctx.rule("R06.2", "area adders and getters are sibling clones: ordered insert, 1-based renumbering", floor=20)
    ctx.rule("R06.3", "add_region refuses overlap before any mutation and renumbers", floor=5)
    ctx.rule("R06.4", "create_regions partitions areas by class and builds one region per section", floor=3)
    ctx.rule("R06.5", "the sweep's section split is the negated overlap predicate", floor=5)
    r06_1(ctx)
    r06_2(ctx)
    r06_3(ctx)
    r06_4_5(ctx)
    ctx.rule("R06.6", "numbering tables are emptied with their lists", floor=4)
    r06_6(ctx)
