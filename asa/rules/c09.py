""" C09 Annotations placed inside a gene cover the nucleotides that encode them """

from __future__ import annotations

import ast
from fractions import Fraction
from typing import Dict, List, Optional, Set, Tuple

from ..astutil import arg_of, call_name, calls, guards, kwarg, last_attr, stmt_key, txt, walk_local
from ..flow import bound_from
from ..index import AnalysisError, _walk_functions, dotted
from ..kernel import Affine, OutsideFragment, affine, decide, parse, rename, sym_paths
from ..report import Ctx
from ..cfg import CFG

PROP = "C09"
LOC = "antismash/common/secmet/locations.py"
FEAT = "antismash/common/secmet/features/feature.py"
PREP = "antismash/common/secmet/features/prepeptide.py"
HMMER = "antismash/common/hmmer.py"
TTA = "antismash/modules/tta/tta.py"
DOMID = "antismash/detection/nrps_pks_domains/domain_identification.py"

EXPLANATION = (
    "R09.1: the protein->DNA coordinate conversion for single-exon genes is decided as affine forms on every path "
    "through convert_protein_position_to_dna (symbolic walk over its if/else arms): forward (S+3s, S+3e), reverse "
    "(S+L-3e, S+L-3s) with S = location.start and L = len(location) - 'three bases per residue' and strand mirroring "
    "are the coefficients - and the range guard is 0 <= s < e <= L // 3. R09.2: who may build in-gene locations: outside "
    "the sanctioned conversion, no location handed to a location constructor may be computed by adding an offset to a "
    "feature's location.start/end (wrong for every multi-exon or origin-spanning gene); flow is followed through local "
    "names and one call level. R09.3: callers agree with themselves: the protein range used for a hit's location is the "
    "range used for its translation slice, and a precursor peptide's leader/core/tail partition [0, total) with shared "
    "boundaries."
    ' R09.7: coordinate extremes of the pre-/post-origin sections of a bridging location are min/max aggregates or read under a strand test, never positional elements.'
)
UNDECIDED = [
    "the compound-location walk of convert_protein_position_to_dna (wrong for origin-spanning genes; needs the exon layout)",
    "equality of extracted-and-translated sequence with the translation slice",
    "codon_start handling as a behaviour",
]
TRUSTED = ["CPython ast", "affine arithmetic of asa.kernel (exact rationals)"]


def r09_1(ctx: Ctx) -> None:
    qual = "convert_protein_position_to_dna"
    func = ctx.fn(LOC, qual)
    pstart, pend, ploc = [a.arg for a in func.args.args[:3]]
    body = [s for s in func.body if not (isinstance(s, ast.Expr) and isinstance(s.value, ast.Constant))]
    paths = sym_paths(body)
    simple = [p for p in paths if p.kind == "return" and
              any("isinstance" in txt(t) and "CompoundLocation" in txt(t) and
                  (pol != (not isinstance(t, ast.UnaryOp))) is False for t, pol in p.conds)]
    # keep the paths on which `location` is NOT compound
    simple = []
    for path in paths:
        if path.kind != "return":
            continue
        for test, pol in path.conds:
            text = txt(test)
            if "isinstance" in text and "CompoundLocation" in text:
                negated = isinstance(test, ast.UnaryOp) and isinstance(test.op, ast.Not)
                is_compound = (not pol) if negated else pol
                if not is_compound:
                    simple.append(path)
    if len(simple) < 2:
        raise AnalysisError(f"{qual}: expected a forward and a reverse path for simple locations, found {len(simple)}")
    S, L = f"{ploc}.start", f"len({ploc})"
    spec = {
        "reverse": (Affine({S: 1, L: 1, pend: -3}), Affine({S: 1, L: 1, pstart: -3})),
        "forward": (Affine({S: 1, pstart: 3}), Affine({S: 1, pend: 3})),
    }
    seen = set()
    for path in simple:
        strand = None
        for test, pol in path.conds:
            text = txt(test)
            if f"{ploc}.strand == -1" in text:
                strand = "reverse" if pol else "forward"
            elif f"{ploc}.strand != -1" in text or f"{ploc}.strand == 1" in text:
                strand = "forward" if pol else "reverse"
        if strand is None:
            ctx.cannot("R09.1", LOC, func, qual, "strand arm", f"path without a strand test: {path.cond_texts()}")
            continue
        ret = path.ret
        if not (isinstance(ret, ast.Tuple) and len(ret.elts) == 2):
            ctx.cannot("R09.1", LOC, func, qual, f"{strand} return", f"return is not a pair: {txt(ret)}")
            continue
        try:
            got = tuple(affine(e, path.env) for e in ret.elts)
        except OutsideFragment as err:
            ctx.cannot("R09.1", LOC, func, qual, f"{strand} return", str(err))
            continue
        seen.add(strand)
        want = spec[strand]
        ok = got[0] == want[0] and got[1] == want[1]
        ctx.ob("R09.1", LOC, ret, qual, f"{strand} strand, simple location", ok,
               f"{strand} strand: three bases per residue from the " + ("far end, mirrored" if strand == "reverse" else "start"),
               detail="" if ok else f"expected ({want[0]}, {want[1]})", form=f"({got[0]}, {got[1]})")
    ctx.ob("R09.1", LOC, func, qual, "both strands covered", seen == {"forward", "reverse"},
           "both strand arms exist for simple locations", form=str(sorted(seen)))
    # range guard: the refusal whose test reads both protein coordinates, decided with locals resolved
    from ..cfg import CFG
    from ..flow import deciding_test, fact_texts, inline_reaching, path_facts
    cfg = CFG(func)
    ok = False
    form = ""
    site: ast.AST = func
    for node in [n for n in walk_local(func) if isinstance(n, ast.Raise)]:
        terms = []
        for expr, truth in path_facts(cfg, node):
            names = {n.id for n in ast.walk(expr) if isinstance(n, ast.Name)}
            if {pstart, pend} <= names:
                full = inline_reaching(cfg, expr, expr, keep={pstart, pend, ploc})
                terms.append(full if truth else ast.UnaryOp(op=ast.Not(), operand=full))
        if not terms:
            continue
        mapping = {pstart: "s", pend: "e", f"len({ploc}) // 3": "Q"}
        try:
            cond = terms[0] if len(terms) == 1 else ast.BoolOp(op=ast.And(), values=terms)
            expr = rename(cond, mapping)
            form = txt(expr)
            holds, cex, _ = decide(expr, parse("not (0 <= s and s < e and e <= Q)"))
        except OutsideFragment:
            continue
        decided = deciding_test(cfg, node)
        rets = [r for r in walk_local(func) if isinstance(r, ast.Return)]
        before = decided is not None and all(cfg.dominates(decided[0], cfg.n(r)) for r in rets)
        if holds and before:
            ok, site = True, node
            break
    ctx.ob("R09.1", LOC, site, qual, "range guard", ok,
           "protein ranges outside 0 <= start < end <= len(location) // 3 are refused before any arithmetic", form=form)
    # the feature-level wrapper delegates to the conversion with its own location
    wrapper = ctx.fn(FEAT, "Feature.get_sub_location_from_protein_coordinates")
    conv = [c for c in calls(wrapper) if call_name(c) == "convert_protein_position_to_dna"]
    ok = len(conv) == 1 and [txt(a) for a in conv[0].args] == ["start", "end", "self.location"]
    ctx.ob("R09.1", FEAT, wrapper, "Feature.get_sub_location_from_protein_coordinates", "delegation", ok,
           "sub-locations are computed by the one conversion routine from the feature's own location", form="")
    wcfg = CFG(wrapper)
    simple_ret = [r for r in walk_local(wrapper) if isinstance(r, ast.Return) and isinstance(r.value, ast.Call)
                  and call_name(r.value) == "FeatureLocation"
                  and "not isinstance(self.location, CompoundLocation)" in fact_texts(wcfg, r)]
    pair = [n for n in walk_local(wrapper) if isinstance(n, ast.Assign) and n.value in conv and isinstance(n.targets[0], ast.Tuple)]
    names = [txt(e) for e in pair[0].targets[0].elts] if pair else []
    ok = bool(simple_ret) and len(names) == 2 and [txt(a) for a in simple_ret[0].value.args[:2]] == names and \
        len(simple_ret[0].value.args) == 3 and txt(inline_reaching(wcfg, simple_ret[0], simple_ret[0].value.args[2])) == "self.location.strand"
    ctx.ob("R09.1", FEAT, simple_ret[0] if simple_ret else wrapper, "Feature.get_sub_location_from_protein_coordinates",
           "simple result", ok, "for single-exon genes the result is exactly the converted pair on the gene's strand", form="")


SANCTIONED = {
    (LOC, "convert_protein_position_to_dna"), (LOC, "_adjust_location_by_offset._adjust_location_by_offset.adjust_single_location"),
    (LOC, "_adjust_location_by_offset.adjust_single_location"), (LOC, "offset_location.shifted_location"),
    (LOC, "offset_location"), (FEAT, "Feature.get_sub_location_from_protein_coordinates"),
}
SAFE_BUILDERS = {
    ("antismash/common/all_orfs.py", "get_trimmed_orf"):
        "creates a new, shorter gene from an ORF found by scan_orfs (single exon by construction), not an annotation "
        "positioned inside an existing multi-exon gene",
}


def _offsets_from_feature_location(func: ast.AST, expr: ast.AST, depth: int = 0) -> Optional[str]:
    """ text of an `<x>.location.start|end +/- something` the expression derives from """
    for node in [expr] + list(walk_local(expr)):
        if isinstance(node, ast.BinOp) and isinstance(node.op, (ast.Add, ast.Sub)):
            for side in (node.left, node.right):
                path = dotted(side)
                if path and (path.endswith(".location.start") or path.endswith(".location.end")):
                    return txt(node)
        if isinstance(node, ast.Name) and depth < 3:
            for val in bound_from(func, node.id):
                hit = _offsets_from_feature_location(func, val, depth + 1)
                if hit:
                    return hit
    return None


def r09_2(ctx: Ctx) -> None:
    files = [TTA, HMMER, DOMID, PREP, "antismash/common/secmet/record.py", "antismash/common/all_orfs.py"]
    if ctx.tier == "thorough":
        files = sorted(ctx.repo.modules)
    # summaries: functions whose parameter reaches a location constructor's start/end
    summaries: Dict[Tuple[str, str], Set[int]] = {}
    for rel in sorted(ctx.repo.modules):
        for qual, func in _walk_functions(ctx.repo.modules[rel].tree, ""):
            params = [a.arg for a in func.args.args]
            reach: Set[int] = set()
            for call in calls(func):
                if call_name(call) in ("FeatureLocation", "SimpleLocation"):
                    for pos in (0, 1):
                        arg = arg_of(call, pos)
                        if arg is None:
                            continue
                        for name in {n.id for n in ast.walk(arg) if isinstance(n, ast.Name)}:
                            if name in params:
                                reach.add(params.index(name))
            if reach:
                summaries[(rel, qual.split(".")[-1])] = reach
    instances = 0
    for rel in files:
        if rel not in ctx.repo.modules:
            raise AnalysisError(f"anchor module vanished: {rel}")
        ctx.repo.consulted.add(rel)
        for qual, func in _walk_functions(ctx.repo.modules[rel].tree, ""):
            if (rel, qual) in SANCTIONED or rel == LOC:
                continue
            hits: List[Tuple[ast.AST, str, str]] = []
            for call in calls(func):
                name = call_name(call)
                if name in ("FeatureLocation", "SimpleLocation"):
                    for pos in (0, 1):
                        arg = arg_of(call, pos)
                        if arg is not None:
                            src = _offsets_from_feature_location(func, arg)
                            if src:
                                hits.append((call, src, txt(call)[:80]))
                                break
                else:
                    short = name.split(".")[-1]
                    for (srel, sname), reach in summaries.items():
                        if sname != short:
                            continue
                        is_method = "." in name
                        for pos in reach:
                            idx = pos - 1 if is_method and pos > 0 else pos
                            arg = arg_of(call, idx)
                            if arg is not None:
                                src = _offsets_from_feature_location(func, arg)
                                if src:
                                    hits.append((call, src, f"{txt(call)[:60]} -> {sname} builds a location from it"))
            seen = set()
            for call, src, form in hits:
                if (src, form) in seen:
                    continue
                seen.add((src, form))
                instances += 1
                ctx.call_sites += 1
                reason = SAFE_BUILDERS.get((rel, qual))
                if reason:
                    ctx.ob("R09.2", rel, call, qual, src, True, "reviewed exception: " + reason, form=form)
                else:
                    ctx.ob("R09.2", rel, call, qual, src, False,
                           "a location inside a gene is built by adding an offset to the gene's location.start/end instead of "
                           "going through the protein/nucleotide conversion: wrong for every multi-exon or origin-spanning gene",
                           form=form)
    # positive control: the rule must still see the sanctioned arithmetic it exempts
    conv = ctx.fn(LOC, "convert_protein_position_to_dna")
    ctx.ob("R09.2", LOC, conv, "convert_protein_position_to_dna", "positive control",
           any(_offsets_from_feature_location(conv, n.value) for n in walk_local(conv) if isinstance(n, ast.Assign)) or
           "location.start +" in txt(conv),
           "the pattern matcher recognises offset arithmetic on location.start in the sanctioned routine", form="")


def r09_3(ctx: Ctx) -> None:
    func = ctx.fn(HMMER, "build_hits")
    locs = [c for c in calls(func) if last_attr(c) == "get_sub_location_from_protein_coordinates"]
    if len(locs) != 1:
        raise AnalysisError("build_hits: sub-location call not found")
    from ..cfg import CFG as _CFG2
    from ..flow import inline_reaching as _res2
    bcfg = _CFG2(func)
    recv = txt(locs[0].func.value)  # type: ignore[attr-defined]
    keep_names = {recv.split(".")[0]}
    s, e = [txt(_res2(bcfg, locs[0], a, keep=keep_names)) for a in locs[0].args[:2]]
    records = []
    for node in walk_local(func):
        if isinstance(node, ast.Dict):
            records.append((node, {k.value: v for k, v in zip(node.keys, node.values) if isinstance(k, ast.Constant)}))
        elif isinstance(node, ast.Call) and call_name(node) == "HmmerHit" and node.keywords:
            records.append((node, {k.arg: k.value for k in node.keywords if k.arg}))
    ok = False
    form = ""
    for site, items in records:
        if "translation" in items and "protein_start" in items:
            tr = _res2(bcfg, site, items["translation"], keep=keep_names)
            def val(key: str) -> str:
                return txt(_res2(bcfg, site, items[key], keep=keep_names)) if key in items else ""
            ok = isinstance(tr, ast.Subscript) and isinstance(tr.slice, ast.Slice) and txt(tr.slice.lower) == s \
                and txt(tr.slice.upper) == e and val("protein_start") == s and val("protein_end") == e \
                and val("location").startswith("str(") and txt(tr.value) == f"{recv}.translation" \
                and val("locus_tag") == f"{recv}.get_name()"
            # the stored location is the sub-location computed from the same range
            loc_names = {txt(t) for n in walk_local(func) if isinstance(n, ast.Assign) and n.value is locs[0] for t in n.targets}
            ok = ok and (txt(items["location"]) in {f"str({name})" for name in loc_names} or val("location") == f"str({txt(locs[0])})"
                         or any(f"str({name})" == txt(items["location"]) for name in loc_names))
            form = f"location=sub({s}, {e}); translation={txt(tr)}"
    ctx.ob("R09.3", HMMER, locs[0], "build_hits", "range agreement", ok,
           "the protein range that positions a hit is the range that slices its translation and is stored with it, "
           "all on the same gene", form=form)
    # prepeptide partition
    func = ctx.fn(PREP, "Prepeptide.to_biopython")
    subs: Dict[str, Tuple[Affine, Affine]] = {}
    alias = {n.targets[0].id for n in walk_local(func) if isinstance(n, ast.Assign) and isinstance(n.targets[0], ast.Name)
             and txt(n.value) == "self.get_sub_location_from_protein_coordinates"}
    from ..cfg import CFG
    from ..flow import inline_reaching
    pcfg = CFG(func)
    env: Dict[str, Affine] = {}
    total_ok = True

    def atoms(node: ast.AST) -> Optional[str]:
        text = txt(node)
        if text == "len(self._leader)":
            return "LEAD"
        if text == "len(self._tail)":
            return "TAIL"
        if text == "len(self.location) // 3":
            return "T"
        return None
    for node in walk_local(func):
        if isinstance(node, ast.Assign) and isinstance(node.value, ast.Call) and \
                (call_name(node.value) in alias or last_attr(node.value) == "get_sub_location_from_protein_coordinates"):
            name = txt(node.targets[0])
            try:
                subs[name] = (affine(inline_reaching(pcfg, node, node.value.args[0]), env, atoms),
                              affine(inline_reaching(pcfg, node, node.value.args[1]), env, atoms))
            except OutsideFragment as err:
                ctx.cannot("R09.3", PREP, node, "Prepeptide.to_biopython", name, str(err))
    want = {
        "leader_location": (Affine(), Affine({"LEAD": 1})),
        "core_location": (Affine({"LEAD": 1}), Affine({"T": 1, "TAIL": -1})),
        "tail_location": (Affine({"T": 1, "TAIL": -1}), Affine({"T": 1})),
    }
    for name, (lo, hi) in want.items():
        got = subs.get(name)
        ok = got is not None and got[0] == lo and got[1] == hi
        ctx.ob("R09.3", PREP, func, "Prepeptide.to_biopython", name, ok and total_ok,
               "leader, core and tail partition [0, total) of the precursor with shared boundaries "
               "(total = len(location) // 3)", form=f"{name} = [{got[0]}, {got[1]})" if got else "missing")
    # the parts are residues of the precursor: their boundaries follow from the lengths of the leader, core and tail sequences.
    # A total taken from the nucleotide location counts the stop codon of the gene the location was copied from.
    totals = [n for n in walk_local(func) if isinstance(n, ast.Assign) and "len(self.location)" in txt(n.value)]
    by_sequence = not totals
    ctx.ob("R09.3", PREP, totals[0] if totals else func, "Prepeptide.to_biopython", "boundaries counted in residues", by_sequence,
           "the end of the core (and of the tail) is leader + core (+ tail) residues from the start: a boundary computed from the "
           "nucleotide length of the location is one residue too far when the location includes the gene's stop codon",
           detail="" if by_sequence else "all four RiPP modules pass the gene's location (stop codon included): gene [0:18) = MAGIC*, leader "
           "MA, core GIC gives the core location [6:18) = GIC*, and leader MA, core GI, tail C gives core [6:15) = GIC and "
           "tail [15:18) = *", form=stmt_key(totals[0]) if totals else "")
    # each part gets its own location
    feats = {txt(c.args[0]): c for c in calls(func) if call_name(c) == "SeqFeature" and c.args}
    ok = set(feats) == set(want)
    ctx.ob("R09.3", PREP, func, "Prepeptide.to_biopython", "features use their parts", ok,
           "the leader, core and tail features are created with the leader, core and tail locations respectively",
           form=str(sorted(feats)))


def r09_4(ctx: Ctx) -> None:
    """ the exon walk of the compound case: which exon holds the first base and which holds the last base is a
        half-open membership test - a range may start or end exactly at an exon border """
    qual = "Feature.get_sub_location_from_protein_coordinates"
    func = ctx.fn(FEAT, qual)
    pair = [n for n in walk_local(func) if isinstance(n, ast.Assign) and isinstance(n.value, ast.Call)
            and call_name(n.value) == "convert_protein_position_to_dna" and isinstance(n.targets[0], ast.Tuple)
            and len(n.targets[0].elts) == 2 and all(isinstance(e, ast.Name) for e in n.targets[0].elts)]
    if len(pair) != 1:
        raise AnalysisError(f"{qual}: the (dna start, dna end) pair from convert_protein_position_to_dna was not found")
    first, last = (e.id for e in pair[0].targets[0].elts)  # type: ignore[attr-defined]
    loops = [n for n in walk_local(func) if isinstance(n, ast.For) and isinstance(n.target, ast.Name)
             and ".parts" in txt(n.iter) and any(isinstance(x, ast.Call) and call_name(x) in ("FeatureLocation", "CompoundLocation")
                                                 for x in ast.walk(n))]
    if len(loops) != 1:
        raise AnalysisError(f"{qual}: the exon walk building the sub-location was not found")
    loop = loops[0]
    var = loop.target.id  # type: ignore[attr-defined]
    tests: List[ast.AST] = []
    for node in walk_local(loop):
        if isinstance(node, (ast.If, ast.IfExp, ast.While)):
            tests.append(node.test)
    count = 0
    from ..cfg import CFG as _CFG
    from ..flow import inline_reaching as _res
    wcfg = _CFG(func)
    for test in tests:
        for raw, _ in _split(test):
            lit = _res(wcfg, raw, raw, keep={first, last, var})
            names = {n.id for n in ast.walk(lit) if isinstance(n, ast.Name)}
            if var not in names or not names & {first, last}:
                continue
            count += 1
            if {first, last} <= names:
                ctx.cannot("R09.4", FEAT, lit, qual, f"exon test {txt(lit)}", "test mixes the first and the last base")
                continue
            spec = f"{first} in {var}" if first in names else f"{last} - 1 in {var}"
            try:
                ok, cex, n = decide(lit, parse(spec))
                ctx.ob("R09.4", FEAT, lit, qual, f"exon test on {'first' if first in names else 'last'} base #{count}", ok,
                       "an exon holds the first base / the last base (end - 1) of the range iff exon.start <= base < exon.end, "
                       "so ranges that start or end exactly at an exon border select the right exon",
                       detail=f"differs from `{spec}` at {cex}" if cex else f"{n} orderings enumerated", form=txt(lit))
            except OutsideFragment as err:
                ctx.cannot("R09.4", FEAT, lit, qual, f"exon test {txt(lit)}", str(err))
    if count < 3:
        raise AnalysisError(f"{qual}: expected 3 exon membership tests in the exon walk, found {count}")
    # the walk visits exons in ascending coordinate order (the arms assume start-before-end)
    from ..flow import key_function
    walk_key = key_function(ctx.repo, FEAT, func, kwarg(loop.iter, "key")) if isinstance(loop.iter, ast.Call) \
        and kwarg(loop.iter, "key") is not None else None
    ok = isinstance(loop.iter, ast.Call) and call_name(loop.iter) == "sorted" and walk_key is not None \
        and txt(walk_key[1]) == f"{walk_key[0]}.start" and kwarg(loop.iter, "reverse") is None
    ctx.ob("R09.4", FEAT, loop, qual, "exon walk order", ok,
           "the exons are visited in ascending start order, whatever the strand (parts are re-reversed afterwards)",
           form=txt(loop.iter))


def r09_6(ctx: Ctx) -> None:
    """ the protein->DNA conversion and the exon walk that follows it go through the exons in ascending coordinate order;
        that is the reading order (or its mirror) only for a gene that does not bridge the origin - for a gene that does,
        the exons after the origin are read *after* those before it.  The coordinate-ordered code may therefore only run
        on locations known not to bridge the origin (the bridging case is unrolled first) """
    from ..cfg import CFG
    from ..flow import fact_texts
    qual = "Feature.get_sub_location_from_protein_coordinates"
    func = ctx.fn(FEAT, qual)
    cfg = CFG(func)
    sites = [c for c in calls(func) if call_name(c) == "convert_protein_position_to_dna"]
    from ..flow import key_function as _key
    sites += [c for c in calls(func) if call_name(c) == "sorted" and c.args and txt(c.args[0]).endswith(".parts")
              and kwarg(c, "key") is not None and _key(ctx.repo, FEAT, func, kwarg(c, "key")) is not None
              and txt(_key(ctx.repo, FEAT, func, kwarg(c, "key"))[1]).endswith(".start")]
    if len(sites) < 2:
        raise AnalysisError(f"{qual}: the conversion call and the coordinate-ordered exon walk were not found")
    for call in sites:
        facts = fact_texts(cfg, call)
        guarded = any(f.startswith("not ") and ("bridges_origin" in f or "crosses_origin" in f) for f in facts)
        ctx.ob("R09.6", FEAT, call, qual, f"coordinate-ordered step {txt(call)[:50]}", guarded,
               "the coordinate-ordered conversion / exon walk runs only for genes that do not bridge the origin; a bridging "
               "gene is unrolled first (its post-origin exons continue from the end of the record) and the result wrapped back",
               detail="" if guarded else "for a forward gene join{[90:102),[0:21)} protein residues 0-2 map to [0:6) instead of [90:96)",
               form=f"under {sorted(facts)[-3:]}")
    unrolled = [c for c in calls(func) if last_attr(c) in ("_get_cross_origin_sub_location",)] + \
        [c for c in calls(func) if "bridges_origin" in call_name(c) or last_attr(c) == "crosses_origin"]
    ctx.ob("R09.6", FEAT, func, qual, "bridging genes handled", bool(unrolled),
           "a gene that bridges the origin takes a dedicated path", form="; ".join(txt(c)[:50] for c in unrolled[:2]))


SECMET = "antismash/common/secmet/"


def r09_5(ctx: Ctx) -> None:
    """ the codon_start frameshift is applied once per loaded feature: the base loader shifts the location when it finds
        the qualifier among the leftovers, so a subclass that also hands an already shifted location to its constructor
        shifts twice (the gene is then out of frame with its own translation) """
    from ..cfg import CFG
    count = 0
    for info in sorted((c for c in ctx.repo.subclasses("Feature") if c.module.rel.startswith(SECMET)), key=lambda c: c.qual):
        func = next((n for n in info.node.body if isinstance(n, ast.FunctionDef) and n.name == "from_biopython"), None)
        if func is None or "codon_start" not in txt(func):
            continue
        rel = info.module.rel
        qual = f"{info.name}.from_biopython"
        cfg = CFG(func)
        supers = [c for c in calls(func) if txt(c.func) == "super().from_biopython"]
        pops = [c for c in calls(func) if last_attr(c) == "pop" and c.args and isinstance(c.args[0], ast.Constant)
                and c.args[0].value == "codon_start"]
        ctors = [c for c in calls(func) if call_name(c) == "cls" and c.args]
        if not supers or not ctors:
            continue
        count += 1
        ctx.repo.consulted.add(rel)
        for ctor in ctors:
            shifted = []
            stack = [(ctor.args[0], ctor)]
            seen = set()
            while stack:
                expr, at = stack.pop()
                for node in ast.walk(expr):
                    if isinstance(node, ast.Call) and "frameshift" in last_attr(node) + call_name(node):
                        shifted.append(txt(node)[:70])
                    if isinstance(node, ast.Name) and node.id not in seen:
                        seen.add(node.id)
                        for d in cfg.reaching_defs(node.id, cfg.n(at)):
                            dnode = cfg.nodes[d].ast if d >= 0 else None
                            if isinstance(dnode, (ast.Assign, ast.AnnAssign)) and dnode.value is not None:
                                stack.append((dnode.value, dnode))
            popped_first = any(cfg.dominates(cfg.n(pp), cfg.n(supers[0])) for pp in pops)
            ok = not shifted or popped_first
            ctx.ob("R09.5", rel, ctor, qual, f"location handed to {txt(ctor)[:40]}", ok,
                   "the location given to the constructor is the unshifted one when the base loader is still going to apply "
                   "the codon_start qualifier (one frameshift per load)",
                   detail="" if ok else f"already shifted by {shifted[0]} and shifted again by the base loader",
                   form=f"constructor location derives from a frameshift: {bool(shifted)}; codon_start popped before super(): {popped_first}")
    if count < 1:
        raise AnalysisError("no feature loader handling codon_start before delegating to the base loader was found")


def _split(test: ast.AST):
    from ..flow import literals
    out = []
    for expr, truth in literals(test, True):
        if isinstance(expr, ast.BoolOp):
            for value in expr.values:
                out += _split(value)
        else:
            out.append((expr, truth))
    return out


def _ancestors(node: ast.AST):
    cur = getattr(node, "_parent", None)
    while cur is not None:
        yield cur
        cur = getattr(cur, "_parent", None)


def r09_7(ctx: Ctx) -> None:
    """ `split_origin_bridging_location` returns the pre- and post-origin sections of a location in *reading* order:
        ascending for a forward gene, descending for a reverse one.  The wrap point (end of the pre-origin section) and
        any other coordinate extreme taken from a section is therefore an aggregate over its parts (min / max), or is
        read under a test on the strand - never `section[0]` / `section[-1]`, which is an extreme on one strand only. """
    from ..flow import fact_texts
    files = [FEAT, LOC] if ctx.tier != "thorough" else sorted(ctx.repo.modules)
    count = 0
    for rel in files:
        for qual, func in ctx.repo.functions(rel):
            sections = set()
            for node in walk_local(func):
                if isinstance(node, ast.Assign) and isinstance(node.value, ast.Call) \
                        and call_name(node.value).split(".")[-1] == "split_origin_bridging_location" \
                        and isinstance(node.targets[0], ast.Tuple):
                    sections |= {e.id for e in node.targets[0].elts if isinstance(e, ast.Name) and e.id != "_"}
            if not sections:
                continue
            ctx.repo.consulted.add(rel)
            cfg = CFG(func)
            positional = [n for n in walk_local(func) if isinstance(n, ast.Attribute) and n.attr in ("start", "end")
                          and isinstance(n.value, ast.Subscript) and isinstance(n.value.value, ast.Name)
                          and n.value.value.id in sections and not isinstance(n.value.slice, ast.Slice)
                          and not any(isinstance(x, ast.Name) for x in ast.walk(n.value.slice))]
            count += 1
            bad = []
            for node in positional:
                stmt = next((a for a in [node] + list(_ancestors(node)) if isinstance(a, ast.stmt)), None)
                facts = fact_texts(cfg, stmt) if stmt is not None else set()
                if not any("strand" in f for f in facts):
                    bad.append(node)
            ctx.ob("R09.7", rel, bad[0] if bad else func, qual, "section extremes are aggregates", not bad,
                   "a coordinate extreme of a pre-/post-origin section (its parts are in reading order, descending on the "
                   "reverse strand) is taken with min/max over the parts or under a test on the strand",
                   detail="" if not bad else f"`{txt(bad[0])}` is the section's extreme on one strand only: for the reverse gene "
                   "join{[20:38](-), [270:291](-), [240:261](-)} the wrap point becomes 261 instead of 291",
                   form="; ".join(txt(n) for n in positional)[:120])
    if count < 2:
        raise AnalysisError(f"R09.7: expected at least 2 users of split_origin_bridging_location, found {count}")


def run(ctx: Ctx) -> None:
    ctx.rule("R09.1", "affine protein->DNA conversion for single-exon genes on both strands; range guard", floor=6)
    ctx.rule("R09.2", "in-gene locations are not built by offset arithmetic on location.start/end", floor=2)
    ctx.rule("R09.3", "callers use one protein range for location and translation; prepeptide partition", floor=5)
    r09_1(ctx)
    r09_2(ctx)
    r09_3(ctx)
    ctx.rule("R09.4", "exon membership tests of the compound sub-location walk are half-open", floor=4)
    r09_4(ctx)
    ctx.rule("R09.5", "codon_start is applied once per loaded feature", floor=1)
    r09_5(ctx)
    ctx.rule("R09.6", "coordinate-ordered exon walks never see a gene that bridges the origin", floor=3)
    r09_6(ctx)
    ctx.rule("R09.7", "extremes of origin sections are order-independent aggregates", floor=2)
    r09_7(ctx)
