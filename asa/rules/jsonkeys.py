""" Key tables of to_json / from_json pairs (family D).

    written(to_json): the top-level keys of the returned object, each marked
    unconditional or conditional; `super().to_json()` merges the ancestor's
    table; dynamic writers are resolved when static (`__slots__`
    comprehensions, `dataclasses.asdict(self)`, `vars(self)` of a dataclass)
    or reported as not analysable.
    read(from_json): top-level keys read on the JSON parameter, mandatory
    (`p[k]`, `p.pop(k)`) or optional (`p.get(k[, d])`, `p.pop(k, d)`, under
    `k in p`).
"""

from __future__ import annotations

import ast
from dataclasses import dataclass, field
from typing import Dict, List, Optional, Set, Tuple

from ..astutil import call_name, calls, guards, last_attr, txt, walk_local
from ..index import ClassInfo, Repo, dotted


@dataclass
class Written:
    keys: Dict[str, bool] = field(default_factory=dict)   # key -> unconditional?
    dynamic: Optional[str] = None                          # reason the table is open-ended
    shape: str = "dict"                                    # dict | list | other


@dataclass
class Read:
    keys: Dict[str, bool] = field(default_factory=dict)   # key -> mandatory?
    param: str = ""
    passthrough: bool = False                              # parameter handed on as a whole (e.g. cls(**data))


def _dict_keys(node: ast.Dict, out: Written, unconditional: bool) -> None:
    for key, val in zip(node.keys, node.values):
        if key is None:
            out.dynamic = out.dynamic or f"**{txt(val)[:40]}"
        elif isinstance(key, ast.Constant) and isinstance(key.value, str):
            out.keys[key.value] = out.keys.get(key.value, False) or unconditional
        else:
            out.dynamic = out.dynamic or f"computed key {txt(key)[:40]}"


def _class_fields(repo: Repo, info: ClassInfo) -> Optional[List[str]]:
    names: List[str] = []
    is_dc = False
    for cls in reversed(repo.mro(info)):
        if any("dataclass" in txt(d) for d in cls.node.decorator_list):
            is_dc = True
        for node in cls.node.body:
            if isinstance(node, ast.AnnAssign) and isinstance(node.target, ast.Name) and "ClassVar" not in txt(node.annotation) \
                    and "InitVar" not in txt(node.annotation):
                if node.target.id not in names:
                    names.append(node.target.id)
    return names if is_dc else None


def _slots(repo: Repo, info: ClassInfo) -> Optional[List[str]]:
    found = repo.class_attr_node(info, "__slots__")
    if found is None:
        return None
    val = repo.const(found[0].module, found[1])
    if isinstance(val, (list, tuple)) and all(isinstance(v, str) for v in val):
        return list(val)
    return None


def written_keys(repo: Repo, info: Optional[ClassInfo], func: ast.FunctionDef, depth: int = 0) -> Written:
    out = Written()
    rets = [r for r in walk_local(func) if isinstance(r, ast.Return) and r.value is not None]
    if not rets:
        out.dynamic = "no return"
        return out
    names: Set[str] = set()
    for ret in rets:
        val = ret.value
        if isinstance(val, ast.Dict):
            _dict_keys(val, out, unconditional=len(rets) == 1)
        elif isinstance(val, ast.Name) and val.id in ("self", "cls"):
            out.dynamic = out.dynamic or "returns the instance itself"
        elif isinstance(val, ast.Name):
            names.add(val.id)
        elif isinstance(val, (ast.List, ast.ListComp, ast.Tuple)):
            out.shape = "list"
        elif isinstance(val, ast.Call):
            out.dynamic = out.dynamic or f"returns {txt(val)[:50]}"
            _resolve_call(repo, info, val, out, depth)
        else:
            out.dynamic = out.dynamic or f"returns {txt(val)[:50]}"
    for name in names:
        for node in walk_local(func):
            cond = bool(guards(node, stop=func)) or any(isinstance(a, (ast.For, ast.While)) for a in _ancestors(node, func))
            if isinstance(node, (ast.Assign, ast.AnnAssign)):
                targets = node.targets if isinstance(node, ast.Assign) else [node.target]
                value = node.value
                for target in targets:
                    if isinstance(target, ast.Name) and target.id == name and value is not None:
                        if isinstance(value, ast.Dict):
                            _dict_keys(value, out, unconditional=not cond)
                        elif isinstance(value, ast.Call):
                            _resolve_call(repo, info, value, out, depth)
                        elif isinstance(value, (ast.List, ast.ListComp)):
                            out.shape = "list"
                        elif isinstance(value, ast.DictComp):
                            _resolve_dictcomp(repo, info, value, out)
                        else:
                            out.dynamic = out.dynamic or f"{name} = {txt(value)[:40]}"
                    elif isinstance(target, ast.Subscript) and isinstance(target.value, ast.Name) and target.value.id == name:
                        if isinstance(target.slice, ast.Constant) and isinstance(target.slice.value, str):
                            out.keys[target.slice.value] = out.keys.get(target.slice.value, False) or not cond
                        else:
                            out.dynamic = out.dynamic or f"{name}[{txt(target.slice)[:30]}] = ..."
            elif isinstance(node, ast.Delete):
                for target in node.targets:
                    if isinstance(target, ast.Subscript) and txt(target.value) == name and isinstance(target.slice, ast.Constant):
                        out.keys.pop(target.slice.value, None)
                    elif isinstance(target, ast.Subscript) and txt(target.value) == name:
                        out.dynamic = out.dynamic or f"del {name}[{txt(target.slice)[:30]}]"
            elif isinstance(node, ast.Call) and isinstance(node.func, ast.Attribute) and txt(node.func.value) == name:
                if node.func.attr == "update" and node.args and isinstance(node.args[0], ast.Dict):
                    _dict_keys(node.args[0], out, unconditional=not cond)
                elif node.func.attr == "update":
                    out.dynamic = out.dynamic or f"{name}.update({txt(node.args[0])[:30] if node.args else ''})"
                elif node.func.attr == "pop" and node.args and isinstance(node.args[0], ast.Constant):
                    out.keys.pop(node.args[0].value, None)
                elif node.func.attr == "setdefault" and node.args and isinstance(node.args[0], ast.Constant):
                    out.keys[node.args[0].value] = True
    return out


def _ancestors(node: ast.AST, stop: ast.AST):
    cur = getattr(node, "_parent", None)
    while cur is not None and cur is not stop:
        yield cur
        cur = getattr(cur, "_parent", None)


def _resolve_dictcomp(repo: Repo, info: Optional[ClassInfo], comp: ast.DictComp, out: Written) -> None:
    it = txt(comp.generators[0].iter)
    if info is not None and it in ("self.__slots__", f"{info.name}.__slots__"):
        slots = _slots(repo, info)
        if slots is not None:
            key = txt(comp.key)
            for slot in slots:
                k = slot.lstrip("_") if "lstrip" in key else slot
                out.keys[k] = True
            out.dynamic = None
            return
    out.dynamic = out.dynamic or f"dict comprehension over {it[:40]}"


def _init_attrs(repo: Repo, info: ClassInfo) -> Optional[List[str]]:
    """ attributes assigned as self.X = ... in __init__ along the MRO (only when no other method adds attributes) """
    attrs: List[str] = []
    seen_init = False
    for cls in reversed(repo.mro(info)):
        for node in cls.node.body:
            if isinstance(node, ast.FunctionDef):
                stores = [n.attr for n in ast.walk(node) if isinstance(n, ast.Attribute) and isinstance(n.ctx, ast.Store)
                          and isinstance(n.value, ast.Name) and n.value.id == "self"]
                if node.name in ("__init__", "__post_init__"):
                    seen_init = True
                    for attr in stores:
                        if attr not in attrs:
                            attrs.append(attr)
    fields = _class_fields(repo, info)
    if fields:
        for f in fields:
            if f not in attrs:
                attrs.append(f)
        seen_init = True
    return attrs if seen_init else None


def _resolve_call(repo: Repo, info: Optional[ClassInfo], call: ast.Call, out: Written, depth: int) -> None:
    name = call_name(call)
    if name == "dict" and len(call.args) == 1 and isinstance(call.args[0], ast.Call) and not call.keywords:
        inner = call.args[0]
        if call_name(inner) == "vars" and inner.args and txt(inner.args[0]) == "self":
            call = inner
            name = "vars"
    if name == "vars" and call.args and txt(call.args[0]) == "self" and info is not None:
        attrs = _init_attrs(repo, info)
        if attrs is not None:
            for attr in attrs:
                out.keys[attr] = True
            out.dynamic = None
            return
    if name in ("dataclasses.asdict", "asdict", "vars") and call.args and txt(call.args[0]) == "self" and info is not None:
        fields = _class_fields(repo, info)
        if fields is not None:
            for f in fields:
                out.keys[f] = True
            out.dynamic = None
            return
    if name in ("super().to_json",) and info is not None and depth < 4:
        for parent in repo.mro(info)[1:]:
            found = repo.method(parent, "to_json", inherited=False)
            if found:
                sub = written_keys(repo, parent, found[1], depth + 1)
                out.keys.update(sub.keys)
                out.dynamic = sub.dynamic
                return
    if name in ("dict", "OrderedDict") and call.keywords and not call.args:
        for kw in call.keywords:
            if kw.arg:
                out.keys[kw.arg] = True
        out.dynamic = None
        return
    out.dynamic = out.dynamic or f"built by {name}(...)"


def read_keys(func: ast.FunctionDef, skip_params: Tuple[str, ...] = ("cls", "self")) -> Read:
    params = [a.arg for a in func.args.args if a.arg not in skip_params]
    out = Read()
    if not params:
        return out
    param = params[0]
    out.param = param
    aliases = {param}
    for node in walk_local(func):
        if isinstance(node, ast.Subscript) and isinstance(node.value, ast.Name) and node.value.id in aliases \
                and isinstance(node.ctx, ast.Load):
            if isinstance(node.slice, ast.Constant) and isinstance(node.slice.value, str):
                key = node.slice.value
                guarded = any(pol and f"'{key}' in {param}" in txt(t).replace('"', "'") for t, pol in guards(node, stop=func))
                out.keys[key] = out.keys.get(key, False) or not guarded
        elif isinstance(node, ast.Call) and isinstance(node.func, ast.Attribute) and isinstance(node.func.value, ast.Name) \
                and node.func.value.id in aliases and node.args and isinstance(node.args[0], ast.Constant) \
                and isinstance(node.args[0].value, str):
            key = node.args[0].value
            if node.func.attr == "get":
                out.keys.setdefault(key, False)
            elif node.func.attr == "pop":
                out.keys[key] = out.keys.get(key, False) or len(node.args) == 1
        elif isinstance(node, ast.Call):
            for kw in node.keywords:
                if kw.arg is None and txt(kw.value) == param:
                    out.passthrough = True
            for arg in node.args:
                if isinstance(arg, ast.Name) and arg.id == param and call_name(node) not in ("isinstance", "len", "type", "str", "repr"):
                    out.passthrough = True
    return out
