""" C19 Region overview layout data is complete, non-overlapping and in range """

from __future__ import annotations

import ast
from typing import List, Set

from ..astutil import arg_of, call_name, calls, enclosing_loops, guards, kwarg, last_attr, stmt_key, txt, walk_local
from ..cfg import CFG
from ..flow import bound_from
from ..index import AnalysisError
from ..kernel import OutsideFragment, decide, parse, rename
from ..report import Ctx

PROP = "C19"
AP = "antismash/outputs/html/area_packing.py"

EXPLANATION = (
    "Decides the completeness clause and two structural conditions of the range clause: (R19.1) exactly-once - on every "
    "path through the packing loop each area is added to exactly one row, all three packed collections are converted, "
    "and the per-feature helper appends the area once (or the pre-split area and its twin once each); (R19.2) "
    "Area.offset shifts every coordinate field of the dataclass by the same amount and clone copies all fields with a "
    "shared group; (R19.3) the decision to shift an area of an origin-spanning region past the record length is made "
    "by containment in the region's post-origin part (or a comparison equivalent to it over all orderings)."
)
UNDECIDED = [
    "that no two areas on one row overlap (first-fit heuristic over sorted input)",
    "that every extent and gene lies within the announced range; core inside extent",
    "the coordinates produced by the five origin-handling branches",
]
TRUSTED = ["CPython ast", "asa.cfg", "integer-difference-logic small-model bound (asa.kernel.decide)"]


def r19_1(ctx: Ctx) -> None:
    qual = "pack"
    func = ctx.fn(AP, qual)
    cfg = CFG(func)
    loops = [n for n in func.body if isinstance(n, ast.For)]
    if len(loops) != 1:
        raise AnalysisError("pack: packing loop not found")
    outer = loops[0]
    var = txt(outer.target)
    adds = [c for c in calls(outer) if last_attr(c) == "add" and c.args and txt(c.args[0]) == var]
    head = cfg.n(outer)
    body = cfg.loop_body_nodes(outer)
    add_nodes = {cfg.n(a) for a in adds}
    starts = [dst for dst, lab in cfg.succ[head] if lab == "T"]
    skip = any(head in ({s} | cfg.reach([s], avoid=add_nodes, within=body | {head})) for s in starts if s not in add_nodes)
    ctx.ob("R19.1", AP, outer, qual, "at least once", bool(adds) and not skip,
           "no path through the packing loop body gets back to the loop header without adding the area to a row", form="")
    twice = any(other in cfg.reach([a], avoid=[head], within=body) for a in add_nodes for other in add_nodes)
    ctx.ob("R19.1", AP, outer, qual, "at most once", bool(adds) and not twice,
           "after an area has been added to a row no second add is reachable within the same iteration "
           "(the first fitting row ends the search)", form=f"{len(adds)} add sites")
    fits = [n for n in walk_local(outer) if isinstance(n, ast.If) and "can_fit" in txt(n.test)]
    ok = bool(fits) and any(isinstance(s, ast.Break) for s in fits[0].body)
    ctx.ob("R19.1", AP, fits[0] if fits else outer, qual, "fit test guards the add", ok,
           "an area is added to an existing row only if that row can fit it", form=txt(fits[0].test) if fits else "")
    qual = "build_area_rows"
    func = ctx.fn(AP, qual)
    packs = {txt(n.targets[0]): txt(n.value.args[0]) for n in walk_local(func)
             if isinstance(n, ast.Assign) and isinstance(n.value, ast.Call) and call_name(n.value) == "pack"}
    sources = sorted(packs.values())
    ok = sources == sorted(["region.subregions", "candidates_to_include", "region.get_unique_protoclusters()"])
    ctx.ob("R19.1", AP, func, qual, "three collections packed", ok,
           "subregions, candidate clusters and the unique protoclusters are each packed into rows", form=str(packs))
    iterated: Set[str] = set()
    for loop in [n for n in walk_local(func) if isinstance(n, ast.For)]:
        names = {n.id for n in ast.walk(loop.iter) if isinstance(n, ast.Name)}
        inner = [n for n in loop.body if isinstance(n, ast.For) and txt(n.iter) == f"{txt(loop.target)}.contents"]
        if names & set(packs) and inner and any(call_name(c) == "add_area_from_feature" and txt(c.args[0]) == txt(inner[0].target)
                                                for c in calls(inner[0])):
            iterated |= names & set(packs)
    ctx.ob("R19.1", AP, func, qual, "every packed row converted", iterated == set(packs),
           "every feature of every packed row is converted into an area", form=f"iterated={sorted(iterated)} packed={sorted(packs)}")
    helper = ctx.fn(AP, "build_area_rows.add_area_from_feature")
    cfg = CFG(helper)
    appends = [c for c in calls(helper) if txt(c.func) == "converted.append"]
    final = [a for a in appends if not guards(a, stop=helper)]
    ok = len(final) == 1 and cfg.postdominates(cfg.n(final[0]), cfg.entry) and txt(final[0].args[0]) == "new"
    ctx.ob("R19.1", AP, final[0] if final else helper, "build_area_rows.add_area_from_feature", "area appended once", ok,
           "every feature contributes its area exactly once, unconditionally, at the end of the helper", form="")
    splits = [a for a in appends if a not in final]
    ok = len(splits) <= 1 and all(any(pol and txt(t) == "extra" for t, pol in guards(a, stop=helper)) for a in splits) and \
        all(any(isinstance(s, ast.Assign) and txt(s.targets[0]) == "new" and txt(s.value) == "extra"
                for s in getattr(getattr(a, "_parent", None), "_parent", helper).body) for a in splits)
    ctx.ob("R19.1", AP, splits[0] if splits else helper, "build_area_rows.add_area_from_feature", "split halves once each", ok,
           "when an area had to be split, the first half is appended and the second half takes the place of the area for the "
           "final append (two linked halves, once each)", form="")
    ret = [r for r in walk_local(func) if isinstance(r, ast.Return)]
    ok = len(ret) == 1 and txt(ret[0].value) == "[area.to_minimal_json() for area in converted]"
    ctx.ob("R19.1", AP, func, qual, "all areas returned", ok, "every converted area is emitted", form="")


def r19_2(ctx: Ctx) -> None:
    info = ctx.repo.cls(AP, "Area")
    fields = [(n.target.id, txt(n.annotation)) for n in info.node.body if isinstance(n, ast.AnnAssign) and isinstance(n.target, ast.Name)]
    coords = {name for name, ann in fields if ann == "int" and ("start" in name or "end" in name)}
    func = ctx.fn(AP, "Area.offset")
    param = func.args.args[1].arg
    shifted = {n.target.attr for n in walk_local(func) if isinstance(n, ast.AugAssign) and isinstance(n.op, ast.Add)
               and isinstance(n.target, ast.Attribute) and txt(n.target.value) == "self" and txt(n.value) == param}
    ctx.ob("R19.2", AP, func, "Area.offset", "all coordinate fields shifted", shifted == coords and len(coords) >= 4,
           "offset adds the same distance to every coordinate field of the area", form=f"fields={sorted(coords)} shifted={sorted(shifted)}")
    clone = ctx.fn(AP, "Area.clone")
    ok = "Area(**dataclasses.asdict(self))" in txt(clone) and "self.group = id(self)" in txt(clone)
    cfg = CFG(clone)
    ret = [r for r in walk_local(clone) if isinstance(r, ast.Return)]
    grp = [n for n in walk_local(clone) if isinstance(n, ast.Assign) and txt(n.targets[0]) == "self.group"]
    ok = ok and bool(ret) and bool(grp) and not cfg.exists_path(cfg.n(ret[0]), cfg.n(grp[0]))
    ctx.ob("R19.2", AP, clone, "Area.clone", "clone copies all fields and shares the group", ok,
           "a split produces a full copy and both halves carry the same group identifier (set before copying)", form="")
    post = ctx.fn(AP, "Area.__post_init__")
    ok = "self.neighbouring_start = self.start" in txt(post) and "self.neighbouring_end = self.end" in txt(post)
    ctx.ob("R19.2", AP, post, "Area.__post_init__", "extent defaults to the core", ok,
           "an area without a separate extent uses its own start/end as extent", form="")


def r19_3(ctx: Ctx) -> None:
    helper = ctx.fn(AP, "build_area_rows.add_area_from_feature")
    offs = [c for c in calls(helper) if last_attr(c) == "offset" and txt(c.func.value) == "new"]  # type: ignore
    if not offs:
        raise AnalysisError("add_area_from_feature: shift of post-origin areas not found")
    from ..flow import inline_reaching, path_facts
    hcfg = CFG(helper)
    for call in offs:
        conj: List[ast.AST] = []
        for expr, truth in path_facts(hcfg, call):
            conj.append(expr if truth else ast.UnaryOp(op=ast.Not(), operand=expr))
        texts = [txt(c) for c in conj]
        ctx.ob("R19.3", AP, call, "build_area_rows.add_area_from_feature", "shift amount", txt(call.args[0]) == "record_length",
               "positions after the origin are shifted by the record length", form=txt(call))
        ctx.ob("R19.3", AP, call, "build_area_rows.add_area_from_feature", "only for origin-spanning regions",
               "region.crosses_origin()" in texts and "extend_over_origin" in texts,
               "the shift applies only when the record is circular and the region spans the origin", form=" and ".join(texts))
        # the arm for areas that themselves span the origin is handled separately (its negation holds here)
        placement = [c for c in conj if txt(c) not in ("region.crosses_origin()", "extend_over_origin")
                     and "feature.crosses_origin()" not in txt(c)]
        ok = False
        form = " and ".join(txt(p) for p in placement)
        if len(placement) == 1 and isinstance(placement[0], ast.Call) and last_attr(placement[0]) == "is_contained_by":
            arg = txt(placement[0].args[0])
            ok = txt(placement[0].func.value) == "feature" and arg in ("region.location.parts[-1]", "region.location.parts[1]")  # type: ignore
        elif placement:
            expr = placement[0] if len(placement) == 1 else ast.BoolOp(op=ast.And(), values=placement)
            mapping = {"feature.start": "f_s", "feature.end": "f_e", "region.end": "r_e", "region.start": "r_s",
                       "feature.location.start": "f_s", "feature.location.end": "f_e"}
            try:
                # region spans the origin: r_e < r_s; a non-spanning feature inside it lies either in [r_s, L) or in [0, r_e]
                pre = parse("f_s < f_e and r_e < r_s and (f_e <= r_e or f_s >= r_s)")
                ok, cex, n = decide(rename(expr, mapping), parse("f_e <= r_e"), pre=pre)
                form += f"  ({'equivalent to containment in the post-origin part' if ok else f'differs from containment, e.g. {cex}'})"
            except OutsideFragment as err:
                ctx.cannot("R19.3", AP, call, "build_area_rows.add_area_from_feature", "placement test", str(err))
                continue
        ctx.ob("R19.3", AP, call, "build_area_rows.add_area_from_feature", "placement test", ok,
               "an area is shifted exactly when it lies in the post-origin part of the region (containment in the region's last "
               "part, or a comparison equivalent to it - an area ending exactly at the region's end is post-origin too)", form=form)
    func = ctx.fn(AP, "build_area_rows")
    vals = [txt(v) for v in bound_from(func, "extend_over_origin")]
    ok = vals == ["circular and (region.crosses_origin() or (region.start == 0 and region.end == record_length))"]
    ctx.ob("R19.3", AP, func, "build_area_rows", "origin handling enabled", ok,
           "origin handling is enabled for circular records when the region spans the origin or covers the whole record", form=str(vals))
    adj = [c for c in calls(helper) if call_name(c) == "adjust_cross_origin_area"]
    ok = len(adj) == 1 and [txt(a) for a in adj[0].args] == ["new", "feature", "region.crosses_origin()", "record_length"] and \
        any(truth and "feature.crosses_origin()" in txt(expr) for expr, truth in path_facts(hcfg, adj[0]))
    ctx.ob("R19.3", AP, adj[0] if adj else helper, "build_area_rows.add_area_from_feature", "spanning areas adjusted", ok,
           "an area that itself spans the origin goes through the dedicated adjustment with the record length", form="")


REGION = "antismash/common/secmet/features/region/structures.py"


def r19_4(ctx: Ctx) -> None:
    """ the protoclusters of a spanning region are ordered by a key that moves post-origin members past the record
        length: the coordinate that is tested for 'post-origin' is the coordinate that is shifted and sorted on """
    from ..flow import path_facts
    from ..index import dotted
    qual = "Region.get_unique_protoclusters"
    func = ctx.fn(REGION, qual)
    keys = [kwarg(c, "key") for c in calls(func) if call_name(c) == "sorted" and kwarg(c, "key") is not None]
    nested = {n.name: n for n in ast.walk(func) if isinstance(n, ast.FunctionDef) and n is not func}
    count = 0
    for key in keys:
        target = nested.get(txt(key)) if isinstance(key, ast.Name) else None
        if target is None:
            ctx.cannot("R19.4", REGION, key, qual, "sort key", f"sort key `{txt(key)[:60]}` is not a local function")
            continue
        param = target.args.args[0].arg
        cfg = CFG(target)
        for ret in [n for n in walk_local(target) if isinstance(n, ast.Return) and n.value is not None]:
            first = ret.value.elts[0] if isinstance(ret.value, ast.Tuple) and ret.value.elts else ret.value
            if not (isinstance(first, ast.BinOp) and isinstance(first.op, ast.Add)):
                continue
            sides = [first.left, first.right]
            mine = [x for x in sides if dotted(x) and dotted(x).split(".")[0] == param]
            if len(mine) != 1:
                continue
            count += 1
            accessor = dotted(mine[0])
            tested = set()
            for expr, truth in path_facts(cfg, ret):
                for sub in ast.walk(expr):
                    if isinstance(sub, ast.Compare):
                        for side in [sub.left] + list(sub.comparators):
                            d = dotted(side)
                            if d and d.split(".")[0] == param:
                                tested.add(d)
            ctx.ob("R19.4", REGION, ret, f"{qual}.{target.name}", f"shifted coordinate {accessor}", tested == {accessor},
                   "a member of a spanning region is moved past the record length exactly when the coordinate it is sorted by "
                   "lies after the origin: the coordinate tested is the coordinate shifted (testing another one mis-places "
                   "members that straddle the threshold, and the drawing order no longer equals the genome order)",
                   detail="" if tested == {accessor} else f"tests {sorted(tested)} but shifts {accessor}",
                   form=f"return {txt(ret.value)[:80]} under tests on {sorted(tested)}")
    if count < 1:
        raise AnalysisError(f"{qual}: the shifting sort key for spanning regions was not found")


def run(ctx: Ctx) -> None:
    ctx.rule("R19.1", "exactly-once: packing loop, converted collections, per-feature helper", floor=8)
    ctx.rule("R19.2", "Area.offset shifts every coordinate field; clone copies all and shares the group", floor=3)
    ctx.rule("R19.3", "post-origin areas of a spanning region are shifted by the record length, chosen by containment", floor=5)
    r19_1(ctx)
    r19_2(ctx)
    r19_3(ctx)
    ctx.rule("R19.4", "spanning-region sort key tests the coordinate it shifts", floor=1)
    r19_4(ctx)
