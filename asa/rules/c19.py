""" C19 Region overview layout data is complete, non-overlapping and in range """

from __future__ import annotations

import ast
from typing import List, Set, Tuple

from ..astutil import arg_of, call_name, calls, enclosing_loops, guards, kwarg, last_attr, stmt_key, txt, walk_local
from ..cfg import CFG
from ..flow import bound_from, inline_reaching, path_facts
from ..index import AnalysisError
from ..kernel import OutsideFragment, decide, parse, rename
from ..report import Ctx

PROP = "C19"
AP = "antismash/outputs/html/area_packing.py"

EXPLANATION = (
    "Decides the completeness clause and two structural conditions of the range clause: (R19.1) exactly-once - on every "
    "path through the packing loop each area is added to exactly one row, all three packed collections are converted, "
    "and the per-feature helper appends the area once (or the pre-split area and its twin once each); (R19.2) "
    "Area.offset shifts every coordinate field of the dataclass by the same amount and clone copies all fields with a "
    "shared group; (R19.3) the decision to shift an area of an origin-spanning region past the record length is made "
    "by containment in the region's post-origin part (or a comparison equivalent to it over all orderings)."
)
UNDECIDED = [
    "that no two areas on one row overlap (first-fit heuristic over sorted input)",
    "that every extent and gene lies within the announced range; core inside extent",
    "the coordinates produced by the five origin-handling branches",
]
TRUSTED = ["CPython ast", "asa.cfg", "integer-difference-logic small-model bound (asa.kernel.decide)"]


def _first_fit_helper(repo, rel: str, call: ast.Call, var: str) -> bool:
    """ the called module-level helper returns a row only under the fact <row>.can_fit(<the area>), else None """
    try:
        helper = repo.func(rel, call.func.id)  # type: ignore[attr-defined]
    except (AnalysisError, KeyError):
        return False
    params = [a.arg for a in helper.args.args]
    area = [p for p, a in zip(params, call.args) if txt(a) == var]
    if len(area) != 1:
        return False
    hcfg = CFG(helper)
    rets = [r for r in walk_local(helper) if isinstance(r, ast.Return)]
    rows = 0
    for ret in rets:
        if ret.value is None or isinstance(ret.value, ast.Constant) and ret.value.value is None:
            continue
        if not isinstance(ret.value, ast.Name):
            return False
        if not any(truth and isinstance(e, ast.Call) and last_attr(e) == "can_fit" and txt(e.func.value) == ret.value.id  # type: ignore
                   and e.args and txt(e.args[0]) == area[0] for e, truth in path_facts(hcfg, ret, fresh_only=True)):
            return False
        rows += 1
    return rows > 0


def _fresh_or_fitting(cfg: CFG, func: ast.AST, add: ast.Call, var: str, repo=None, rel: str = "") -> Tuple[bool, str]:
    """ is the row that receives the area either proven to fit it or freshly created? """
    recv = add.func.value  # type: ignore[attr-defined]
    # (i) `row.add(area)` under the fact row.can_fit(area)
    for expr, truth in path_facts(cfg, add):
        if truth and isinstance(expr, ast.Call) and last_attr(expr) == "can_fit" and txt(expr.func.value) == txt(recv) \
                and expr.args and txt(expr.args[0]) == var:  # type: ignore[attr-defined]
            return True, f"under {txt(expr)}"
    # (ii) rows[-1] right after rows.append(Row())
    if isinstance(recv, ast.Subscript) and txt(recv.slice) == "-1":
        base = txt(recv.value)
        fresh = [c for c in calls(func) if txt(c.func) == f"{base}.append" and c.args and isinstance(c.args[0], ast.Call)
                 and call_name(c.args[0]) == "Row" and cfg.dominates(cfg.n(c), cfg.n(add)) and cfg.n(c) != cfg.n(add)]
        if fresh:
            return True, "fresh row appended just before"
    # (iii) a local: every reaching definition is a fresh Row() or the first row that fits
    if isinstance(recv, ast.Name):
        verdicts = []
        for d in cfg.reaching_defs(recv.id, cfg.n(add)):
            node = cfg.nodes[d].ast if d >= 0 else None
            value = node.value if isinstance(node, (ast.Assign, ast.AnnAssign)) else None
            if isinstance(value, ast.Call) and call_name(value) == "Row":
                verdicts.append("fresh Row()")
            elif isinstance(value, ast.Call) and call_name(value) == "next" and value.args \
                    and isinstance(value.args[0], ast.GeneratorExp) and len(value.args[0].generators) == 1 \
                    and any(isinstance(t, ast.Call) and last_attr(t) == "can_fit" and t.args and txt(t.args[0]) == var
                            and txt(t.func.value) == txt(value.args[0].generators[0].target)  # type: ignore[attr-defined]
                            for t in value.args[0].generators[0].ifs) \
                    and txt(value.args[0].elt) == txt(value.args[0].generators[0].target):
                verdicts.append("first row that can fit")
            elif isinstance(value, ast.Call) and isinstance(value.func, ast.Name) and repo is not None \
                    and _first_fit_helper(repo, rel, value, var):
                verdicts.append(f"{value.func.id}: first row that can fit, if any")
            else:
                return False, f"`{recv.id}` may be a row not tested with can_fit"
        return bool(verdicts), "; ".join(verdicts)
    return False, f"receiver {txt(recv)} not recognised"


def r19_1(ctx: Ctx) -> None:
    qual = "pack"
    func = ctx.fn(AP, qual, inline=True)
    cfg = CFG(func)
    loops = [n for n in func.body if isinstance(n, ast.For)]
    if len(loops) != 1:
        raise AnalysisError("pack: packing loop not found")
    outer = loops[0]
    var = txt(outer.target)
    adds = [c for c in calls(outer) if last_attr(c) == "add" and c.args and txt(c.args[0]) == var]
    head = cfg.n(outer)
    body = cfg.loop_body_nodes(outer)
    add_nodes = {cfg.n(a) for a in adds}
    starts = [dst for dst, lab in cfg.succ[head] if lab == "T"]
    skip = any(head in ({s} | cfg.reach([s], avoid=add_nodes, within=body | {head})) for s in starts if s not in add_nodes)
    ctx.ob("R19.1", AP, outer, qual, "at least once", bool(adds) and not skip,
           "no path through the packing loop body gets back to the loop header without adding the area to a row", form="")
    twice = any(other in cfg.reach([a], avoid=[head], within=body) for a in add_nodes for other in add_nodes)
    ctx.ob("R19.1", AP, outer, qual, "at most once", bool(adds) and not twice,
           "after an area has been added to a row no second add is reachable within the same iteration "
           "(the first fitting row ends the search)", form=f"{len(adds)} add sites")
    verdicts = [_fresh_or_fitting(cfg, func, a, var, ctx.repo, AP) for a in adds]
    ctx.ob("R19.1", AP, adds[0] if adds else outer, qual, "fit test guards the add", bool(adds) and all(v for v, _ in verdicts),
           "an area is added to an existing row only if that row can fit it (or to a freshly created row)",
           form="; ".join(w for _, w in verdicts))
    qual = "build_area_rows"
    func = ctx.fn(AP, qual)
    fcfg = CFG(func)
    packs = {}
    for n in walk_local(func):
        if isinstance(n, ast.Assign) and isinstance(n.value, ast.Call) and call_name(n.value) == "pack" and n.value.args:
            resolved = inline_reaching(fcfg, n, n.value.args[0])
            text = txt(resolved)
            if isinstance(n.value.args[0], ast.Name):
                name = n.value.args[0].id
                parts = [txt(v) for v in bound_from(func, name)]
                parts += [f"for {txt(lp.target)} in {txt(lp.iter)}" for lp in walk_local(func) if isinstance(lp, ast.For)
                          and any(isinstance(c, ast.Call) and txt(c.func) in (f"{name}.append", f"{name}.extend") for c in ast.walk(lp))]
                text = "; ".join(parts) or text
            packs[txt(n.targets[0])] = text
    sources = sorted(packs.values())
    ok = len(packs) == 3 and "region.subregions" in sources and "region.get_unique_protoclusters()" in sources and \
        any("region.candidate_clusters" in x for x in sources)
    ctx.ob("R19.1", AP, func, qual, "three collections packed", ok,
           "subregions, candidate clusters and the unique protoclusters are each packed into rows", form=str(packs)[:200])
    iterated: Set[str] = set()
    for loop in [n for n in walk_local(func) if isinstance(n, ast.For)]:
        names = {n.id for n in ast.walk(loop.iter) if isinstance(n, ast.Name)}
        inner = [n for n in loop.body if isinstance(n, ast.For) and txt(n.iter) == f"{txt(loop.target)}.contents"]
        if names & set(packs) and inner and any(call_name(c) == "add_area_from_feature" and txt(c.args[0]) == txt(inner[0].target)
                                                for c in calls(inner[0])):
            iterated |= names & set(packs)
    ctx.ob("R19.1", AP, func, qual, "every packed row converted", iterated == set(packs),
           "every feature of every packed row is converted into an area", form=f"iterated={sorted(iterated)} packed={sorted(packs)}")
    helper = ctx.fn(AP, "build_area_rows.add_area_from_feature")
    cfg = CFG(helper)
    area_names = {txt(n.targets[0]) for n in walk_local(helper) if isinstance(n, ast.Assign) and isinstance(n.value, ast.Call)
                  and last_attr(n.value) == "from_feature"}
    extra_names = {txt(n.targets[0]) for n in walk_local(helper) if isinstance(n, ast.Assign) and isinstance(n.value, ast.Call)
                   and call_name(n.value) == "adjust_cross_origin_area"}
    appends = [c for c in calls(helper) if txt(c.func) == "converted.append"]

    def has_extra(expr: ast.AST, truth: bool) -> bool:
        """ the fact says that the split produced a second half """
        if txt(expr) in extra_names:
            return truth
        if isinstance(expr, ast.Compare) and len(expr.ops) == 1 and txt(expr.left) in extra_names \
                and isinstance(expr.comparators[0], ast.Constant) and expr.comparators[0].value is None:
            return isinstance(expr.ops[0], ast.IsNot) and truth or isinstance(expr.ops[0], ast.Is) and not truth
        return False
    splits = [a for a in appends if any(has_extra(e, t) for e, t in path_facts(cfg, a))]
    final = [a for a in appends if a not in splits]
    final_nodes = {cfg.n(a) for a in final}
    # every path through the helper passes exactly one of the final appends
    missed = cfg.exit in cfg.reach([cfg.entry], avoid=final_nodes)
    doubled = any(other in cfg.reach([a]) for a in final_nodes for other in final_nodes)
    ok = bool(final) and not missed and not doubled and all(txt(a.args[0]) in area_names for a in final)
    ctx.ob("R19.1", AP, final[0] if final else helper, "build_area_rows.add_area_from_feature", "area appended once", ok,
           "every feature contributes its area exactly once on every path through the helper", form=f"{len(final)} final append(s)")
    ok = len(splits) <= 1
    for a in splits:
        takeovers = {cfg.n(st) for st in walk_local(helper) if isinstance(st, ast.Assign) and txt(st.targets[0]) in area_names
                     and txt(st.value) in extra_names}
        # after the first half has been appended, the second half takes the area's place before the final append
        takes_over = bool(takeovers) and not (final_nodes & cfg.reach([cfg.n(a)], avoid=takeovers)) \
            and bool(final_nodes & cfg.reach([cfg.n(a)]))
        ok = ok and takes_over and txt(a.args[0]) in area_names
    ctx.ob("R19.1", AP, splits[0] if splits else helper, "build_area_rows.add_area_from_feature", "split halves once each", ok,
           "when an area had to be split, the first half is appended and the second half takes the place of the area for the "
           "final append (two linked halves, once each)", form="")
    ret = [r for r in walk_local(func) if isinstance(r, ast.Return)]
    comp = ret[0].value if len(ret) == 1 else None
    if isinstance(comp, ast.Call) and call_name(comp) in ("list", "tuple") and len(comp.args) == 1 and not comp.keywords:
        comp = comp.args[0]
    ok = isinstance(comp, (ast.ListComp, ast.GeneratorExp)) and len(comp.generators) == 1 \
        and txt(comp.generators[0].iter) == "converted" and not comp.generators[0].ifs \
        and txt(comp.elt) == f"{txt(comp.generators[0].target)}.to_minimal_json()"
    ctx.ob("R19.1", AP, func, qual, "all areas returned", ok, "every converted area is emitted", form="")


def r19_2(ctx: Ctx) -> None:
    info = ctx.repo.cls(AP, "Area")
    fields = [(n.target.id, txt(n.annotation)) for n in info.node.body if isinstance(n, ast.AnnAssign) and isinstance(n.target, ast.Name)]
    coords = {name for name, ann in fields if ann == "int" and ("start" in name or "end" in name)}
    func = ctx.fn(AP, "Area.offset")
    param = func.args.args[1].arg
    shifted = {n.target.attr for n in walk_local(func) if isinstance(n, ast.AugAssign) and isinstance(n.op, ast.Add)
               and isinstance(n.target, ast.Attribute) and txt(n.target.value) == "self" and txt(n.value) == param}
    ctx.ob("R19.2", AP, func, "Area.offset", "all coordinate fields shifted", shifted == coords and len(coords) >= 4,
           "offset adds the same distance to every coordinate field of the area", form=f"fields={sorted(coords)} shifted={sorted(shifted)}")
    clone = ctx.fn(AP, "Area.clone")
    cfg = CFG(clone)
    ret = [r for r in walk_local(clone) if isinstance(r, ast.Return) and r.value is not None]
    grp = [n for n in walk_local(clone) if isinstance(n, ast.Assign) and txt(n.targets[0]) == "self.group" and txt(n.value) == "id(self)"]
    copies = ("Area(**dataclasses.asdict(self))", "Area(**asdict(self))", "dataclasses.replace(self)", "replace(self)",
              "copy.copy(self)", "type(self)(**dataclasses.asdict(self))")
    ok = bool(ret) and all(txt(inline_reaching(cfg, r, r.value)) in copies for r in ret)
    ok = ok and bool(ret) and bool(grp) and not cfg.exists_path(cfg.n(ret[0]), cfg.n(grp[0]))
    ctx.ob("R19.2", AP, clone, "Area.clone", "clone copies all fields and shares the group", ok,
           "a split produces a full copy and both halves carry the same group identifier (set before copying)", form="")
    post = ctx.fn(AP, "Area.__post_init__")
    ok = "self.neighbouring_start = self.start" in txt(post) and "self.neighbouring_end = self.end" in txt(post)
    ctx.ob("R19.2", AP, post, "Area.__post_init__", "extent defaults to the core", ok,
           "an area without a separate extent uses its own start/end as extent", form="")


def r19_3(ctx: Ctx) -> None:
    helper = ctx.fn(AP, "build_area_rows.add_area_from_feature")
    func = ctx.fn(AP, "build_area_rows")
    fcfg = CFG(func)
    hcfg = CFG(helper)
    feature = helper.args.args[0].arg
    area_names = {txt(n.targets[0]) for n in walk_local(helper) if isinstance(n, ast.Assign) and isinstance(n.value, ast.Call)
                  and last_attr(n.value) == "from_feature"}
    offs = [c for c in calls(helper) if last_attr(c) == "offset" and txt(c.func.value) in area_names]  # type: ignore
    if not offs:
        raise AnalysisError("add_area_from_feature: shift of post-origin areas not found")
    # the flag that enables origin handling: a local of the outer function whose value mentions the `circular` parameter
    enable_names = {t.id for n in walk_local(func) if isinstance(n, ast.Assign) for t in n.targets if isinstance(t, ast.Name)
                    and any(isinstance(x, ast.Name) and x.id == "circular" for x in ast.walk(n.value))}

    def classify(expr: ast.AST) -> str:
        if isinstance(expr, ast.Name) and expr.id in enable_names:
            return "enabled"
        resolved = txt(inline_reaching(hcfg, expr, expr))
        if resolved == "region.crosses_origin()":
            return "region spans"
        if f"{feature}.crosses_origin()" in resolved:
            return "area spans"
        return "placement"
    for call in offs:
        classes: dict = {}
        for expr, truth in path_facts(hcfg, call):
            kind = classify(expr)
            classes.setdefault(kind, []).append(expr if truth else ast.UnaryOp(op=ast.Not(), operand=expr))
            if kind in ("enabled", "region spans") and not truth:
                classes.setdefault("negated", []).append(expr)
        ctx.ob("R19.3", AP, call, "build_area_rows.add_area_from_feature", "shift amount", txt(call.args[0]) == "record_length",
               "positions after the origin are shifted by the record length", form=txt(call))
        ctx.ob("R19.3", AP, call, "build_area_rows.add_area_from_feature", "only for origin-spanning regions",
               "enabled" in classes and "region spans" in classes and "negated" not in classes,
               "the shift applies only when the record is circular and the region spans the origin",
               form=" and ".join(txt(e) for group in classes.values() for e in group))
        placement = classes.get("placement", [])
        ok = False
        form = " and ".join(txt(p) for p in placement)
        if len(placement) == 1 and isinstance(placement[0], ast.Call) and last_attr(placement[0]) == "is_contained_by":
            arg = txt(inline_reaching(hcfg, call, placement[0].args[0]))
            ok = txt(placement[0].func.value) == feature and arg in ("region.location.parts[-1]", "region.location.parts[1]")  # type: ignore
        elif placement:
            expr = placement[0] if len(placement) == 1 else ast.BoolOp(op=ast.And(), values=placement)
            mapping = {f"{feature}.start": "f_s", f"{feature}.end": "f_e", "region.end": "r_e", "region.start": "r_s",
                       f"{feature}.location.start": "f_s", f"{feature}.location.end": "f_e"}
            try:
                # region spans the origin: r_e <= r_s (equal when areas overlapping across the origin abut on the other
                # side and the region covers the whole circle as join{[s:L), [0:s)}); a non-spanning feature inside it
                # lies either in [r_s, L) or in [0, r_e]
                pre = parse("f_s < f_e and r_e <= r_s and (f_e <= r_e or f_s >= r_s)")
                ok, cex, n = decide(rename(expr, mapping), parse("f_e <= r_e"), pre=pre)
                form += f"  ({'equivalent to containment in the post-origin part' if ok else f'differs from containment, e.g. {cex}'})"
            except OutsideFragment as err:
                ctx.cannot("R19.3", AP, call, "build_area_rows.add_area_from_feature", "placement test", str(err))
                continue
        ctx.ob("R19.3", AP, call, "build_area_rows.add_area_from_feature", "placement test", ok,
               "an area is shifted exactly when it lies in the post-origin part of the region (containment in the region's last "
               "part, or a comparison equivalent to it - an area ending exactly at the region's end is post-origin too)", form=form)
    from ..flow import nnf
    want = nnf(parse("circular and (region.crosses_origin() or (region.start == 0 and region.end == record_length))"))
    got = []
    for name in sorted(enable_names):
        for node in walk_local(func):
            if isinstance(node, ast.Assign) and any(isinstance(t, ast.Name) and t.id == name for t in node.targets):
                got.append(nnf(inline_reaching(fcfg, node, node.value)))
    ok = len(got) == 1 and got[0] == want
    ctx.ob("R19.3", AP, func, "build_area_rows", "origin handling enabled", ok,
           "origin handling is enabled for circular records when the region spans the origin or covers the whole record",
           form=str(got)[:200])
    adj = [c for c in calls(helper) if call_name(c) == "adjust_cross_origin_area"]
    ok = len(adj) == 1 and len(adj[0].args) == 4
    if ok:
        args = adj[0].args
        ok = txt(args[0]) in area_names and txt(args[1]) == feature and \
            txt(inline_reaching(hcfg, adj[0], args[2])) == "region.crosses_origin()" and txt(args[3]) == "record_length" and \
            any(truth and f"{feature}.crosses_origin()" in txt(expr) for expr, truth in path_facts(hcfg, adj[0]))
    ctx.ob("R19.3", AP, adj[0] if adj else helper, "build_area_rows.add_area_from_feature", "spanning areas adjusted", ok,
           "an area that itself spans the origin goes through the dedicated adjustment with the record length", form="")


def r19_6(ctx: Ctx) -> None:
    """ a row only remembers one free stretch [self.start, self.end]; add() advances it for every area placed.  Whether a
        further area fits therefore has to be decided against that stretch - a test against one particular earlier area
        says nothing about the areas placed after it """
    from ..flow import exact_condition, nnf_literals
    qual = "Row.can_fit"
    func = ctx.fn(AP, qual)
    cfg = CFG(func)
    area = func.args.args[1].arg
    count = 0
    for ret in [r for r in walk_local(func) if isinstance(r, ast.Return) and r.value is not None]:
        if isinstance(ret.value, ast.Constant) and ret.value.value is False:
            continue   # refusing is always safe
        lits = nnf_literals(facts_of(cfg, ret))
        if any(text in ("self._contents", "len(self._contents) > 0") and not truth for text, truth in lits):
            continue   # the row is empty on this path
        count += 1
        texts = [text for text, _ in lits] + [txt(ret.value)]
        against_free_stretch = any("self.start" in text and f"{area}.start" in text for text in texts)
        ctx.ob("R19.6", AP, ret, qual, f"return {txt(ret.value)[:50]}", against_free_stretch,
               "an area fits into a non-empty row only if it starts beyond everything already placed (the row's running "
               "`start`, advanced by add() for each area) - the same for areas that cross the origin",
               detail="" if against_free_stretch else "the decision does not compare the area's start with the row's free stretch: "
               "an origin-crossing area is accepted next to an earlier area it overlaps (only the first area of the row is tested)",
               form=f"{txt(ret.value)[:80]} under {sorted(t for t, _ in lits)[:4]}")
    if count < 2:
        raise AnalysisError(f"{qual}: expected the linear and the origin-crossing decision, found {count}")


def facts_of(cfg: CFG, node: ast.AST):
    from ..flow import facts_nnf
    return facts_nnf(path_facts(cfg, node))


JS = "antismash/outputs/html/js.py"


def r19_5(ctx: Ctx) -> None:
    """ gene coordinates of a spanning region: a gene is moved past the record length with both ends exactly when it lies
        in the post-origin part; a gene that itself spans the origin only has its end moved """
    qual = "convert_cds_features"
    func = ctx.fn(JS, qual, inline=True)
    cfg = CFG(func)
    loops = [n for n in walk_local(func) if isinstance(n, ast.For) and isinstance(n.target, ast.Name)]
    if not loops:
        raise AnalysisError(f"{qual}: loop over the genes not found")
    feat = loops[0].target.id
    def unwrapped(expr: ast.AST) -> str:
        """ text of a coordinate expression with int(...) conversions removed """
        class NoInt(ast.NodeTransformer):
            def visit_Call(self, call):  # noqa: N802
                self.generic_visit(call)
                return call.args[0] if call_name(call) == "int" and len(call.args) == 1 else call
        from ..astutil import clone as _clone
        return txt(NoInt().visit(_clone(expr)))
    own = {"start": (f"{feat}.start + 1", f"1 + {feat}.start"), "end": (f"{feat}.end",)}
    hull = {"start": (f"{feat}.location.start + 1", f"1 + {feat}.location.start"), "end": (f"{feat}.location.end",)}
    start_names = {txt(n.targets[0]) for n in walk_local(func) if isinstance(n, ast.Assign) and unwrapped(n.value) in own["start"] + hull["start"]}
    end_names = {txt(n.targets[0]) for n in walk_local(func) if isinstance(n, ast.Assign) and unwrapped(n.value) in own["end"] + hull["end"]}
    if len(start_names) != 1 or len(end_names) != 1:
        raise AnalysisError(f"{qual}: the drawn start / end of a gene were not found")
    for role, names in (("start", start_names), ("end", end_names)):
        inits = [n for n in walk_local(func) if isinstance(n, ast.Assign) and txt(n.targets[0]) in names
                 and unwrapped(n.value) in own[role] + hull[role]]
        for n in inits:
            ok = unwrapped(n.value) in own[role]
            ctx.ob("R19.5", JS, n, qual, f"drawn {role} is the gene's own {role}", ok,
                   "a gene is drawn from its own start to its own end (for a gene that spans the origin: where it starts before "
                   "the origin and where it ends after it), not from the smallest to the largest coordinate of its location "
                   "(0 and the record length for such a gene)", form=txt(n.value))
    start, end = start_names.pop(), end_names.pop()

    def shifts(name: str):
        out = []
        for node in walk_local(func):
            if isinstance(node, ast.AugAssign) and isinstance(node.op, ast.Add) and txt(node.target) == name \
                    and txt(inline_reaching(cfg, node, node.value)) == "len(record)":
                out.append(node)
            elif isinstance(node, ast.Assign) and txt(node.targets[0]) == name and isinstance(node.value, ast.BinOp) \
                    and isinstance(node.value.op, ast.Add) and name in (txt(node.value.left), txt(node.value.right)) \
                    and "len(record)" in (txt(inline_reaching(cfg, node, node.value.left)), txt(inline_reaching(cfg, node, node.value.right))):
                out.append(node)
        return out
    start_shifts, end_shifts = shifts(start), shifts(end)
    if not start_shifts or not end_shifts:
        raise AnalysisError(f"{qual}: shifts of gene coordinates by the record length not found")
    mapping = {f"{feat}.start": "f_s", f"{feat}.end": "f_e", "region.end": "r_e", "region.start": "r_s",
               f"{feat}.location.start": "f_s", f"{feat}.location.end": "f_e",
               "region.location.parts[-1].end": "r_e", "region.location.parts[0].start": "r_s",
               "region.location.parts[1].end": "r_e"}
    # the region spans the origin (r_e < r_s); a gene inside it is post-origin, pre-origin, or spans the origin itself
    # (then its start is in the pre-origin part and its end in the post-origin part: f_e < f_s)
    pre = parse("r_e < r_s and ((f_s < f_e and (f_e <= r_e or f_s >= r_s)) or (f_e < f_s and f_s >= r_s and f_e <= r_e))")
    for index, node in enumerate(start_shifts):
        region_spans = False
        placement = []
        for expr, truth in path_facts(cfg, node):
            resolved = inline_reaching(cfg, expr, expr, keep={feat})
            if txt(resolved) == "region.crosses_origin()":
                region_spans = region_spans or truth
                continue
            placement.append((resolved, truth))
        ctx.ob("R19.5", JS, node, qual, f"start shift#{index} only in spanning regions", region_spans,
               "gene coordinates are moved past the record length only in a region that spans the origin", form="")
        ok = False
        form = " and ".join(("" if t else "not ") + txt(e) for e, t in placement)
        if len(placement) == 1 and placement[0][1] and isinstance(placement[0][0], ast.Call) \
                and last_attr(placement[0][0]) == "is_contained_by" and txt(placement[0][0].func.value) == feat \
                and txt(placement[0][0].args[0]) in ("region.location.parts[-1]", "region.location.parts[1]"):
            ok = True
        elif placement:
            terms = [e if t else ast.UnaryOp(op=ast.Not(), operand=e) for e, t in placement]
            cond = terms[0] if len(terms) == 1 else ast.BoolOp(op=ast.And(), values=terms)
            try:
                class ByText(ast.NodeTransformer):
                    def generic_visit(self, node):  # noqa: N802
                        if isinstance(node, ast.expr) and txt(node) in mapping:
                            return ast.Name(id=mapping[txt(node)], ctx=ast.Load())
                        return super().generic_visit(node)
                from ..astutil import clone
                renamed = ast.fix_missing_locations(ByText().visit(clone(cond)))
                spanning_feature = ast.parse("f_e < f_s", mode="eval").body
                # calls such as feature.crosses_origin() are expressed through the coordinates
                class Sub(ast.NodeTransformer):
                    def visit_Call(self, call):  # noqa: N802
                        if txt(call) == f"{feat}.crosses_origin()":
                            return spanning_feature
                        return self.generic_visit(call)
                renamed = ast.fix_missing_locations(Sub().visit(renamed))
                ok, cex, _ = decide(renamed, parse("f_s < f_e and f_e <= r_e"), pre=pre)
                form += f"  ({'equivalent to: a non-spanning gene in the post-origin part' if ok else f'differs, e.g. {cex}'})"
            except OutsideFragment as err:
                ctx.cannot("R19.5", JS, node, qual, f"start shift#{index} placement", str(err))
                continue
        ctx.ob("R19.5", JS, node, qual, f"start shift#{index} placement", ok,
               "the start of a gene is moved past the record length exactly when the gene lies in the post-origin part of the "
               "region (a gene that itself spans the origin starts before the origin and keeps its start)", form=form)
    # the end is moved whenever the start is, and additionally for genes that span the origin themselves
    from ..flow import iteration_conditions
    from ..astutil import clone
    head = cfg.n(loops[0])
    end_nodes = {cfg.n(e) for e in end_shifts}
    twice = any(other in cfg.reach([e], avoid=[head]) for e in end_nodes for other in end_nodes)
    post_origin = "f_s < f_e and f_e <= r_e"

    class Coordinates(ast.NodeTransformer):
        def visit_Call(self, call):  # noqa: N802
            text = txt(call)
            if text == f"{feat}.crosses_origin()":
                return parse("f_e < f_s")
            if text == "region.crosses_origin()":
                return parse("r_e < r_s")
            if last_attr(call) == "is_contained_by" and txt(call.func.value) == feat and call.args \
                    and txt(call.args[0]) in ("region.location.parts[-1]", "region.location.parts[1]"):
                return parse(post_origin)
            return self.generic_visit(call)
    ok, form = False, ""
    try:
        paths = []
        for e in end_shifts:
            for conds in iteration_conditions(cfg, loops[0], e):
                terms = []
                for expr, truth in conds:
                    full = Coordinates().visit(inline_reaching(cfg, expr, expr, keep={feat}))

                    class Named(ast.NodeTransformer):
                        def generic_visit(self, node):  # noqa: N802
                            if isinstance(node, ast.expr) and txt(node) in mapping:
                                return ast.Name(id=mapping[txt(node)], ctx=ast.Load())
                            return super().generic_visit(node)
                    full = ast.fix_missing_locations(Named().visit(full))
                    # tests that say nothing about where the gene or the region lies (colour, database hits) branch the
                    # iteration without bearing on the shift: both of their arms lead on to the same placement tests
                    if not {n.id for n in ast.walk(full) if isinstance(n, ast.Name)} & {"f_s", "f_e", "r_s", "r_e"}:
                        continue
                    terms.append(full if truth else ast.UnaryOp(op=ast.Not(), operand=full))
                if any(txt(p) == txt(ast.BoolOp(op=ast.And(), values=terms) if len(terms) > 1 else terms[0] if terms
                                       else ast.Constant(value=True)) for p in paths):
                    continue
                paths.append(ast.BoolOp(op=ast.And(), values=terms) if len(terms) > 1 else terms[0] if terms else ast.Constant(value=True))
        shifted = ast.fix_missing_locations(ast.BoolOp(op=ast.Or(), values=paths) if len(paths) > 1 else paths[0])
        same, cex, _ = decide(shifted, parse(f"({post_origin}) or f_e < f_s"), pre=pre)
        ok = same and not twice
        form = f"end moved when {txt(shifted)[:200]}" + (f"; differs at {cex}" if cex else "") + ("; moved twice on a path" if twice else "")
    except (OutsideFragment, ValueError) as err:
        ctx.cannot("R19.5", JS, end_shifts[0], qual, "end shifts", str(err))
        return
    ctx.ob("R19.5", JS, end_shifts[0], qual, "end shifts", bool(ok),
           "the end is moved together with the start, and on its own exactly for genes that span the origin", form=form)


REGION = "antismash/common/secmet/features/region/structures.py"


def r19_4(ctx: Ctx) -> None:
    """ the protoclusters of a spanning region are ordered by a key that moves post-origin members past the record
        length: the coordinate that is tested for 'post-origin' is the coordinate that is shifted and sorted on """
    from ..flow import path_facts
    from ..index import dotted
    qual = "Region.get_unique_protoclusters"
    func = ctx.fn(REGION, qual)
    keys = [kwarg(c, "key") for c in calls(func) if call_name(c) == "sorted" and kwarg(c, "key") is not None]
    nested = {n.name: n for n in ast.walk(func) if isinstance(n, ast.FunctionDef) and n is not func}
    count = 0
    for key in keys:
        target = nested.get(txt(key)) if isinstance(key, ast.Name) else None
        if target is None:
            ctx.cannot("R19.4", REGION, key, qual, "sort key", f"sort key `{txt(key)[:60]}` is not a local function")
            continue
        param = target.args.args[0].arg
        cfg = CFG(target)
        from ..flow import inline_reaching

        def mine(expr: ast.AST, at: ast.AST) -> str:
            d = dotted(inline_reaching(cfg, at, expr))
            return d if d and d.split(".")[0] == param else ""
        shifts = []   # (statement, shifted coordinate)
        for node in walk_local(target):
            if isinstance(node, ast.AugAssign) and isinstance(node.op, ast.Add) and isinstance(node.target, ast.Name):
                load = ast.Name(id=node.target.id, ctx=ast.Load())
                coordinate = mine(load, node)
                if coordinate:
                    shifts.append((node, coordinate))
            elif isinstance(node, ast.BinOp) and isinstance(node.op, ast.Add):
                sides = [mine(node.left, node), mine(node.right, node)]
                if sum(1 for x in sides if x) == 1:
                    shifts.append((node, sides[0] or sides[1]))
        for node, accessor in shifts:
            count += 1
            tested = set()
            for expr, truth in path_facts(cfg, node):
                anchor = expr if hasattr(expr, "_parent") else node
                resolved = inline_reaching(cfg, anchor, expr)   # a named test (`after_origin = ... and x.start < L / 2`)
                for sub in ast.walk(resolved):
                    if isinstance(sub, ast.Compare):
                        for side in [sub.left] + list(sub.comparators):
                            d = dotted(side) if dotted(side) and dotted(side).split(".")[0] == param else mine(side, anchor)
                            if d:
                                tested.add(d)
            ctx.ob("R19.4", REGION, node, f"{qual}.{target.name}", f"shifted coordinate {accessor}", tested == {accessor},
                   "a member of a spanning region is moved past the record length exactly when the coordinate it is sorted by "
                   "lies after the origin: the coordinate tested is the coordinate shifted (testing another one mis-places "
                   "members that straddle the threshold, and the drawing order no longer equals the genome order)",
                   detail="" if tested == {accessor} else f"tests {sorted(tested)} but shifts {accessor}",
                   form=f"{txt(node)[:80]} under tests on {sorted(tested)}")
    if count < 1:
        raise AnalysisError(f"{qual}: the shifting sort key for spanning regions was not found")


def r19_7(ctx: Ctx) -> None:
    """ an origin-crossing area whose core does not cross: which neighbourhood crosses the origin is decided by where the core
        lies relative to the area's own pre-origin part, for any neighbourhood sizes """
    qual = "adjust_cross_origin_area"
    func = ctx.fn(AP, qual, inline=True)
    cfg = CFG(func)
    feat = func.args.args[1].arg
    length = func.args.args[3].arg if len(func.args.args) > 3 else "length"
    mapping = {f"{feat}.core_start": "c_s", f"{feat}.core_end": "c_e", f"{feat}.start": "a_s", f"{feat}.end": "a_e",
               f"{feat}.location.parts[0].start": "a_s", length: "L"}
    # the core lies inside the area, which crosses the origin (a_e < a_s); the core itself does not cross
    pre = parse("0 <= a_e and a_e < a_s and a_s < L and 0 <= c_s and c_s < c_e and c_e <= L and "
                "((c_s >= a_s) or (c_e <= a_e))")
    def target_of(n):
        return txt(n.targets[0] if isinstance(n, ast.Assign) else n.target)

    def resolved(n):
        return {(txt(inline_reaching(cfg, e, e, keep={feat})), t) for e, t in path_facts(cfg, n)}

    def core_within(n) -> bool:  # on a path where the core does not cross the origin
        for text, t in resolved(n):
            if text in (f"{feat}.core_start > {feat}.core_end", f"{feat}.core_end < {feat}.core_start") and not t:
                return True
            if text in (f"{feat}.core_start <= {feat}.core_end", f"{feat}.core_end >= {feat}.core_start") and t:
                return True
        return False
    writes = [n for n in walk_local(func) if isinstance(n, (ast.AugAssign, ast.Assign)) and "extra" not in target_of(n)]
    right = [n for n in writes if target_of(n).endswith(".neighbouring_end") and core_within(n)
             and not any(target_of(m).endswith(".start") and not target_of(m).endswith("neighbouring_start") and resolved(m) == resolved(n)
                         for m in writes)]
    if not right:
        ctx.cannot("R19.7", AP, func, qual, "side of the core", "the branch for 'only the right neighbourhood crosses' was not found")
        return

    class ByText(ast.NodeTransformer):
        def generic_visit(self, node):  # noqa: N802
            if isinstance(node, ast.expr) and txt(node) in mapping:
                return ast.Name(id=mapping[txt(node)], ctx=ast.Load())
            return super().generic_visit(node)
    from ..astutil import clone
    node = right[0]
    conds = []
    for e, t in path_facts(cfg, node):
        full = inline_reaching(cfg, e, e, keep={feat})
        text = txt(full)
        if "region_crosses_origin" in text or "hasattr" in text or "crosses_origin()" in text:
            continue
        if text in (f"{feat}.core_start > {feat}.core_end", f"{feat}.core_end < {feat}.core_start",
                    f"{feat}.core_start <= {feat}.core_end", f"{feat}.core_end >= {feat}.core_start"):
            continue
        conds.append(full if t else ast.UnaryOp(op=ast.Not(), operand=full))
    if not conds:
        ctx.cannot("R19.7", AP, node, qual, "side of the core", "no test decides the branch")
        return
    cond = conds[0] if len(conds) == 1 else ast.BoolOp(op=ast.And(), values=conds)
    try:
        renamed = ast.fix_missing_locations(ByText().visit(clone(cond)))
        ok, cex, _ = decide(renamed, parse("c_s >= a_s"), pre=pre)
    except OutsideFragment as err:
        ctx.cannot("R19.7", AP, node, qual, "side of the core", str(err))
        return
    ctx.ob("R19.7", AP, node, qual, "side of the core", ok,
           "only the right neighbourhood crosses the origin exactly when the core lies in the area's pre-origin part "
           "(core start >= area start), whatever the sizes of the two neighbourhoods",
           detail="" if ok else f"differs at {cex}: a sideloaded protocluster with core [300:450) and neighbourhoods 100 / 850 on a ring of 1200 "
           "(area join{[200:1200),[0:100)}) is drawn with its core at 1500..1650, outside its extent 200..1300",
           form=txt(cond))


def run(ctx: Ctx) -> None:
    ctx.rule("R19.7", "which neighbourhood of a split area crosses the origin is decided from the core's side", floor=1)
    r19_7(ctx)
    ctx.rule("R19.1", "exactly-once: packing loop, converted collections, per-feature helper", floor=8)
    ctx.rule("R19.2", "Area.offset shifts every coordinate field; clone copies all and shares the group", floor=3)
    ctx.rule("R19.3", "post-origin areas of a spanning region are shifted by the record length, chosen by containment", floor=5)
    r19_1(ctx)
    r19_2(ctx)
    r19_3(ctx)
    ctx.rule("R19.4", "spanning-region sort key tests the coordinate it shifts", floor=1)
    r19_4(ctx)
    ctx.rule("R19.5", "gene coordinates of a spanning region: post-origin genes shifted, spanning genes end-shifted", floor=3)
    r19_5(ctx)
    ctx.rule("R19.6", "a row's fit test is made against its running free stretch", floor=2)
    r19_6(ctx)
