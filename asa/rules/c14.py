""" C14 NRPS/PKS modules partition a gene's domains in order and obey the module rules """

from __future__ import annotations

import ast
import itertools
import re
from typing import Dict, List, Optional, Set, Tuple

from ..astutil import arg_of, call_name, calls, enclosing_loops, guards, kwarg, last_attr, stmt_key, txt, walk_local
from ..cfg import CFG
from ..flow import bound_from, fact_texts, facts_nnf, inline_reaching, key_function, nnf_literals, path_facts, resolved_facts
from ..kernel import OutsideFragment, decide, parse, rename
from ..index import UNRESOLVED, AnalysisError
from ..report import Ctx

PROP = "C14"
MI = "antismash/detection/nrps_pks_domains/module_identification.py"

EXPLANATION = (
    "R14.1 write-once: each singleton slot of a module under construction (starter, loader, carrier protein, end) is "
    "assigned only where a test or assert on the same path proves it empty. R14.2 validate-before-mutate and "
    "exactly-once: in add_component no module state is written before the suitability check (or the counted "
    "look-ahead acceptance) has been passed, and every non-ignored path appends the component exactly once; in "
    "build_modules_for_cds each component reaches add_component once on the success path and once on the handler path, "
    "into a fresh module on which the validator cannot raise (every raise of the validator is guarded by non-empty "
    "module state); every other add_component call outside a handler is tabled or reported. R14.3 sibling agreement of "
    "validator and updater: asserts mirror raises, and both use the same look-ahead predicate for double carrier "
    "proteins. R14.4 classification tables are pairwise disjoint and cover every label the component predicates test; "
    "reload rebuilds through add_component. R14.5 combine_modules returns None whenever the merge is incomplete and "
    "mutates the module lists only afterwards."
    ' R14.7: the look-ahead handed to add_component is cut from the walked component sequence itself at the next position.'
)
UNDECIDED = [
    "the partition of every domain string into modules (a finite-state exploration is a different technique family)",
    "completeness semantics and the identical-rebuild claim as behaviours",
    "that every producible domain profile name is classified (the profile list file is emptied in this snapshot)",
]
TRUSTED = ["CPython ast", "asa.cfg", "constant resolution of the classification sets (asa.index)"]

SLOTS = ("_starter", "_loader", "_carrier_protein", "_end")


def r14_1(ctx: Ctx) -> None:
    info = ctx.repo.cls(MI, "Module")
    count = 0
    for node in info.node.body:
        if not isinstance(node, ast.FunctionDef) or node.name == "__init__":
            continue
        qual = f"Module.{node.name}"
        cfg = None
        for stmt in walk_local(node):
            if not (isinstance(stmt, ast.Assign) and len(stmt.targets) == 1 and isinstance(stmt.targets[0], ast.Attribute)
                    and txt(stmt.targets[0].value) == "self" and stmt.targets[0].attr in SLOTS):
                continue
            count += 1
            slot = stmt.targets[0].attr
            cfg = cfg or CFG(node)
            proofs = []
            if f"not self.{slot}" in fact_texts(cfg, stmt):
                proofs.append(f"on every path: not self.{slot}")
            # an assert on every path to the assignment
            asserts = [a for a in walk_local(node) if isinstance(a, ast.Assert)
                       and (txt(a.test) == f"not self.{slot}" or txt(a.test).startswith(f"not self.{slot}"))]
            for a in asserts:
                if cfg.dominates(cfg.n(a), cfg.n(stmt)) and cfg.n(a) != cfg.n(stmt):
                    proofs.append(f"assert {txt(a.test)}")
            ctx.ob("R14.1", MI, stmt, qual, f"self.{slot} = ...#{stmt.lineno - node.lineno}", bool(proofs),
                   f"the singleton slot {slot} is assigned only where it is proven empty on the same path (at most one per module)",
                   form="; ".join(proofs))
    if count < 5:
        raise AnalysisError(f"Module: expected at least 5 slot assignments outside __init__, found {count}")


def _state_writes(func: ast.AST) -> List[ast.AST]:
    writes = []
    for node in walk_local(func):
        if isinstance(node, (ast.Assign, ast.AugAssign)):
            targets = node.targets if isinstance(node, ast.Assign) else [node.target]
            if any(isinstance(t, ast.Attribute) and txt(t.value) == "self" and t.attr.startswith("_") for t in targets):
                writes.append(node)
        elif isinstance(node, ast.Call) and isinstance(node.func, ast.Attribute) and node.func.attr in ("append", "extend", "insert") \
                and txt(node.func.value).startswith("self._"):
            writes.append(node)
    return writes


def r14_2(ctx: Ctx) -> None:
    qual = "Module.add_component"
    func = ctx.fn(MI, qual)
    cfg = CFG(func)
    ensures = [c for c in calls(func) if txt(c.func) == "self.ensure_suitable"]
    if len(ensures) != 1:
        raise AnalysisError("add_component: expected exactly one call of ensure_suitable")
    en = cfg.n(ensures[0])
    skips = [n for n in walk_local(func) if isinstance(n, ast.AugAssign) and txt(n.target) == "self._unambiguous_accept"]
    gate = {en} | {cfg.n(s) for s in skips}
    writes = [w for w in _state_writes(func) if w not in skips]
    ok = bool(writes)
    late = []
    for w in writes:
        if cfg.exists_path(cfg.entry, cfg.n(w), avoid=gate):
            ok = False
            late.append(stmt_key(w))
    ctx.ob("R14.2", MI, ensures[0], qual, "validate before mutate", ok,
           "no module state is written before the suitability check (or a counted look-ahead acceptance) has been passed",
           detail="; ".join(late), form=f"{len(writes)} state writes gated by ensure_suitable / look-ahead counter")
    ok = len(skips) == 1
    for skip in skips:
        terms = [e if t else ast.UnaryOp(op=ast.Not(), operand=e) for e, t in path_facts(cfg, skip)
                 if "self._unambiguous_accept" in txt(e)]
        try:
            cond = terms[0] if len(terms) == 1 else ast.BoolOp(op=ast.And(), values=terms)
            holds, _, _ = decide(rename(cond, {"self._unambiguous_accept": "U"}), parse("U > 0"))
            ok = ok and holds
        except (OutsideFragment, IndexError):
            ok = False
    ctx.ob("R14.2", MI, skips[0] if skips else func, qual, "look-ahead acceptance counted", ok,
           "the check is skipped only while the look-ahead counter set by a double-transporter match is positive, and counts down",
           form="; ".join(stmt_key(s) for s in skips))
    appends = [c for c in calls(func) if txt(c.func) == "self._components.append"]
    ok = len(appends) == 1 and txt(appends[0].args[0]) == func.args.args[1].arg and \
        cfg.postdominates(cfg.n(appends[0]), en) and all(cfg.postdominates(cfg.n(appends[0]), cfg.n(sk)) for sk in skips)
    ctx.ob("R14.2", MI, appends[0] if appends else func, qual, "appended exactly once", ok,
           "every accepted component is appended to the module's component list exactly once, unconditionally", form="")
    comp = func.args.args[1].arg
    ign = [w for w in writes if f"not {comp}.is_ignored()" in fact_texts(cfg, w)]
    ok = bool(writes) and len(ign) == len(writes)
    ctx.ob("R14.2", MI, func, qual, "ignored domains skipped first", ok,
           "docking/COM domains are set aside before anything else", form="")
    # the validator cannot raise on a fresh module
    val = ctx.fn(MI, "Module.ensure_suitable")
    vcfg = CFG(val)
    for index, r in enumerate(n for n in walk_local(val) if isinstance(n, ast.Raise)):
        lits = nnf_literals(resolved_facts(vcfg, r)) | nnf_literals(facts_nnf(path_facts(vcfg, r)))
        gs = sorted(text for text, truth in lits if truth)
        ok = any(g.startswith("self._") for g in gs)
        ctx.ob("R14.2", MI, r, "Module.ensure_suitable", f"raise#{index}", ok,
               "every refusal of the validator is conditioned on non-empty module state, so a fresh module accepts any component",
               form=" / ".join(gs))
    # build_modules_for_cds
    qual = "build_modules_for_cds"
    func = ctx.fn(MI, qual)
    bcfg = CFG(func)
    loops = [n for n in walk_local(func) if isinstance(n, ast.For) and isinstance(n.iter, ast.Call) and call_name(n.iter) == "enumerate"
             and any(last_attr(c) == "add_component" for c in calls(n))]
    if not loops:
        raise AnalysisError("build_modules_for_cds: component loop not found")
    loop = loops[0]
    comp_var = txt(loop.target.elts[1]) if isinstance(loop.target, ast.Tuple) and len(loop.target.elts) == 2 else ""
    adds = [c for c in calls(loop) if last_attr(c) == "add_component"]
    tries = [n for n in loop.body if isinstance(n, ast.Try)]
    ok = len(adds) == 2 and len(tries) == 1 and bool(comp_var)
    if ok:
        t = tries[0]
        body_adds = [c for st in t.body for c in calls(st) if last_attr(c) == "add_component"]
        handler_adds = [c for h in t.handlers for st in h.body for c in calls(st) if last_attr(c) == "add_component"]
        def is_component(expr: ast.AST, at: ast.AST) -> bool:
            """ the loop's component, or the fresh copy made of it (`Component(<it>.domain, ...)`) """
            if txt(expr) == comp_var:
                return True
            resolved = inline_reaching(bcfg, at, expr, max_depth=0)
            return isinstance(resolved, ast.Call) and call_name(resolved) == "Component" and resolved.args \
                and txt(resolved.args[0]) == f"{comp_var}.domain"
        ok = len(body_adds) == 1 and len(handler_adds) == 1 and is_component(body_adds[0].args[0], body_adds[0]) \
            and txt(handler_adds[0].args[0]) == txt(body_adds[0].args[0]) and len(t.handlers) == 1 \
            and txt(t.handlers[0].type) == "IncompatibleComponentError"
        if ok:
            h = t.handlers[0]
            # the handler creates a fresh module, appends it to the result and adds the component to it - nothing else
            receiver = txt(inline_reaching(bcfg, handler_adds[0], handler_adds[0].func.value))  # type: ignore[attr-defined]
            fresh_appends = [c for st in h.body for c in calls(st) if last_attr(c) == "append" and c.args
                             and txt(inline_reaching(bcfg, c, c.args[0])) == "Module()"]
            list_name = txt(fresh_appends[0].func.value) if fresh_appends else ""  # type: ignore[attr-defined]
            ok = len(fresh_appends) == 1 and receiver in ("Module()", f"{list_name}[-1]") and txt(handler_adds[0].args[1]) == "[]" \
                and bcfg.dominates(bcfg.n(fresh_appends[0]), bcfg.n(handler_adds[0])) or \
                (len(fresh_appends) == 1 and receiver == "Module()" and txt(handler_adds[0].args[1]) == "[]")
            others = [st for st in h.body if not any(c in fresh_appends or c in handler_adds for c in calls(st))
                      and not (isinstance(st, ast.Assign) and isinstance(st.value, ast.Call) and call_name(st.value) == "Module")]
            ok = ok and not others
    ctx.ob("R14.2", MI, loop, qual, "each component added exactly once", ok,
           "each component is added once to the current module, or - if refused - once to a fresh module created for it",
           form="; ".join(txt(a)[:60] for a in adds))
    ok = not any(isinstance(n, (ast.Continue, ast.Break)) for n in walk_local(loop))
    ctx.ob("R14.2", MI, loop, qual, "no component skipped", ok, "the loop has no early continue/break: no domain is lost", form="")
    dom_param = func.args.args[0].arg
    # what the component loop runs over, resolved back to the sort of the domains handed in
    source = loop.iter.args[0] if isinstance(loop.iter, ast.Call) and call_name(loop.iter) == "enumerate" and loop.iter.args else loop.iter
    source = inline_reaching(bcfg, loop, source)
    if isinstance(source, (ast.ListComp, ast.GeneratorExp)) and len(source.generators) == 1 and not source.generators[0].ifs:
        source = source.generators[0].iter
    srt = [source]
    ok = False
    if isinstance(source, ast.Call) and call_name(source) == "sorted" and source.args and txt(source.args[0]) == dom_param \
            and kwarg(source, "reverse") is None and kwarg(source, "key") is not None:
        key = key_function(ctx.repo, MI, func, kwarg(source, "key"))
        ok = key is not None and txt(key[1]) == f"{key[0]}.query_start"
    ctx.ob("R14.2", MI, func, qual, "domains in order", ok,
           "domains are processed in order of their position in the protein", form=str([txt(v) for v in srt]))
    # other add_component call sites outside a handler for the incompatibility error
    tabled = {
        ("combine_modules", "module.add_component(component, head.components[i + 1:])"):
            "replays, in order and with the remaining components as look-ahead, the components of a module that was built by "
            "the same validator (the validator's look-ahead test only inspects the first two upcoming components)",
        ("Module.from_json", "module.add_component(component, components[i + 1:])"):
            "reload of a saved module: a refusal here is an error of the saved data and is reported as such",
    }
    cfgs: Dict[str, CFG] = {}
    for q in ("combine_modules", "Module.from_json"):
        f = ctx.fn(MI, q)
        for call in calls(f):
            if last_attr(call) != "add_component":
                continue
            in_try = False
            node = call
            while node is not f:
                node = getattr(node, "_parent")
                if isinstance(node, ast.Try) and any("IncompatibleComponentError" in txt(h.type) for h in node.handlers if h.type is not None) \
                        and any(call is x for s in node.body for x in ast.walk(s)):
                    in_try = True
            fcfg = cfgs.setdefault(q, CFG(f))
            key = (q, txt(inline_reaching(fcfg, call, call)))
            if in_try:
                ctx.ob("R14.2", MI, call, q, txt(call), True, "a refused component is handled where it is added", form="inside try/except IncompatibleComponentError")
            elif _ordered_replay(fcfg, f, call):
                ctx.ob("R14.2", MI, call, q, txt(call), True,
                       "reviewed shape: replays, in order and with the remaining components as look-ahead, the components of a "
                       "module that was built (or saved) through the same validator into a fresh module - a refusal here is an "
                       "error of the stored data, not of module construction", form=key[1][:140])
            else:
                ctx.ob("R14.2", MI, call, q, txt(call), False,
                       "a component is added to a non-fresh module outside any handling of IncompatibleComponentError: a refusal "
                       "escapes module construction as an exception", form=txt(call))


def _ordered_replay(cfg: CFG, func: ast.AST, call: ast.Call) -> bool:
    """ `fresh.add_component(<element>, xs[<position> + 1:])` inside a loop over all of xs from the start (any of the
        spellings of asa.loopview) with fresh = Module() / cls(...) """
    from ..loopview import resolve_alias, view
    loops = [lp for lp in enclosing_loops(call, stop=func) if isinstance(lp, ast.For)]
    if not loops or len(call.args) != 2:
        return False
    loop = loops[0]
    v = view(func, loop.iter, loop.target, loop.body)
    if v is None or v.lower_text != "0" or not v.to_end:
        return False
    receiver = inline_reaching(cfg, call, call.func.value)  # type: ignore[attr-defined]
    fresh = isinstance(receiver, ast.Call) and call_name(receiver) in ("Module", "cls")
    rest = call.args[1]
    base = v.seq[:-len(".components")] if v.seq.endswith(".components") else v.seq
    tail = isinstance(rest, ast.Subscript) and isinstance(rest.slice, ast.Slice) and rest.slice.upper is None \
        and rest.slice.step is None and rest.slice.lower is not None \
        and txt(resolve_alias(func, rest.value)) in (base, f"{base}.components", v.seq) \
        and v.position_plus(rest.slice.lower, 1)
    return fresh and v.is_element(call.args[0], func) and tail


def _ancestors_of(node: ast.AST):
    cur = getattr(node, "_parent", None)
    while cur is not None:
        yield cur
        cur = getattr(cur, "_parent", None)


def _carrier_branch(func: ast.AST) -> Optional[ast.If]:
    for node in walk_local(func):
        if isinstance(node, ast.If) and (txt(node.test) == "component.is_carrier_protein()"
                                         or txt(inline_reaching(CFG(func), node, node.test)) == "component.is_carrier_protein()"):
            return node
    return None


def _lookahead_predicate(func: ast.AST, branch: ast.AST, lookahead_name: Optional[str] = None):
    """ canonical form of 'the upcoming hit ids start with one of the double-transporter cases':
        (normalised comparisons, what the look-ahead list is built from, what is iterated) - locals alpha-renamed,
        `a == b` ordered, loop vs any() both reduced to the per-case comparison """
    cfg = CFG(func)
    lookahead = lookahead_name or (func.args.args[2].arg if len(func.args.args) > 2 else "lookahead")  # type: ignore[attr-defined]
    comps = set()
    sources = set()
    iterated = set()
    for node in ast.walk(branch):
        if isinstance(node, ast.Compare) and len(node.ops) == 1 and isinstance(node.ops[0], ast.Eq) and "case" in txt(node):
            case_vars = set()
            for anc in list(ast.walk(branch)):
                if isinstance(anc, ast.For) and any(n is node for n in ast.walk(anc)):
                    case_vars.add(txt(anc.target))
                    iterated.add(txt(anc.iter))
                if isinstance(anc, (ast.GeneratorExp, ast.ListComp)) and any(n is node for n in ast.walk(anc)):
                    case_vars.add(txt(anc.generators[0].target))
                    iterated.add(txt(anc.generators[0].iter))
            sides = []
            derived = {n.id for n in ast.walk(node) if isinstance(n, ast.Name)
                       and any(lookahead in txt(v) for v in bound_from(func, n.id))}
            at = next((a for a in _ancestors_of(node) if isinstance(a, ast.stmt)), None)
            for side in (node.left, node.comparators[0]):
                if at is not None:  # plain locals (a hoisted `len(case)`) are read through
                    side = inline_reaching(cfg, at, side, keep=derived | case_vars)
                text = txt(side)
                for name in {n.id for n in ast.walk(side) if isinstance(n, ast.Name)}:
                    if name in case_vars:
                        text = re.sub(rf"\b{name}\b", "CASE", text)
                    else:
                        vals = [txt(v) for v in bound_from(func, name)]
                        if len(vals) == 1 and lookahead in vals[0]:
                            sources.add(re.sub(r"\bfor (\w+) in\b", "for X in", vals[0]).replace(
                                re.findall(r"for (\w+) in", vals[0])[0] + ".", "X.") if re.findall(r"for (\w+) in", vals[0]) else vals[0])
                            text = re.sub(rf"\b{name}\b", "UPCOMING", text)
                sides.append(text)
            comps.add(" == ".join(sorted(sides)))
    _ = cfg
    return (tuple(sorted(comps)), tuple(sorted(sources)), tuple(sorted(iterated)))


def r14_3(ctx: Ctx) -> None:
    val = ctx.fn(MI, "Module.ensure_suitable")
    upd = ctx.fn(MI, "Module.add_component")
    # asserts in the updater mirror raises in the validator
    raises_on = set()
    vcfg = CFG(val)
    for r in (n for n in walk_local(val) if isinstance(n, ast.Raise)):
        lits = nnf_literals(resolved_facts(vcfg, r)) | nnf_literals(facts_nnf(path_facts(vcfg, r)))
        for text, truth in lits:
            if truth:
                for slot in SLOTS:
                    if f"self.{slot}" in text:
                        raises_on.add(slot)
    for a in (n for n in walk_local(upd) if isinstance(n, ast.Assert) and txt(n.test).startswith("not self._")):
        slot = txt(a.test)[len("not self."):].split(",")[0].strip()
        ok = slot in raises_on
        ctx.ob("R14.3", MI, a, "Module.add_component", f"assert not self.{slot}#{a.lineno - upd.lineno}", ok,
               "every emptiness assertion of the updater is backed by a refusal of the validator conditioned on the same slot",
               form=f"validator raises conditioned on {sorted(raises_on)}")
    # same look-ahead predicate
    preds = {}
    for name, func in (("ensure_suitable", val), ("add_component", upd)):
        branch = _carrier_branch(func)
        if branch is None:
            raise AnalysisError(f"{name}: carrier protein branch not found")
        preds[name] = _lookahead_predicate(func, branch)
        if not preds[name][0]:
            # the predicate may live in a helper that is handed the look-ahead (a search loop with an early return
            # cannot be inlined): read it there
            look = func.args.args[2].arg if len(func.args.args) > 2 else "lookahead"
            for call in calls(branch):
                helper_name = call_name(call).split(".")[-1]
                if not helper_name.startswith("_") or not any(isinstance(a, ast.Name) and a.id == look for a in call.args):
                    continue
                for q, helper in ctx.repo.functions(MI):
                    if q.split(".")[-1] == helper_name and helper.args.args:
                        position = [i for i, a in enumerate(call.args) if isinstance(a, ast.Name) and a.id == look][0]
                        params = [a.arg for a in helper.args.args if a.arg not in ("self", "cls")]
                        if position < len(params):
                            preds[name] = _lookahead_predicate(helper, helper, lookahead_name=params[position])
                            if params[position] != look:
                                preds[name] = (preds[name][0], tuple(s_.replace(params[position], look) for s_ in preds[name][1]), preds[name][2])
    same = preds["ensure_suitable"] == preds["add_component"] and bool(preds["ensure_suitable"][0])
    ctx.ob("R14.3", MI, val, "Module", "double-transporter predicate", same,
           "the validator and the updater decide 'second carrier protein allowed' with the same look-ahead predicate "
           "(a module accepted while building must be accepted when replayed with a longer look-ahead)",
           form=f"validator={preds['ensure_suitable']} updater={preds['add_component']}")
    ok = all("[:len(CASE)]" in t for t in preds["ensure_suitable"][0])
    ctx.ob("R14.3", MI, val, "Module.ensure_suitable", "prefix match", ok,
           "the look-ahead is matched as a prefix (callers pass windows of different length)", form=str(preds["ensure_suitable"][0]))


def r14_4(ctx: Ctx) -> None:
    module = ctx.repo.mod(MI)
    table = ctx.repo.const(module, ast.Name(id="CLASSIFICATIONS", ctx=ast.Load()))
    if table is UNRESOLVED or not isinstance(table, dict) or any(v is UNRESOLVED for v in table.values()):
        raise AnalysisError("CLASSIFICATIONS does not resolve to a table of literal sets")
    overlaps = []
    for (k1, v1), (k2, v2) in itertools.combinations(table.items(), 2):
        common = set(v1) & set(v2)
        if common:
            overlaps.append(f"{k1}/{k2}: {sorted(common)}")
    ctx.ob("R14.4", MI, 1, "<module>", "CLASSIFICATIONS disjoint", not overlaps,
           "every domain name has exactly one classification (classify returns the first match of a dict scan)",
           detail="; ".join(overlaps), form=f"{len(table)} classes, {sum(len(v) for v in table.values())} names")
    union = set().union(*[set(v) for v in table.values()])
    # labels the Component predicates test, through the named sets and literals
    comp = ctx.repo.cls(MI, "Component")
    used: Set[str] = set()
    for node in comp.node.body:
        if isinstance(node, ast.FunctionDef) and node.name.startswith("is_"):
            for sub in ast.walk(node):
                if isinstance(sub, ast.Name) and sub.id.isupper():
                    val = ctx.repo.const(module, sub)
                    if val is not UNRESOLVED and isinstance(val, (set, frozenset)):
                        used |= set(val)
                elif isinstance(sub, ast.Compare) and isinstance(sub.comparators[0], ast.Constant) \
                        and isinstance(sub.comparators[0].value, str) and isinstance(sub.ops[0], ast.Eq):
                    used.add(sub.comparators[0].value)
    missing = sorted(used - union)
    ctx.ob("R14.4", MI, comp.node, "Component", "predicates within the classified names", not missing and len(used) > 20,
           "every domain name a component predicate tests for is classified", detail=f"unclassified: {missing}" if missing else "",
           form=f"{len(used)} names tested")
    cases = ctx.repo.const(module, ast.Name(id="DOUBLE_TRANSPORTER_CASES", ctx=ast.Load()))
    ok = cases is not UNRESOLVED and all(set(case) <= union for case in cases)
    ctx.ob("R14.4", MI, 1, "<module>", "double transporter cases classified", ok,
           "the look-ahead cases name classified domains", form=str(cases))
    fj = ctx.fn(MI, "Module.from_json")
    ok = not [w for w in _state_writes(fj)] and any(last_attr(c) == "add_component" and _ordered_replay(CFG(fj), fj, c)
                                                    for c in calls(fj))
    ctx.ob("R14.4", MI, fj, "Module.from_json", "reload through add_component", ok,
           "a saved module is rebuilt component by component through the same add_component (no direct slot writes)", form="")
    tj = ctx.fn(MI, "Module.to_json")
    written = {k.value for n in walk_local(tj) if isinstance(n, ast.Dict) for k in n.keys if isinstance(k, ast.Constant)}
    read = {n.slice.value for n in walk_local(fj) if isinstance(n, ast.Subscript) and isinstance(n.slice, ast.Constant) and txt(n.value) == "data"}
    read |= {c.args[0].value for c in calls(fj) if txt(c.func) == "data.get" and isinstance(c.args[0], ast.Constant)}
    ctx.ob("R14.4", MI, fj, "Module.from_json", "keys agree", read <= written and bool(read),
           "every key read on reload is written on save", form=f"read={sorted(read)} written={sorted(written)}")
    ctj, cfj = ctx.fn(MI, "Component.to_json"), ctx.fn(MI, "Component.from_json")
    written = {k.value for n in walk_local(ctj) if isinstance(n, ast.Dict) for k in n.keys if isinstance(k, ast.Constant)}
    read = {n.slice.value for n in walk_local(cfj) if isinstance(n, ast.Subscript) and isinstance(n.slice, ast.Constant) and txt(n.value) == "data"}
    ctx.ob("R14.4", MI, cfj, "Component.from_json", "keys agree", read <= written and bool(read),
           "every key read on reload is written on save", form=f"read={sorted(read)} written={sorted(written)}")


def r14_5(ctx: Ctx) -> None:
    qual = "combine_modules"
    func = ctx.fn(MI, qual)
    cfg = CFG(func)
    mutations = []
    for node in walk_local(func):
        if isinstance(node, ast.Assign) and any(".modules[" in txt(t) for t in node.targets):
            mutations.append(node)
        if isinstance(node, ast.Call) and isinstance(node.func, ast.Attribute) and node.func.attr in ("pop", "append", "insert", "remove") \
                and txt(node.func.value).endswith(".modules"):
            mutations.append(node)
    merged = {t.id for n in walk_local(func) if isinstance(n, ast.Assign) and isinstance(n.value, ast.Call) and call_name(n.value) == "Module"
              for t in n.targets if isinstance(t, ast.Name)}
    facts = {id(m): nnf_literals(facts_nnf(path_facts(cfg, m))) for m in mutations}
    ok = len(merged) == 1 and len(mutations) >= 2 and all((f"{sorted(merged)[0]}.is_complete()", True) in facts[id(m)] for m in mutations)
    ctx.ob("R14.5", MI, mutations[0] if mutations else func, qual, "complete before replacing", ok,
           "the gene's module lists are modified only after the merged module was found complete", form=f"{len(mutations)} list mutations")
    results = [r for r in walk_local(func) if isinstance(r, ast.Return) and r.value is not None and txt(r.value) != "None"]
    ok = bool(results) and all(any(truth and "strand" in text and "==" in text for text, truth in nnf_literals(facts_nnf(path_facts(cfg, n))))
                               for n in results + mutations)
    ctx.ob("R14.5", MI, func, qual, "same strand only", ok, "genes on different strands are never merged", form="")
    # order: head components first, then tail components
    cur, prev = func.args.args[0].arg, func.args.args[1].arg
    loops = [txt(inline_reaching(cfg, n, n.iter)) for n in walk_local(func) if isinstance(n, ast.For)]
    ok = [x.replace(".components", "") for x in loops[:2]] == [f"enumerate({prev}.modules[-1])", f"enumerate({cur}.modules[0])"]
    ctx.ob("R14.5", MI, func, qual, "order kept", ok,
           "the merged module takes the trailing module's components first, then the leading module's, each in order", form=str(loops))
    handler_returns = [h for n in walk_local(func) if isinstance(n, ast.Try) for h in n.handlers
                       if any(isinstance(s, ast.Return) for s in h.body)]
    ctx.ob("R14.5", MI, func, qual, "refusal abandons the merge", bool(handler_returns),
           "an incompatible component abandons the merge without touching the module lists", form="")


DI = "antismash/detection/nrps_pks_domains/domain_identification.py"


def r14_6(ctx: Ctx) -> None:
    """ a module's domain features are fetched gene by gene: the component of a module that spans two genes belongs
        to the gene named by component.locus, and equal-valued domains of different genes are equal as keys """
    from ..flow import inline_reaching, path_facts
    qual = "NRPSPKSDomains.add_to_record"
    func = ctx.fn(DI, qual)
    cfg = CFG(func)
    loops = [n for n in walk_local(func) if isinstance(n, ast.For) and isinstance(n.target, ast.Name)
             and any(isinstance(x, ast.Attribute) and x.attr == "domain_features" for x in ast.walk(n))
             and not any(isinstance(x, ast.For) and any(isinstance(y, ast.Attribute) and y.attr == "domain_features" for y in ast.walk(x))
                         for b in n.body for x in ast.walk(b))]
    if not loops:
        raise AnalysisError(f"{qual}: loop over a module's components (with domain_features lookups) not found")
    count = 0
    for loop in loops:
        var = loop.target.id  # type: ignore[attr-defined]
        for node in walk_local(loop):
            recv = None
            if isinstance(node, ast.Subscript) and isinstance(node.ctx, ast.Load) and isinstance(node.value, ast.Attribute) \
                    and node.value.attr == "domain_features":
                recv, key = node.value.value, node.slice
            elif isinstance(node, ast.Call) and isinstance(node.func, ast.Attribute) and node.func.attr in ("get", "pop", "setdefault") \
                    and isinstance(node.func.value, ast.Attribute) and node.func.value.attr == "domain_features" and node.args:
                recv, key = node.func.value.value, node.args[0]
            if recv is None or var not in {n.id for n in ast.walk(key) if isinstance(n, ast.Name)}:
                continue
            count += 1
            resolved = txt(inline_reaching(cfg, node, recv))
            by_locus = f"{var}.locus" in resolved
            own = False
            for expr, truth in path_facts(cfg, node):
                if truth and isinstance(expr, ast.Compare) and len(expr.ops) == 1 and isinstance(expr.ops[0], ast.Eq):
                    sides = [txt(expr.left), txt(expr.comparators[0])]
                    if f"{var}.locus" in sides:
                        other = sides[1 - sides.index(f"{var}.locus")]
                        gene = other[:-len(".get_name()")] if other.endswith(".get_name()") else None
                        if gene and (f"({gene})" in resolved or f"[{gene}]" in resolved):
                            own = True
            ctx.ob("R14.6", DI, node, qual, f"domain feature of a component from {txt(recv)}", by_locus or own,
                   "the domain feature of a module component is fetched from the results of the gene named by "
                   "component.locus (directly, or from the current gene's results only under the test that the locus is "
                   "the current gene)",
                   detail="" if by_locus or own else "lookup is not tied to the component's locus: an equal-valued domain of "
                                                     "the current gene is taken for a component of the neighbouring gene",
                   form=f"{txt(node)} with receiver {resolved[:80]}")
    if count < 2:
        raise AnalysisError(f"{qual}: expected 2 domain feature lookups, found {count}")


def r14_7(ctx: Ctx) -> None:
    """ the look-ahead handed to add_component while a gene's modules are built is 'the components that follow this one':
        a slice of the very sequence the loop walks, starting one past the current position.  A window cut from another
        list (a filtered copy) with the index of the walked list is shifted by every element the copy lacks. """
    from ..loopview import resolve_alias, view
    qual = "build_modules_for_cds"
    func = ctx.fn(MI, qual)
    count = 0
    for call in calls(func):
        if last_attr(call) != "add_component" or len(call.args) < 2:
            continue
        look = call.args[1]
        if isinstance(look, ast.Name):
            values = bound_from(func, look.id)
            if len(values) == 1:
                look = values[0]
        if isinstance(look, (ast.List, ast.Tuple)) and not look.elts:
            continue  # an explicitly empty look-ahead (the handler's fresh module)
        loops = [lp for lp in enclosing_loops(call, stop=func) if isinstance(lp, ast.For)]
        if not loops:
            continue
        v = view(func, loops[0].iter, loops[0].target, loops[0].body)
        count += 1
        ok = False
        form = txt(look)[:80]
        if v is not None and isinstance(look, ast.Subscript) and isinstance(look.slice, ast.Slice) and look.slice.lower is not None:
            same_seq = txt(resolve_alias(func, look.value)) == v.seq
            ok = same_seq and v.position_plus(look.slice.lower, 1)
            form = f"{txt(look)} while walking {v.seq}"
        ctx.ob("R14.7", MI, call, qual, f"look-ahead of {txt(call)[:50]}", ok,
               "the look-ahead is the walked sequence itself from the next position on (the two domains after a second carrier "
               "protein decide whether it may join the module)",
               detail="" if ok else "a window from another list is offset by the elements that list lacks: with a leading docking "
               "domain, `KS ACP ACP AT LPG_synthase_C Beta_elim_lyase` is accepted as one module with two carrier proteins, which "
               "Module.from_json then refuses", form=form)
    if count < 1:
        raise AnalysisError(f"{qual}: no add_component call with a look-ahead window found")


def run(ctx: Ctx) -> None:
    ctx.rule("R14.1", "singleton slots are write-once", floor=5)
    ctx.rule("R14.2", "validate before mutate; each component added exactly once; refusals handled", floor=16)
    ctx.rule("R14.3", "validator and updater agree (asserts vs raises, look-ahead predicate)", floor=4)
    ctx.rule("R14.7", "the look-ahead window is cut from the walked sequence at the next position", floor=1)
    ctx.rule("R14.4", "classification tables disjoint and covering; reload through add_component; keys agree", floor=6)
    ctx.rule("R14.5", "combine_modules: complete-or-None, mutate afterwards, order kept", floor=4)
    r14_1(ctx)
    r14_2(ctx)
    r14_3(ctx)
    r14_4(ctx)
    r14_5(ctx)
    ctx.rule("R14.6", "module features take each component's domain from the component's own gene", floor=2)
    r14_6(ctx)
    r14_7(ctx)
