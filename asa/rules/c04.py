""" C04 Location algebra agrees with the set-of-bases model on line and ring """

from __future__ import annotations

import ast
from typing import Dict, List, Optional, Set

from ..astutil import arg_of, call_name, calls, clone, enclosing_function, guards, kwarg, last_attr, stmt_key, txt, walk_local
from ..cfg import CFG
from ..flow import bound_from, fact_texts, inline_reaching, path_facts, provenance
from .family_e import alpha
from ..index import AnalysisError, dotted
from ..kernel import OutsideFragment, affine, decide, parse, rename, straight_line_env
from ..report import Ctx

PROP = "C04"
LOC = "antismash/common/secmet/locations.py"
REC = "antismash/common/secmet/record.py"
ORF = "antismash/common/all_orfs.py"

EXPLANATION = (
    "Kernels of the location algebra decided against the set-of-bases model over every ordering of their endpoints "
    "(R04.1: overlap of two simple locations == share a base; containment == endpoints nested), the lifting of both "
    "relations to multi-part locations (R04.2: any-over-parts / all-inner-of-any-outer), the ring-end idiom for "
    "exclusive ends reduced modulo the ring length (R04.3: ((e-1) % L)+1 or guarded), affine forms of shifting and "
    "extending (R04.4), distance 0 exactly under the overlap test and before any arithmetic (R04.5), and "
    "order-independent hull extremes - min over starts / max over ends instead of positional indexing into "
    "strand-ordered part lists (R04.6)."
    " R04.9: remove_redundant_exons puts the exons it keeps back in their original order by identity or position - "
    "parts are equal by value, so membership in the kept list also holds for a duplicate that was found redundant."
)
UNDECIDED = [
    "distance values on line and ring; shortest-arc choice of connect_locations",
    "well-formedness of every result (non-empty, disjoint, at most two parts)",
    "idempotence and argument-order independence as behaviours",
    "string form round trip of locations",
]
TRUSTED = ["CPython ast", "Biopython SimpleLocation.__contains__(int) is start <= x < end",
           "integer-difference-logic small-model bound (asa.kernel.decide)"]

RING_NAMES = {"wrap_point", "maximum", "record_length", "origin", "circular_wrap_point"}


def base_return(func: ast.FunctionDef) -> ast.Return:
    """ the return statement not under an isinstance(..., CompoundLocation) test """
    rets = [r for r in walk_local(func) if isinstance(r, ast.Return)
            and not any("isinstance" in txt(t) for t, _ in guards(r, stop=func))]
    if len(rets) != 1:
        raise AnalysisError(f"{func.name}: expected one base-case return, found {len(rets)}")
    return rets[0]


def r04_1(ctx: Ctx) -> None:
    func = ctx.fn(LOC, "locations_overlap")
    ret = base_return(func)
    a, b = [p.arg for p in func.args.args[:2]]
    spec = parse(f"max({a}.start, {b}.start) < min({a}.end, {b}.end)")
    pre = parse(f"{a}.start < {a}.end and {b}.start < {b}.end")
    try:
        ok, cex, n = decide(ret.value, spec, pre=pre)
        ctx.ob("R04.1", LOC, ret, "locations_overlap", "base case", ok,
               "two simple locations overlap iff they share a base (max of starts < min of ends)",
               detail=f"counterexample {cex}" if cex else f"{n} endpoint assignments covering all orderings",
               form=txt(ret.value))
    except OutsideFragment as err:
        ctx.cannot("R04.1", LOC, ret, "locations_overlap", "base case", str(err))
    func = ctx.fn(LOC, "location_contains_other")
    ret = base_return(func)
    o, i = [p.arg for p in func.args.args[:2]]
    spec = parse(f"{o}.start <= {i}.start and {i}.end <= {o}.end")
    pre = parse(f"{i}.start < {i}.end and {o}.start < {o}.end")
    try:
        ok, cex, n = decide(ret.value, spec, pre=pre)
        ctx.ob("R04.1", LOC, ret, "location_contains_other", "base case", ok,
               "a simple location contains another iff its endpoints enclose the other's",
               detail=f"counterexample {cex}" if cex else f"{n} endpoint assignments covering all orderings",
               form=txt(ret.value))
    except OutsideFragment as err:
        ctx.cannot("R04.1", LOC, ret, "location_contains_other", "base case", str(err))


def _quantifier(stmts: List[ast.stmt]):
    """ (kind, variable, iterated, element test) of `return any/all(<test> for v in it)` or of the equivalent loop
        `for v in it: if <test>: return True` / `return False` (any), `if not <test>: return False` / `return True` (all) """
    if len(stmts) == 1 and isinstance(stmts[0], ast.Return) and isinstance(stmts[0].value, ast.Call) \
            and call_name(stmts[0].value) in ("any", "all") and stmts[0].value.args \
            and isinstance(stmts[0].value.args[0], (ast.GeneratorExp, ast.ListComp)):
        gen = stmts[0].value.args[0]
        comp = gen.generators[0]
        if len(gen.generators) == 1 and not comp.ifs:
            return call_name(stmts[0].value), txt(comp.target), txt(comp.iter), gen.elt
        return None
    if len(stmts) == 2 and isinstance(stmts[0], ast.For) and isinstance(stmts[1], ast.Return) \
            and isinstance(stmts[1].value, ast.Constant) and isinstance(stmts[1].value.value, bool) \
            and len(stmts[0].body) == 1 and isinstance(stmts[0].body[0], ast.If) and not stmts[0].orelse:
        loop, test = stmts[0], stmts[0].body[0]
        if len(test.body) == 1 and isinstance(test.body[0], ast.Return) and isinstance(test.body[0].value, ast.Constant) \
                and not test.orelse and test.body[0].value.value is (not stmts[1].value.value):
            inner = test.test
            if stmts[1].value.value is False:      # found one -> True, none -> False
                return "any", txt(loop.target), txt(loop.iter), inner
            negated = isinstance(inner, ast.UnaryOp) and isinstance(inner.op, ast.Not)
            if negated:                            # one fails -> False, none fails -> True
                return "all", txt(loop.target), txt(loop.iter), inner.operand
    return None


def _lift_arms(func: ast.FunctionDef) -> List[tuple]:
    arms = []
    for node in func.body:
        if isinstance(node, ast.If) and isinstance(node.test, ast.Call) and call_name(node.test) == "isinstance" \
                and "CompoundLocation" in txt(node.test.args[1]):
            arms.append((txt(node.test.args[0]), _quantifier(node.body), node))
    return arms


def r04_2(ctx: Ctx) -> None:
    func = ctx.fn(LOC, "locations_overlap")
    a, b = [p.arg for p in func.args.args[:2]]
    arms = _lift_arms(func)
    seen = set()
    for subject, quant, node in arms:
        other = b if subject == a else a
        ok = quant is not None and quant[0] == "any"
        if ok:
            _, var, iterated, elt = quant
            ok = iterated == f"{subject}.parts" and isinstance(elt, ast.Call) \
                and call_name(elt) == "locations_overlap" \
                and sorted(txt(x) for x in elt.args) == sorted([var, other])
        seen.add(subject)
        ctx.ob("R04.2", LOC, node, "locations_overlap", f"lift {subject}", ok,
               "a multi-part location overlaps another iff any of its parts does", form=str(quant[:3]) if quant else "")
    ctx.ob("R04.2", LOC, func, "locations_overlap", "both sides lifted", seen == {a, b},
           "both operands are lifted over their parts", form=str(sorted(seen)))
    func = ctx.fn(LOC, "location_contains_other")
    o, i = [p.arg for p in func.args.args[:2]]
    arms = _lift_arms(func)
    order = [s for s, _, _ in arms]
    for subject, quant, node in arms:
        want = "all" if subject == i else "any"
        ok = quant is not None and quant[0] == want
        if ok:
            _, var, iterated, elt = quant
            args = [txt(x) for x in elt.args] if isinstance(elt, ast.Call) else []
            expect = [o, var] if subject == i else [var, i]
            ok = iterated == f"{subject}.parts" and call_name(elt) == "location_contains_other" and args == expect
        ctx.ob("R04.2", LOC, node, "location_contains_other", f"lift {subject}", ok,
               "each part of the inner must lie inside one part of the outer: all over inner parts, any over outer parts",
               form=str(quant[:3]) if quant else "")
    ctx.ob("R04.2", LOC, func, "location_contains_other", "inner lifted before outer", order == [i, o],
           "the inner location is decomposed first (all-of-any, not any-of-all)", form=str(order))


def _is_ring(func: ast.AST, expr: ast.AST) -> bool:
    text = txt(expr)
    if text in RING_NAMES or text.startswith("len(") and ("record" in text or "self" in text):
        return True
    if isinstance(expr, ast.Name):
        return any(_is_ring(func, v) for v in bound_from(func, expr.id))
    return False


def _end_like(func: ast.AST, expr: ast.AST, depth: int = 0) -> bool:
    """ does the expression carry an exclusive end coordinate? """
    for node in ast.walk(expr):
        if isinstance(node, ast.Attribute) and node.attr == "end":
            return True
        if isinstance(node, ast.Name) and depth < 3:
            if node.id == "ne" or "end" in node.id.lower().split("_"):
                return True
            for value in bound_from(func, node.id):
                if value is not expr and _end_like(func, value, depth + 1):
                    return True
    return False


SAFE_RING_ENDS = {
    # construct key -> reason (reviewed by hand; the probe location is only appended after being rebuilt)
    (REC, "Record.extend_location", "FeatureLocation(0, ne % maximum, location.strand)"):
        "probe only: `lower` is used in an overlap test and appended only when merged, where it is rebuilt with "
        "end=max(parts[0].end, lower.end); an empty [0:0) probe overlaps nothing and is dropped",
}


def r04_3(ctx: Ctx, rule: str = "R04.3", files: Optional[List[str]] = None) -> None:
    files = files or [LOC, REC, ORF]
    if ctx.tier == "thorough":
        files = sorted(ctx.repo.modules)
    for rel in files:
        module = ctx.repo.mod(rel) if rel in (LOC, REC, ORF) else ctx.repo.modules[rel]
        for qual, func in ctx.repo.functions(rel) if rel in (LOC, REC, ORF) else _functions(ctx, rel):
            for node in walk_local(func):
                if not (isinstance(node, ast.BinOp) and isinstance(node.op, ast.Mod)):
                    continue
                if isinstance(node.left, ast.Constant) and isinstance(node.left.value, str):
                    continue
                if not _is_ring(func, node.right):
                    continue
                if not _end_like(func, node.left):
                    continue
                ctx.call_sites += 1
                # the idiom: ((e - 1 [+ L]) % L) + 1
                par = getattr(node, "_parent", None)
                plus_one = isinstance(par, ast.BinOp) and isinstance(par.op, ast.Add) and \
                    any(isinstance(s, ast.Constant) and s.value == 1 for s in (par.left, par.right))
                try:
                    aff = affine(node.left)
                    minus_one = aff.const == -1
                except OutsideFragment:
                    minus_one = "- 1" in txt(node.left)
                idiom = plus_one and minus_one
                # where does it go: a location constructor's end?
                stmt = node
                while not isinstance(stmt, ast.stmt):
                    stmt = getattr(stmt, "_parent")
                reaches_end = False
                ctor_text = ""
                targets = {t.id for t in getattr(stmt, "targets", []) if isinstance(t, ast.Name)}
                if isinstance(stmt, ast.AugAssign) and isinstance(stmt.target, ast.Name):
                    targets.add(stmt.target.id)
                for call in calls(func):
                    if call_name(call) in ("FeatureLocation", "SimpleLocation"):
                        end_arg = arg_of(call, 1, "end")
                        if end_arg is None:
                            continue
                        direct = any(n is node for n in ast.walk(end_arg))
                        if direct or (not ctor_text and
                                      targets & {n.id for n in ast.walk(end_arg) if isinstance(n, ast.Name)}):
                            reaches_end = True
                            ctor_text = txt(call)
                key = (rel, qual, ctor_text)
                if not reaches_end:
                    ctx.ob(rule, rel, node, qual, f"{txt(node)} (not an end)", True,
                           "modulo of an end-derived value that does not reach a location's end argument",
                           form=txt(stmt)[:120], vacuous=True)
                    continue
                if idiom:
                    ctx.ob(rule, rel, node, qual, txt(par), True,
                           "exclusive end reduced modulo the ring length with the ((e - 1) % L) + 1 idiom",
                           form=txt(par))
                elif key in SAFE_RING_ENDS or any(k[0] == rel and k[1] == qual and alpha(k[2]) == alpha(ctor_text)
                                                  for k in SAFE_RING_ENDS):
                    key = next(k for k in SAFE_RING_ENDS if k[0] == rel and k[1] == qual and alpha(k[2]) == alpha(ctor_text))
                    ctx.ob(rule, rel, node, qual, txt(node), True,
                           "reviewed exception: " + SAFE_RING_ENDS[key], form=ctor_text)
                else:
                    # guarded against 0 before reaching the constructor?
                    ctx.ob(rule, rel, node, qual, txt(node), False,
                           "an exclusive end is reduced modulo the ring length without the ((e - 1) % L) + 1 idiom: an end "
                           "landing exactly on the ring length becomes 0 and the part is empty or inverted",
                           form=f"{txt(stmt)[:100]} -> {ctor_text}")
    _ = module


def _functions(ctx: Ctx, rel: str):
    from ..index import _walk_functions
    return _walk_functions(ctx.repo.modules[rel].tree, "")


def r04_4(ctx: Ctx) -> None:
    func = ctx.fn(LOC, "offset_location.shifted_location")
    loops = [n for n in walk_local(func) if isinstance(n, ast.For)]
    if len(loops) != 1:
        raise AnalysisError("offset_location.shifted_location: part loop not found")
    loop = loops[0]
    var = txt(loop.target)
    env = straight_line_env(loop.body)
    ctor = [c for c in calls(loop) if call_name(c) == "FeatureLocation"]
    ok = len(ctor) == 1 and txt(loop.iter) in ("parts", "location.parts")
    form = ""
    if ok:
        start = affine(arg_of(ctor[0], 0, "start"), env)
        end = affine(arg_of(ctor[0], 1, "end"), env)
        strand = arg_of(ctor[0], 2, "strand")
        form = f"({start}, {end}, {txt(strand)})"
        ok = str(start) in (f"offset + {var}.start", f"{var}.start + offset") and \
            str(end) in (f"offset + {var}.end", f"{var}.end + offset") and txt(strand) == f"{var}.strand"
        ok = ok or (start.terms == {"offset": 1, f"{var}.start": 1} and start.const == 0
                    and end.terms == {"offset": 1, f"{var}.end": 1} and end.const == 0 and txt(strand) == f"{var}.strand")
    ctx.ob("R04.4", LOC, loop, "offset_location.shifted_location", "shift", ok,
           "shifting adds the same offset to start and end of every part and keeps its strand", form=form)
    appended = any(last_attr(c) == "append" for c in calls(loop))
    ctx.ob("R04.4", LOC, loop, "offset_location.shifted_location", "every part kept", appended and
           not any(isinstance(n, (ast.Continue, ast.Break)) for n in walk_local(loop)),
           "every part of the location is shifted (none skipped)", form="")
    func = ctx.fn(REC, "Record.extend_location")
    cfg = CFG(func)
    from ..flow import inline_reaching as _resolve
    # the extended span: some local is (first part's start - distance), another (last part's end + distance)
    atom = lambda n: txt(n) if isinstance(n, ast.Attribute) and n.attr in ("start", "end") else None  # noqa: E731
    lows, highs = [], []
    for node in walk_local(func):
        if isinstance(node, ast.Assign) and len(node.targets) == 1 and isinstance(node.targets[0], ast.Name):
            try:
                form = affine(_resolve(cfg, node, node.value, keep={"distance"}), atom_name=atom)
            except OutsideFragment:
                continue
            if form.const == 0 and form.terms == {"parts[0].start": 1, "distance": -1}:
                lows.append(node)
            if form.const == 0 and form.terms == {"parts[-1].end": 1, "distance": 1}:
                highs.append(node)
    ok = bool(lows) and bool(highs)
    ctx.ob("R04.4", REC, lows[0] if lows else func, "Record.extend_location", "extended span", ok,
           "the extended span runs from the first start minus the distance to the last end plus the distance",
           form="; ".join(stmt_key(n) for n in lows[:1] + highs[:1]))
    # parts are put in ascending order before parts[0] / parts[-1] are read
    rev = [c for c in calls(func) if txt(c.func) == "parts.reverse" and
           fact_texts(cfg, c) & {"location.strand == -1", "-1 == location.strand"}]
    reads = [n for n in walk_local(func) if isinstance(n, ast.Attribute) and txt(n) in ("parts[0].start", "parts[-1].end")]
    first_rev = min((cfg.n(c) for c in rev), default=None)
    ok = first_rev is not None and len(reads) >= 2 and all(
        cfg.n(r) not in cfg.reach([cfg.entry], avoid=[first_rev]) or True for r in reads) and \
        all(not cfg.exists_path(cfg.n(r), first_rev) for r in reads)
    ctx.ob("R04.4", REC, func, "Record.extend_location", "strand normalisation", ok,
           "reverse-strand part lists are reversed into ascending order before the first/last part is read",
           form="")
    # linear clipping: max(0, start - d) and min(end + d, maximum)
    from ..flow import inline_reaching

    def clipped(call: ast.Call, bound_ok, suffix: str, sign: int) -> bool:
        if len(call.args) != 2:
            return False
        args = [inline_reaching(cfg, call, a, keep={"distance"}, max_depth=0) for a in call.args]
        bounds = [a for a in args if bound_ok(a)]
        others = [a for a in args if not bound_ok(a)]
        if len(bounds) != 1 or len(others) != 1:
            return False
        try:
            form = affine(others[0], atom_name=lambda n: txt(n) if isinstance(n, ast.Attribute) and n.attr in ("start", "end")
                          else None)
        except OutsideFragment:
            return False
        atoms = [k for k in form.terms if k != "distance"]
        return form.const == 0 and form.terms.get("distance") == sign and len(atoms) == 1 and form.terms[atoms[0]] == 1 \
            and atoms[0].endswith(suffix)
    clip_s = [c for c in calls(func) if call_name(c) == "max" and clipped(
        c, lambda a: isinstance(a, ast.Constant) and a.value == 0, ".start", -1)]
    clip_e = [c for c in calls(func) if call_name(c) == "min" and clipped(
        c, lambda a: txt(a) in ("maximum", "len(self)"), ".end", 1)]
    ok = bool(clip_s) and bool(clip_e)
    if not ok:
        # any other spelling (explicit comparisons, named intermediates): the coordinate written into the first / last
        # part on the arm that does not wrap, as one conditional expression, decided against max(0, S - d) / min(E + d, M)
        from ..kernel import cond_env, subst

        class _Atoms(ast.NodeTransformer):
            def visit_Attribute(self, node: ast.Attribute) -> ast.AST:  # noqa: N802
                if node.attr in ("start", "end") and isinstance(node.value, (ast.Name, ast.Subscript)):
                    return ast.copy_location(ast.Name(id="S" if node.attr == "start" else "E", ctx=ast.Load()), node)
                return self.generic_visit(node)

            def visit_Call(self, node: ast.Call) -> ast.AST:  # noqa: N802
                if txt(node) == "len(self)":
                    return ast.copy_location(ast.Name(id="M", ctx=ast.Load()), node)
                return self.generic_visit(node)

        def decided(slot: str, position: int, spec: str) -> bool:
            for store in [n for n in walk_local(func) if isinstance(n, ast.Assign) and txt(n.targets[0]) == f"parts[{slot}]"
                          and isinstance(n.value, ast.Call) and call_name(n.value) == "FeatureLocation"
                          and len(n.value.args) > position]:
                block = getattr(store, "_parent", None)
                arm = None
                for field in ("body", "orelse"):
                    stmts = getattr(block, field, None)
                    if isinstance(stmts, list) and any(st is store for st in stmts):
                        arm = stmts
                if arm is None:
                    continue
                try:
                    env = cond_env(arm[:[i for i, st in enumerate(arm) if st is store][0]], {})
                    value = subst(store.value.args[position], env)
                    value = inline_reaching(cfg, block, value, keep={"distance", "maximum"})
                    value = rename(_Atoms().visit(value), {"distance": "d", "maximum": "M"})
                    if decide(value, parse(spec), pre=parse("0 <= S and S < E and E <= M and 0 <= d"))[0]:
                        return True
                except (OutsideFragment, IndexError):
                    continue
            return False
        ok = decided("0", 0, "max(0, S - d)") and decided("-1", 1, "min(E + d, M)")
    ctx.ob("R04.4", REC, func, "Record.extend_location", "linear clipping", ok,
           "without wrapping the extension is clipped to [0, record length]",
           form=f"{txt(clip_s[0]) if clip_s else ''}; {txt(clip_e[0]) if clip_e else ''}")


def r04_5(ctx: Ctx) -> None:
    func = ctx.fn(LOC, "get_distance_between_locations")
    cfg = CFG(func)
    tests = [n for n in walk_local(func) if isinstance(n, ast.If) and isinstance(n.test, ast.Call)
             and call_name(n.test) == "locations_overlap"]
    ok = False
    form = ""
    if tests:
        test = tests[0]
        a, b = [p.arg for p in func.args.args[:2]]
        zero = [s for s in test.body if isinstance(s, ast.Return) and isinstance(s.value, ast.Constant) and s.value.value == 0]
        others = [r for r in walk_local(func) if isinstance(r, ast.Return) and r not in zero]
        ok = bool(zero) and sorted(txt(x) for x in test.test.args) == sorted([a, b]) and \
            all(cfg.dominates(cfg.n(test), cfg.n(r)) for r in others) and \
            all(cfg.dominates(cfg.n(test), n.id) for n in cfg.nodes
                if n.ast is not None and n.kind == "stmt" and isinstance(n.ast, (ast.Assign, ast.AugAssign)))
        form = f"if {txt(test.test)}: return 0"
    ctx.ob("R04.5", LOC, tests[0] if tests else func, "get_distance_between_locations", "zero under overlap", ok,
           "the distance is 0 exactly under the overlap test, which precedes all arithmetic", form=form)
    # (that the ring distance never exceeds the linear one is part of R04.7's decision of the per-pair gap against
    #  min(line gap, way over the origin); the former syntactic obligation `ring <= line` asked for a literal min() call)
    rfunc = ctx.fn(REC, "Record.get_distance_between_locations")
    rcfg = CFG(rfunc)
    wraps = [c for c in calls(rfunc) if call_name(c) == "get_distance_between_locations"]
    with_wrap = [c for c in wraps if kwarg(c, "wrap_point") is not None]
    without = [c for c in wraps if kwarg(c, "wrap_point") is None]
    ok = bool(with_wrap) and all(txt(kwarg(c, "wrap_point")) == "len(self)" and "self.is_circular()" in fact_texts(rcfg, c)
                                 for c in with_wrap) and \
        all("not self.is_circular()" in fact_texts(rcfg, c) for c in without)
    ctx.ob("R04.5", REC, rfunc, "Record.get_distance_between_locations", "wrap iff circular", ok,
           "the record's distance helper passes its length as wrap point exactly on the paths where it is circular",
           form="; ".join(f"{txt(c)[:60]} under {sorted(fact_texts(rcfg, c))}" for c in wraps))
    cfunc = ctx.fn(REC, "Record.connect_locations")
    ok, src = _wrap_iff(cfunc, "self.is_circular()", "disable_wrapping")
    ctx.ob("R04.5", REC, cfunc, "Record.connect_locations", "wrap iff circular", ok,
           "the record's connect helper passes its length as wrap point iff it is circular (and wrapping is not disabled)",
           form=str(src))


def _wrap_iff(func: ast.AST, circular: str, disabled: str):
    """ the wrap point handed on is `len(self)` exactly when the record is circular and wrapping is not disabled, else
        None; decided on the conditions under which each value is assigned (any spelling: conditional expression,
        if/else, default then override) """
    from ..flow import facts_nnf, nnf_equiv, nnf_not, path_facts
    cfg = CFG(func)
    spec = ("and", frozenset([("lit", circular, True)] + ([("lit", disabled, False)] if disabled else [])))
    cases = []   # (value text, condition)
    for node in walk_local(func):
        targets = node.targets if isinstance(node, ast.Assign) else [node.target] if isinstance(node, ast.AnnAssign) else []
        if any(isinstance(t, ast.Name) and t.id == "wrap_point" for t in targets) and getattr(node, "value", None) is not None:
            cases.append((txt(node.value), facts_nnf(path_facts(cfg, node)), node))
    if not cases:
        for call in calls(func):
            value = kwarg(call, "wrap_point")
            if isinstance(value, ast.IfExp):
                from ..flow import nnf
                base = facts_nnf(path_facts(cfg, call))
                cases.append((txt(value.body), ("and", frozenset([base, nnf(value.test, True)])), call))
                cases.append((txt(value.orelse), ("and", frozenset([base, nnf(value.test, False)])), call))
    # what holds on the way to every assignment (an early return for empty input, say) is context, not a condition
    if cases:
        common = frozenset.intersection(*[frozenset(cond[1]) for _, cond, _ in cases])
        cases = [(text, ("and", frozenset(cond[1]) - common), node) for text, cond, node in cases]
    forms = [f"{text} under {sorted(str(p) for p in cond[1])}" for text, cond, _ in cases]
    length = [c for c in cases if c[0] == "len(self)"]
    none = [c for c in cases if c[0] == "None"]
    if len(length) != 1 or len(length) + len(none) != len(cases) or not cases:
        return False, forms
    try:
        same, _ = nnf_equiv(length[0][1], spec)
        if not same:
            return False, forms
        for _, cond, node in none:
            unconditional_default = not cond[1] and cfg.dominates(cfg.n(node), cfg.n(length[0][2]))
            opposite, _ = nnf_equiv(cond, nnf_not(spec))
            if not (unconditional_default or opposite):
                return False, forms
    except ValueError:
        return False, forms
    return True, forms


HULL_FUNCS = ["_reduce_parts_to_location", "connect_locations", "_merge_over_origin"]


def r04_6(ctx: Ctx) -> None:
    for qual in HULL_FUNCS:
        func = ctx.fn(LOC, qual)
        for call in calls(func):
            if call_name(call) != "FeatureLocation":
                continue
            ctx.call_sites += 1
            for role, pos in (("start", 0), ("end", 1)):
                arg = arg_of(call, pos, role)
                if arg is None:
                    continue
                subs = [n for n in ast.walk(arg) if isinstance(n, ast.Subscript)]
                aggregated = isinstance(arg, ast.Call) and call_name(arg) == ("min" if role == "start" else "max")
                ok = not subs
                ctx.ob("R04.6", LOC, call, qual, f"{role} of {txt(call)[:60]}", ok,
                       f"the {role} of a covering span is an order-independent extreme (min of starts / max of ends, an "
                       f"attribute of one location, 0 or the wrap point), never a positional element of a part list whose "
                       f"order depends on the strand",
                       detail=f"positional access {txt(subs[0])}" if subs else "",
                       form=f"{role}={txt(arg)}" + (" [aggregated]" if aggregated else ""))


def r04_7(ctx: Ctx) -> None:
    """ the distance is that of the closest pair of *parts*: coordinates are read from elements of the operands' part
        lists, and the gap between two disjoint parts is decided against the line / ring model """
    qual = "get_distance_between_locations"
    func = ctx.fn(LOC, qual)
    cfg = CFG(func)
    a, b = [p.arg for p in func.args.args[:2]]
    wrap = func.args.args[2].arg if len(func.args.args) > 2 else "wrap_point"
    # names that stand for one part of an operand: loop / comprehension variables over <operand>.parts
    part_of = {}
    for node in ast.walk(func):
        pairs = []
        if isinstance(node, ast.For):
            pairs.append((node.target, node.iter))
        elif isinstance(node, (ast.GeneratorExp, ast.ListComp, ast.SetComp)):
            pairs += [(g.target, g.iter) for g in node.generators]
        for target, it in pairs:
            if isinstance(target, ast.Name) and txt(it) in (f"{a}.parts", f"{b}.parts"):
                part_of[target.id] = a if txt(it) == f"{a}.parts" else b
            elif isinstance(target, ast.Tuple) and isinstance(it, ast.Call) and txt(it.func) in ("product", "itertools.product") \
                    and [txt(x) for x in it.args] in ([f"{a}.parts", f"{b}.parts"], [f"{b}.parts", f"{a}.parts"]):
                for elt, src in zip(target.elts, it.args):
                    if isinstance(elt, ast.Name):
                        part_of[elt.id] = a if txt(src) == f"{a}.parts" else b
    whole = [n for n in ast.walk(func) if isinstance(n, ast.Attribute) and n.attr in ("start", "end")
             and isinstance(n.value, ast.Name) and n.value.id in (a, b)]
    single = any(truth and (txt(e) in (f"len({a}.parts) == 1", f"len({b}.parts) == 1")) for n in whole for e, truth in path_facts(cfg, n))
    ok = not whole or single
    ctx.ob("R04.7", LOC, whole[0] if whole else func, qual, "coordinates read per part", ok,
           "the distance between multi-part (exons, origin-spanning) locations is that of their closest parts: the arithmetic "
           "reads the start/end of parts, never of a whole operand (whose start..end hull includes bases that are not in the "
           "location - for an origin-spanning location the whole record)",
           detail="" if ok else f"`{txt(whole[0])}` is the hull of all parts", form="; ".join(sorted({txt(n) for n in whole}))[:120])
    if whole or len(set(part_of.values())) != 2:
        for inst in ("gap between two parts", "all pairs of parts"):
            ctx.ob("R04.7", LOC, func, qual, inst, False,
                   "the distance is the minimum, over all pairs of parts, of the gap between two disjoint parts",
                   detail="no loop over the pairs of parts of the two operands", form="")
        return
    pa = sorted(k for k, v in part_of.items() if v == a)[0]
    pb = sorted(k for k, v in part_of.items() if v == b)[0]
    mapping = {f"{pa}.start": "a_s", f"{pa}.end": "a_e", f"{pb}.start": "b_s", f"{pb}.end": "b_e", wrap: "W"}
    pre_line = parse("a_s < a_e and b_s < b_e and (a_e <= b_s or b_e <= a_s) and 0 <= a_s and 0 <= b_s")
    pre_ring = parse("a_s < a_e and b_s < b_e and (a_e <= b_s or b_e <= a_s) and 0 <= a_s and 0 <= b_s and a_e <= W and b_e <= W")
    line = "max(a_s - b_e, b_s - a_e)"
    ring = f"min({line}, min(a_s - b_e, b_s - a_e) + W)"
    # the per-pair gap: the value handed to the running minimum, as an expression of the two parts on every path through
    # the body of the pair loop (any spelling: one expression, named intermediates, max() or an explicit comparison)
    from ..kernel import expr_paths, subst
    rets = [r for r in walk_local(func) if isinstance(r, ast.Return) and isinstance(r.value, ast.Name)]
    result = rets[-1].value.id if rets else None
    pair_loops = [lp for lp in walk_local(func) if isinstance(lp, ast.For)
                  and {pa, pb} <= {n.id for n in ast.walk(lp) if isinstance(n, ast.Name)}
                  and not any(isinstance(inner, ast.For) and inner is not lp for inner in walk_local(lp)
                              if {pa, pb} <= {n.id for n in ast.walk(inner) if isinstance(n, ast.Name)})]
    body = pair_loops[0].body if pair_loops else []
    gap_expr, upto = None, None
    for index, stmt in enumerate(body):
        for node in ast.walk(stmt):
            if isinstance(node, ast.Assign) and txt(node.targets[0]) == result:
                value = node.value
                if isinstance(value, ast.Call) and call_name(value) == "min":
                    others = [x for x in value.args if txt(x) != result]
                    value = others[0] if len(others) == 1 else value
                gap_expr, upto = value, index
        if gap_expr is not None:
            break
    if gap_expr is None or result is None:
        ctx.cannot("R04.7", LOC, func, qual, "gap between two parts", "the update of the running minimum inside the pair loop was not found")
        return
    try:
        problems, forms, n_paths = [], [], 0
        for conds, env, kind in expr_paths(body[:upto]):
            if kind != "fall":
                continue
            n_paths += 1
            value = rename(subst(gap_expr, env), mapping)
            ringed = any(truth and txt(e) == wrap for e, truth in conds)
            extra = [e if truth else ast.UnaryOp(op=ast.Not(), operand=e) for e, truth in conds if txt(e) != wrap]
            pre = pre_ring if ringed else pre_line
            if extra:
                pre = ast.BoolOp(op=ast.And(), values=[pre] + [rename(x, mapping) for x in extra])
            forms.append(txt(value)[:70])
            try:
                same, cex, _ = decide(value, parse(ring if ringed else line), pre=pre)
            except OutsideFragment as err:
                if "unsatisfiable" in str(err):
                    continue
                raise
            if not same:
                problems.append(cex)
        ok = n_paths > 0 and not problems
        ctx.ob("R04.7", LOC, body[upto], qual, "gap between two parts", ok,
               "two disjoint parts are max(a.start - b.end, b.start - a.end) apart on a line and, with a wrap point, the smaller of "
               "that and the way over the origin (decided on every path through the pair loop's body)",
               detail=f"differs at {problems[0]}" if problems else "", form="; ".join(forms)[:200])
    except OutsideFragment as err:
        ctx.cannot("R04.7", LOC, body[upto], qual, "gap between two parts", str(err))
        return
    # the result is the minimum over all pairs: no pair is skipped
    loops = [n for n in walk_local(func) if isinstance(n, ast.For)]
    ok = not any(isinstance(n, (ast.Break, ast.Continue)) for lp in loops for n in walk_local(lp))
    ctx.ob("R04.7", LOC, loops[0] if loops else func, qual, "all pairs of parts", ok,
           "every pair of parts takes part in the minimum (no early exit from the pair loops)", form="")


def r04_8(ctx: Ctx) -> None:
    """ offset_location re-joins parts that abut after the shift (the two halves of a part that was split at the origin):
        each part is compared with the *last merged* part, so a run of three abutting parts is joined into one """
    from .c13 import _tracks_last_kept
    qual = "offset_location"
    func = ctx.fn(LOC, qual)
    cfg = CFG(func)
    done = False
    for loop in [n for n in walk_local(func) if isinstance(n, ast.For)]:
        stores = [n for n in walk_local(loop) if isinstance(n, ast.Assign) and isinstance(n.targets[0], ast.Subscript)
                  and txt(n.targets[0].slice) == "-1"]
        if not stores:
            continue
        kept = txt(stores[0].targets[0].value)
        if isinstance(loop.target, ast.Tuple):
            # the pairwise idiom `for previous, part in zip(parts, parts[1:])`: the partner is the previous *input* part
            it = loop.iter
            pairwise = isinstance(it, ast.Call) and call_name(it) == "zip" and len(it.args) == 2 and len(loop.target.elts) == 2 \
                and all(isinstance(e, ast.Name) for e in loop.target.elts) and isinstance(it.args[1], ast.Subscript) \
                and isinstance(it.args[1].slice, ast.Slice) and txt(it.args[1].value) == txt(it.args[0]) and txt(it.args[0]) != kept
            if not pairwise:
                continue
            first, second = (e.id for e in loop.target.elts)  # type: ignore[attr-defined]
            compared = any(isinstance(x, ast.Compare) and first in txt(x) and second in txt(x) for x in walk_local(loop))
            if compared:
                ctx.ob("R04.8", LOC, loop, qual, "abutting parts join the last merged part", False,
                       "after the shift a part is joined to the last merged part when it starts where that one ends; comparing with the "
                       "previous *input* part instead loses the start of a run of three abutting parts",
                       detail=f"`{first}` walks the input parts ({txt(it.args[0])}), not `{kept}` - join{{[850:900),[900:1000),[0:100)}} "
                       "shifted by -800 on a ring of 1000 becomes [100:300) instead of [50:300)", form=f"for {first}, {second} in {txt(it)}")
                done = True
            continue
        from ..loopview import view as _loop_view
        lview = _loop_view(func, loop.iter, loop.target, loop.body)
        cur = lview.elem if lview is not None and lview.elem else loop.target.id
        prev_names = {n.value.id for n in walk_local(loop) if isinstance(n, ast.Attribute) and n.attr in ("end", "start")
                      and isinstance(n.value, ast.Name) and n.value.id not in (cur,)}
        prev_names = {p for p in prev_names if any(isinstance(x, ast.Compare) and p in txt(x) and cur in txt(x) for x in walk_local(loop))}
        if len(prev_names) != 1:
            # the partner is read from the list itself
            direct = any(isinstance(x, ast.Compare) and f"{kept}[-1]" in txt(x) and cur in txt(x) for x in walk_local(loop))
            ctx.ob("R04.8", LOC, loop, qual, "abutting parts join the last merged part", direct,
                   "after the shift a part is joined to the last merged part when it starts where that one ends", form="reads the list's last element")
            done = True
            continue
        prev = sorted(prev_names)[0]
        ok, why = _tracks_last_kept(cfg, func, loop, prev, kept)
        ctx.ob("R04.8", LOC, loop, qual, "abutting parts join the last merged part", ok,
               "after the shift a part is joined to the last merged part when it starts where that one ends; comparing with the "
               "previous *input* part instead loses the start of a run of three abutting parts",
               detail="" if ok else why + " - join{[850:900),[900:1000),[0:100)} shifted by -800 on a ring of 1000 becomes [100:300) "
               "instead of [50:300)", form=why)
        done = True
    if not done:
        raise AnalysisError(f"{qual}: the loop merging abutting parts was not found")


def r04_9(ctx: Ctx) -> None:
    """ remove_redundant_exons decides per exon whether a larger kept exon covers it, then puts the kept ones back into
        their original order.  Location parts compare equal by value, so re-selecting "the parts that are in the kept
        list" by `in` also re-selects an exact duplicate that had just been found redundant: the result then has two
        identical, overlapping parts.  The re-selection has to go by identity or by position. """
    qual = "remove_redundant_exons"
    func = ctx.fn(LOC, qual)
    kept = {txt(c.func.value) for c in calls(func) if isinstance(c.func, ast.Attribute) and c.func.attr == "append"
            and isinstance(c.func.value, ast.Name) and len(c.args) == 1 and isinstance(c.args[0], ast.Name)}
    builds = [c for c in calls(func) if call_name(c) == "CompoundLocation" and c.args]
    if not kept or not builds:
        raise AnalysisError(f"{qual}: the list of kept exons or the location built from it was not found")
    by_value = [n for n in walk_local(func) if isinstance(n, ast.Compare) and len(n.ops) == 1
                and isinstance(n.ops[0], (ast.In, ast.NotIn)) and isinstance(n.comparators[0], ast.Name)
                and n.comparators[0].id in kept and isinstance(n.left, ast.Name)]
    for build in builds:
        ok = not by_value
        ctx.ob("R04.9", LOC, by_value[0] if by_value else build, qual, "kept exons re-selected by identity or position", ok,
               "the exons found non-redundant are put back in their original order by identity or position (parts are equal by "
               "value: membership in the kept list also holds for a duplicate that was found redundant)",
               detail="" if ok else f"`{txt(by_value[0])}` - join{{[0:10),[0:10),[20:30)}} keeps both copies of [0:10), two overlapping parts",
               form=txt(build.args[0])[:100])


def run(ctx: Ctx) -> None:
    ctx.rule("R04.9", "redundant-exon removal re-selects the kept exons by identity, not by value", floor=1)
    r04_9(ctx)
    ctx.rule("R04.8", "parts abutting after a shift are merged with the last merged part", floor=1)
    r04_8(ctx)
    ctx.rule("R04.1", "overlap / containment base cases agree with the set-of-bases model", floor=2)
    ctx.rule("R04.2", "lifting of overlap / containment to multi-part locations", floor=6)
    ctx.rule("R04.3", "ring-end idiom for exclusive ends reduced modulo the ring length", floor=3)
    ctx.rule("R04.4", "affine forms of shifting and extending", floor=5)
    ctx.rule("R04.5", "distance 0 under overlap; ring distance <= linear; wrap iff circular", floor=3)
    ctx.rule("R04.6", "covering spans use order-independent extremes", floor=10)
    ctx.rule("R04.7", "distance is measured between closest parts, per-pair gap decided on line and ring", floor=3)
    r04_1(ctx)
    r04_2(ctx)
    r04_3(ctx)
    r04_4(ctx)
    r04_5(ctx)
    r04_6(ctx)
    r04_7(ctx)
