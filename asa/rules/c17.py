""" C17 Same input, same output: results do not depend on the process or hash seed """

from __future__ import annotations

import ast
from typing import List

from ..astutil import call_name, calls, kwarg, last_attr, txt, walk_local
from ..index import AnalysisError
from ..report import Ctx
from . import family_e

PROP = "C17"
FEATURE = "antismash/common/secmet/features/feature.py"
REC = "antismash/common/secmet/record.py"

EXPLANATION = (
    "Necessary condition for run-to-run determinism, decided for the scope analysed: no unordered collection's "
    "iteration order reaches an ordered result. R17.1 (family E): every expression typed set/frozenset by mypy (or "
    "syntactically a set) is followed to its consumers; membership, size, set algebra, any/all/sum, sorting of totally "
    "ordered elements, sorting with a key made of the element type's identity attributes and loops with commutative "
    "bodies are discharged automatically; every other consumer must be in the reviewed table (with a reason) or is "
    "reported. sorted() over secmet features is not a sanitiser unless the class breaks coordinate ties itself. "
    "R17.2: the output canonicalisation stays in place (sorted notes and qualifier keys, sorted features)."
)
UNDECIDED = [
    "sources of nondeterminism other than set iteration: id()-derived values, floating point reduction order, external "
    "tools, timestamps, dict insertion order inherited from a set-ordered construction",
    "byte-identical output as a whole",
]
TRUSTED = ["CPython ast", "mypy 1.9.0 expression types (a missing type degrades to syntactic set detection)",
           "the reviewed table of safe instances in asa/rules/family_e.py"]

QUICK = ["antismash/common/hmmscan_refinement.py", "antismash/common/serialiser.py", "antismash/common/hmmer.py",
         "antismash/detection/hmm_detection/__init__.py"]
QUICK_PREFIXES = ("antismash/common/hmm_rule_parser/", "antismash/common/secmet/", "antismash/detection/nrps_pks_domains/")
SKIP_THOROUGH = ("antismash/detection/hmm_detection/data/", "/data/", "antismash/config/", "antismash/outputs/html/templates")


def scope(ctx: Ctx) -> List[str]:
    files = [rel for rel in sorted(ctx.repo.modules) if rel in QUICK or rel.startswith(QUICK_PREFIXES)]
    if ctx.tier == "thorough":
        files = [rel for rel in sorted(ctx.repo.modules) if not any(s in rel for s in SKIP_THOROUGH)]
    return files


def r17_2(ctx: Ctx) -> None:
    func = ctx.fn(FEATURE, "Feature.to_biopython")
    # the dict whose items are copied into the SeqFeature's qualifiers, and the note list stored in it
    loops = [n for n in walk_local(func) if isinstance(n, ast.For) and isinstance(n.iter, ast.Call) and call_name(n.iter) == "sorted"
             and n.iter.args and txt(n.iter.args[0]).endswith(".items()")
             and any(isinstance(st, ast.Assign) and ".qualifiers[" in txt(st.targets[0]) for st in n.body)]
    quals = txt(loops[0].iter.args[0])[:-len(".items()")] if loops else ""
    if not loops:
        # or in one step: <feature>.qualifiers.update(sorted(<dict>.items()))
        for c in calls(func):
            if last_attr(c) == "update" and txt(c.func.value).endswith(".qualifiers") and len(c.args) == 1 \
                    and isinstance(c.args[0], ast.Call) and call_name(c.args[0]) == "sorted" and c.args[0].args \
                    and txt(c.args[0].args[0]).endswith(".items()") and not c.args[0].keywords:
                quals = txt(c.args[0].args[0])[:-len(".items()")]
                loops = [c]
    note_stores = [n for n in walk_local(func) if isinstance(n, ast.Assign) and isinstance(n.targets[0], ast.Subscript)
                   and txt(n.targets[0].value) == quals and txt(n.targets[0].slice) in ("'note'", '"note"')]
    ok = bool(note_stores) and all(isinstance(n.value, ast.Call) and call_name(n.value) == "sorted" for n in note_stores)
    ctx.ob("R17.2", FEATURE, func, "Feature.to_biopython", "notes sorted", ok, "a feature's notes are written in sorted order", form="")
    unsorted_copies = [n for n in walk_local(func) if isinstance(n, ast.For) and quals and txt(n.iter) in (f"{quals}.items()", quals)]
    ctx.ob("R17.2", FEATURE, func, "Feature.to_biopython", "qualifier keys sorted", bool(loops) and not unsorted_copies,
           "qualifiers are emitted in sorted key order", form="")
    func = ctx.fn(REC, "Record.to_biopython")
    sorted_uses = [n for n in ast.walk(func) if isinstance(n, ast.Call) and txt(n) == "sorted(self.all_features)"]
    raw_uses = [n for n in ast.walk(func) if isinstance(n, ast.Attribute) and txt(n) == "self.all_features"
                and not any(n in list(ast.walk(u)) for u in sorted_uses)]
    ok = bool(sorted_uses) and not raw_uses
    ctx.ob("R17.2", REC, func, "Record.to_biopython", "features sorted", ok, "features are written in sorted order", form="")


COLL = "antismash/common/secmet/features/cdscollection.py"


def r17_3(ctx: Ctx) -> None:
    """ sorting sets of areas is only deterministic if `<` is a strict order: a one-sided shortcut `return True` under an
        asymmetric predicate P(self, other) needs the mirrored `return False` under P(other, self) before the general
        comparison, otherwise a < b and b < a can both hold and sorted() returns whatever order the (id-hashed) set gave """
    import re
    from ..cfg import CFG
    from ..flow import path_facts
    for rel, qual in ((COLL, "CDSCollection.__lt__"),):
        func = ctx.fn(rel, qual)
        cfg = CFG(func)
        other_loc = next((t.id for n in walk_local(func) if isinstance(n, ast.Assign) and txt(n.value).endswith(".location")
                          for t in n.targets if isinstance(t, ast.Name)), "location")

        def swap(text: str) -> str:
            text = re.sub(r"\bself\.location\b", "\0", text)
            text = re.sub(rf"\b{other_loc}\b", "self.location", text)
            return text.replace("\0", other_loc)

        def located(ret: ast.Return):
            return {(txt(e), t) for e, t in path_facts(cfg, ret) if ".contains(" in txt(e)}
        trues = [r for r in walk_local(func) if isinstance(r, ast.Return) and isinstance(r.value, ast.Constant) and r.value.value is True
                 and located(r)]
        falses = [r for r in walk_local(func) if isinstance(r, ast.Return) and isinstance(r.value, ast.Constant) and r.value.value is False]
        if not trues:
            ctx.ob("R17.3", rel, func, qual, "no one-sided containment shortcut", True,
                   "the comparison has no shortcut on an asymmetric predicate", form="", vacuous=True)
        for index, ret in enumerate(trues):
            wanted = {(swap(text), truth) for text, truth in located(ret)}
            mirrored = any(wanted <= located(f) for f in falses)
            ctx.ob("R17.3", rel, ret, qual, f"containment shortcut#{index} mirrored", mirrored,
                   "`self < other` by containment is matched by `not (other < self)` for the same pair, so that `<` is a strict order "
                   "and sorting a set of areas does not depend on the set's iteration order",
                   detail="" if mirrored else "the area [0:1000) contains join{[900:1000),[0:100)} and sorts before it by the shortcut, while "
                   "the origin-crossing area sorts before the other by its negative start: a < b and b < a, and sorted({a, b, c}) "
                   "depends on the input order", form="; ".join(("" if t else "not ") + x for x, t in sorted(located(ret))))


def run(ctx: Ctx) -> None:
    ctx.rule("R17.3", "area ordering is a strict order: containment shortcuts are mirrored", floor=1)
    r17_3(ctx)
    files = scope(ctx)
    if len(files) < 30:
        raise AnalysisError(f"C17 scope shrank to {len(files)} modules")
    family_e.run_for(ctx, "R17.1", files, floor=25,
                     statement="no set's iteration order reaches an ordered result (family E)")
    ctx.rule("R17.2", "output canonicalisation: sorted notes, qualifier keys and features", floor=3)
    r17_2(ctx)
