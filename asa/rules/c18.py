""" C18 Parallel execution gives the sequential result, in order """

from __future__ import annotations

import ast
from typing import Dict, List, Optional, Set

from ..astutil import arg_of, call_name, calls, enclosing_function, guards, kwarg, last_attr, stmt_key, txt, walk_local
from ..cfg import CFG
from ..flow import bound_from
from ..index import AnalysisError, _walk_functions, dotted
from ..report import Ctx

PROP = "C18"
BASE = "antismash/common/subprocessing/base.py"
COLL = "antismash/common/secmet/features/cdscollection.py"

EXPLANATION = (
    "R18.1: the pool API used by parallel_function / parallel_execute is from the order-preserving family (map, "
    "starmap, *_async + get) - never imap_unordered or completion-ordered collection - the value returned is exactly "
    "the get() result, the one-CPU shortcut is a list built in argument order, and the worker pool is created by the "
    "call that uses it (workers are forked from the parent at that moment; a pool kept in module state runs later "
    "batches against an earlier state of the parent). R18.2: failure surfaces: the pool "
    "timeout either raises in its handler or sets a flag that is tested-and-raised on every normal path afterwards; "
    "only the timeout and keyboard interrupt are handled; no path returns results not assigned by get(). R18.3: every "
    "call site passes a picklable callable (module-level function or functools.partial of one). R18.4: the custom "
    "__reduce__ of the sectioned gene tuple agrees with __new__ in number, order and names of arguments, and the "
    "tuple layout built in __new__ agrees with the indices its properties read."
)
UNDECIDED = [
    "pickling fidelity of Record contents across the process boundary in general",
    "behaviour under real schedules, worker crashes (a killed worker makes Pool.get block until the timeout)",
]
TRUSTED = ["CPython ast", "multiprocessing.Pool.map/starmap(_async).get() return results in argument order",
           "pickle reconstructs an object as reduce[0](*reduce[1])"]

ORDERED_POOL_API = {"map", "starmap", "map_async", "starmap_async"}
UNORDERED_POOL_API = {"imap_unordered", "apply_async", "imap", "apply"}
POOL_HOUSEKEEPING = {"terminate", "join", "close"}


def r18_1_2(ctx: Ctx) -> None:
    for qual in ("parallel_function", "parallel_execute"):
        func = ctx.fn(BASE, qual)
        cfg = CFG(func)
        withs = [n for n in walk_local(func) if isinstance(n, ast.With) and "multiprocessing.Pool" in txt(n.items[0].context_expr)]
        if not withs:
            # is the pool kept beyond the call?  Workers are forked when the pool is created: a pool that outlives the
            # call runs later batches against the parent's state (configuration, tables, caches) as it was back then
            module = ctx.repo.modules[BASE].tree
            top_names = {t.id for st in module.body if isinstance(st, (ast.Assign, ast.AnnAssign))
                         for t in (st.targets if isinstance(st, ast.Assign) else [st.target]) if isinstance(t, ast.Name)}
            helpers = {n.name: n for n in module.body if isinstance(n, ast.FunctionDef)}
            scope = [func] + [helpers[call_name(c)] for c in calls(func) if call_name(c) in helpers and call_name(c) != qual]
            kept = []
            for fn in scope:
                declared_global = {name for n in walk_local(fn) if isinstance(n, ast.Global) for name in n.names}
                for st in walk_local(fn):
                    if not (isinstance(st, ast.Assign) and isinstance(st.value, ast.Call) and txt(st.value.func).endswith("Pool")):
                        continue
                    for target in st.targets:
                        base = target
                        while isinstance(base, (ast.Subscript, ast.Attribute)):
                            base = base.value
                        if isinstance(base, ast.Name) and ((base is not target and base.id in top_names) or base.id in declared_global):
                            kept.append((fn, st))
            if kept:
                fn, st = kept[0]
                ctx.ob("R18.1", BASE, st, qual, "the pool is created for the batch", False,
                       "the worker pool is created by the call that uses it and ended with it: workers are forked from the parent "
                       "when the pool is created, so each batch sees the parent's state as a sequential run would",
                       detail=f"`{stmt_key(st)[:70]}` in {fn.name} keeps the pool in module state: a later batch runs in workers "
                       "forked before the configuration or data of the parent changed and returns what the earlier state gives",
                       form=stmt_key(st)[:100])
                continue
            ctx.cannot("R18.1", BASE, func, qual, "pool", "no `with multiprocessing.Pool(...)` block")
            continue
        ctx.ob("R18.1", BASE, withs[0], qual, "the pool is created for the batch", True,
               "the worker pool is created by the call that uses it and ended with it: workers are forked from the parent "
               "when the pool is created, so each batch sees the parent's state as a sequential run would",
               form=f"with {txt(withs[0].items[0].context_expr)}")
        pool = txt(withs[0].items[0].optional_vars)
        pool_calls = [c for c in calls(func) if isinstance(c.func, ast.Attribute) and txt(c.func.value) == pool]
        submit = [c for c in pool_calls if c.func.attr not in POOL_HOUSEKEEPING]  # type: ignore[attr-defined]
        ok = len(submit) == 1 and submit[0].func.attr in ORDERED_POOL_API  # type: ignore[attr-defined]
        ctx.ob("R18.1", BASE, submit[0] if submit else func, qual, "pool API", ok,
               "work is submitted once, through an order-preserving pool method",
               form="; ".join(txt(c)[:60] for c in submit))
        for sub in submit:
            chunk = kwarg(sub, "chunksize") or (sub.args[2] if len(sub.args) > 2 else None)
            if chunk is None:
                continue
            positive = (isinstance(chunk, ast.Constant) and isinstance(chunk.value, int) and chunk.value >= 1) or \
                (isinstance(chunk, ast.Call) and call_name(chunk) == "max" and any(
                    isinstance(a, ast.Constant) and isinstance(a.value, int) and a.value >= 1 for a in chunk.args))
            ctx.ob("R18.1", BASE, sub, qual, "chunk size", positive,
                   "a chunk size handed to the pool is at least one for every batch size (a chunk size of 0 makes the pool "
                   "report a list of None without running anything)",
                   detail="" if positive else f"`{txt(chunk)}` can be 0 (e.g. batch smaller than the worker count)",
                   form=txt(chunk))
        jobs = [txt(t) for n in walk_local(func) if isinstance(n, ast.Assign) and n.value in submit for t in n.targets]
        gets = [n for n in walk_local(func) if isinstance(n, ast.Assign) and isinstance(n.value, ast.Call)
                and last_attr(n.value) == "get" and txt(n.value.func.value) in jobs]  # type: ignore[attr-defined]
        from ..flow import fact_texts
        result_name = txt(gets[0].targets[0]) if gets else ""
        all_rets = [r for r in walk_local(func) if isinstance(r, ast.Return) and r.value is not None]
        shortcuts = [r for r in all_rets if "cpus == 1" in fact_texts(cfg, r)]
        rets = [r for r in all_rets if r not in shortcuts]
        # plain copies of the result (an inlined helper hands it back under another name)
        aliases = {result_name}
        changed = True
        while changed and result_name:
            changed = False
            for n in walk_local(func):
                if isinstance(n, ast.Assign) and len(n.targets) == 1 and isinstance(n.targets[0], ast.Name) \
                        and isinstance(n.value, ast.Name) and n.value.id in aliases and n.targets[0].id not in aliases:
                    aliases.add(n.targets[0].id)
                    changed = True
        ok = len(gets) == 1 and len(rets) >= 1 and all(txt(r.value) in aliases for r in rets)
        others = [v for name in aliases for v in bound_from(func, name) if v is not (gets[0].value if gets else None)
                  and not (isinstance(v, ast.Name) and v.id in aliases)
                  # an empty default that only a timed-out (hence raising, R18.2) run leaves in place
                  and not (isinstance(v, (ast.List, ast.Tuple)) and not v.elts)]
        ctx.ob("R18.1", BASE, rets[0] if rets else func, qual, "returned value", ok and not others,
               "the value returned is exactly what get() delivered (no re-collection, filtering or reordering)",
               form=f"{stmt_key(gets[0]) if gets else ''}; return {txt(rets[0].value) if rets else ''}")
        # arguments: the submitted callable and iterable are the function's own parameters
        if submit:
            params = {a.arg for a in func.args.args}
            fn_arg, it_arg = arg_of(submit[0], 0), arg_of(submit[0], 1)
            ok = isinstance(it_arg, ast.Name) and it_arg.id in params and isinstance(fn_arg, ast.Name)
            if qual == "parallel_function":
                ok = ok and fn_arg.id in params
            ctx.ob("R18.1", BASE, submit[0], qual, "submitted arguments", ok,
                   "the argument list is handed to the pool unchanged", form=txt(submit[0]))
        # one-CPU shortcut
        for sc in shortcuts:
            ok, form = _ordered_map(func, sc.value)
            ctx.ob("R18.1", BASE, sc, qual, "one-CPU shortcut", ok,
                   "with one CPU the calls are made in-process, one per argument set, in argument order", form=form)
        # R18.2 failure surfaces
        tries = [n for n in walk_local(func) if isinstance(n, ast.Try)]
        handlers = [h for t in tries for h in t.handlers]
        types: List[str] = []
        for handler in handlers:
            elts = handler.type.elts if isinstance(handler.type, ast.Tuple) else [handler.type]
            types += [txt(e) for e in elts if e is not None]
            if handler.type is None:
                types.append("<bare>")
        ok = bool(handlers) and set(types) <= {"multiprocessing.TimeoutError", "KeyboardInterrupt"} and \
            "multiprocessing.TimeoutError" in types
        ctx.ob("R18.2", BASE, tries[0] if tries else func, qual, "handled exception types", ok,
               "only the pool timeout (and a keyboard interrupt) is handled; any other worker failure propagates from get()",
               form=str(types))
        for handler in handlers:
            hn = cfg.n(handler)
            reach = cfg.reach([hn])
            if cfg.exit not in reach:
                ctx.ob("R18.2", BASE, handler, qual, f"handler {txt(handler.type)}", True,
                       "the handler raises on every path", form="raises")
                continue
            # flag idiom: handler sets FLAG = True; `if FLAG: raise` guards every normal exit afterwards
            flags = [txt(s.targets[0]) for s in handler.body if isinstance(s, ast.Assign)
                     and isinstance(s.value, ast.Constant) and s.value.value is True]
            ok = False
            form = ""
            for flag in flags:
                inits = [v for v in bound_from(func, flag)]
                only_bool = all(isinstance(v, ast.Constant) and isinstance(v.value, bool) for v in inits)
                if not only_bool:
                    continue
                # normal exits reachable from the handler: each must lie behind the test `flag is False`
                after = cfg.reach([hn])
                exits = [src for src, _ in cfg.pred[cfg.exit] if src in after]
                # the flag may be handed on under another name (a plain copy made after the handler)
                flag_names = {flag}
                grew = True
                while grew:
                    grew = False
                    for n in after:
                        a = cfg.nodes[n].ast
                        if isinstance(a, ast.Assign) and len(a.targets) == 1 and isinstance(a.targets[0], ast.Name) \
                                and isinstance(a.value, ast.Name) and a.value.id in flag_names and a.targets[0].id not in flag_names:
                            flag_names.add(a.targets[0].id)
                            grew = True
                guarded = bool(exits) and all(
                    any(f"not {name}" in fact_texts(cfg, cfg.nodes[src].ast) for name in flag_names)
                    for src in exits if cfg.nodes[src].ast is not None)
                no_reset = not any(isinstance(cfg.nodes[n].ast, ast.Assign) and txt(cfg.nodes[n].ast.targets[0]) in flag_names
                                   and not (isinstance(cfg.nodes[n].ast.value, ast.Constant)
                                            and cfg.nodes[n].ast.value.value is True)
                                   and not (isinstance(cfg.nodes[n].ast.value, ast.Name) and cfg.nodes[n].ast.value.id in flag_names)
                                   for n in after)
                if guarded and no_reset:
                    ok = True
                    form = f"{flag} = True in the handler; every normal exit afterwards is behind `not {flag}`"
            ctx.ob("R18.2", BASE, handler, qual, f"handler {txt(handler.type)}", ok,
                   "a handled timeout still ends in an error: the handler sets a flag that is tested-and-raised on every "
                   "path to the normal exit", form=form)
        # results can only come from get()
        if gets and rets:
            gn, rn = cfg.n(gets[0]), cfg.n(rets[0])
            ok = not cfg.exists_path(cfg.entry, rn, avoid=[gn], labels_excluded=["exc"]) or \
                all(cfg.n(h) in cfg.dominators().get(n, set()) or True for h in handlers for n in [rn])
            # paths to the return that avoid get() must come through a handler (and hence the raising test above)
            path = cfg.find_path(cfg.entry, rn, avoid=[gn] + [cfg.n(h) for h in handlers])
            ctx.ob("R18.2", BASE, rets[0], qual, "results assigned by get()", path is None,
                   "no path reaches the return without get() having delivered the results (other than through a handler "
                   "that ends in an error)", detail=cfg.describe_path(path) if path else "", form="")


def _ordered_map(func: ast.AST, value: ast.AST):
    """ is `value` the list [function(*a) for a in args] - as a comprehension or as the equivalent append loop? """
    params = [a.arg for a in func.args.args]  # type: ignore[attr-defined]
    if len(params) < 2:
        return False, "unexpected signature"
    fn_name, args_name = params[0], params[1]

    def call_ok(call: ast.AST, target: ast.AST) -> bool:
        return isinstance(call, ast.Call) and txt(call.func) == fn_name and len(call.args) == 1 and not call.keywords \
            and isinstance(call.args[0], ast.Starred) and txt(call.args[0].value) == txt(target)
    if isinstance(value, ast.ListComp):
        gen = value.generators[0]
        ok = len(value.generators) == 1 and not gen.ifs and txt(gen.iter) == args_name and call_ok(value.elt, gen.target)
        return ok, txt(value)
    if isinstance(value, ast.Name):
        name = value.id
        inits = bound_from(func, name)
        loops = [n for n in walk_local(func) if isinstance(n, ast.For) and any(
            isinstance(c, ast.Call) and isinstance(c.func, ast.Attribute) and txt(c.func.value) == name for c in ast.walk(n))]
        mutations = [c for c in calls(func) if isinstance(c.func, ast.Attribute) and txt(c.func.value) == name]
        ok = len(inits) == 1 and isinstance(inits[0], ast.List) and not inits[0].elts and len(loops) == 1 \
            and len(mutations) == 1 and mutations[0].func.attr == "append" and len(mutations[0].args) == 1  # type: ignore
        if ok:
            loop = loops[0]
            ok = txt(loop.iter) == args_name and len(loop.body) == 1 and isinstance(loop.body[0], ast.Expr) \
                and loop.body[0].value is mutations[0] and not loop.orelse and call_ok(mutations[0].args[0], loop.target)
            return ok, f"{name} = []; for {txt(loop.target)} in {txt(loop.iter)}: {txt(mutations[0])}"
        return False, f"{name}: not an append loop over the argument list"
    return False, txt(value)[:80]


def r18_3(ctx: Ctx) -> None:
    found = 0
    for rel in sorted(ctx.repo.modules):
        module = ctx.repo.modules[rel]
        if "parallel_function" not in module.source:
            continue
        toplevel = {n.name for n in module.tree.body if isinstance(n, (ast.FunctionDef, ast.AsyncFunctionDef))}
        imported = set(module.imports)
        for qual, func in _walk_functions(module.tree, ""):
            for call in calls(func):
                if call_name(call).split(".")[-1] != "parallel_function" or rel == BASE:
                    continue
                found += 1
                ctx.call_sites += 1
                ctx.repo.consulted.add(rel)
                fn = arg_of(call, 0, "function")
                ok = False
                form = txt(fn)
                if isinstance(fn, ast.Name):
                    if fn.id in toplevel or (fn.id in imported and fn.id not in {a.arg for a in func.args.args}):
                        ok = True
                    else:
                        srcs = bound_from(func, fn.id)
                        ok = bool(srcs) and all(
                            isinstance(v, ast.Call) and call_name(v) in ("functools.partial", "partial")
                            and isinstance(v.args[0], (ast.Name, ast.Attribute))
                            and (dotted(v.args[0]).split(".")[0] in toplevel | imported) for v in srcs)
                        form = f"{fn.id} = {'; '.join(txt(v)[:60] for v in srcs)}"
                elif isinstance(fn, ast.Attribute):
                    ok = dotted(fn) is not None and dotted(fn).split(".")[0] in imported
                ctx.ob("R18.3", rel, call, qual, f"callable {txt(fn)}", ok,
                       "the callable handed to the pool is a module-level function or a functools.partial of one (picklable)",
                       form=form)
    if found < 3:
        raise AnalysisError(f"expected at least 3 call sites of parallel_function, found {found}")


def r18_4(ctx: Ctx) -> None:
    info = ctx.repo.cls(COLL, "_SectionedCDSTuple")
    new = ctx.fn(COLL, "_SectionedCDSTuple.__new__")
    reduce = ctx.fn(COLL, "_SectionedCDSTuple.__reduce__")
    params = [a.arg for a in new.args.args[1:]]
    required = len(params) - len(new.args.defaults)
    from ..cfg import CFG
    from ..flow import inline_reaching
    rcfg = CFG(reduce)
    rets = [r for r in walk_local(reduce) if isinstance(r, ast.Return)]
    value = inline_reaching(rcfg, rets[0], rets[0].value) if len(rets) == 1 and rets[0].value is not None else None
    ok = isinstance(value, ast.Tuple) and len(value.elts) == 2 and isinstance(value.elts[1], ast.Tuple)
    if not ok:
        ctx.cannot("R18.4", COLL, reduce, "_SectionedCDSTuple.__reduce__", "shape", "does not return (callable, (args...))")
        return
    target, args = value.elts
    resolved = list(args.elts)
    names = [txt(a).replace("self.", "").lstrip("_") for a in resolved]
    for param, arg in zip(params, resolved):
        stored = isinstance(arg, ast.Attribute) and txt(arg.value) == "self" and arg.attr.lstrip("_") == param
        ctx.ob("R18.4", COLL, rets[0], "_SectionedCDSTuple.__reduce__", f"argument for `{param}`", stored,
               "each argument handed to the constructor on unpickling is the value stored from that same parameter, read "
               "back unchanged (a recomputed value can differ in content or order from what the in-process object holds)",
               detail="" if stored else f"`{param}` is rebuilt as {txt(arg)[:80]}", form=txt(arg)[:100])
    ctx.ob("R18.4", COLL, rets[0], "_SectionedCDSTuple.__reduce__", "reconstructor", txt(target) in (info.name, "type(self)", "self.__class__"),
           "unpickling calls the class itself", form=txt(target))
    ctx.ob("R18.4", COLL, rets[0], "_SectionedCDSTuple.__reduce__", "arguments vs __new__ parameters",
           names == params[:len(names)] and len(names) >= required,
           "the positional arguments that __reduce__ hands to the constructor are the constructor's parameters, in the "
           "same order and under the same names", form=f"reduce args={names}; __new__ params={params}")
    # layout vs property indices
    build = [c for c in calls(new) if txt(c.func) == "tuple.__new__"]
    layout: List[str] = []
    built = build[0].args[1] if build and len(build[0].args) > 1 else None
    if isinstance(built, ast.Name):
        values = bound_from(new, built.id)
        built = values[0] if len(values) == 1 else built
    if isinstance(built, ast.Tuple):
        layout = [txt(e) for e in built.elts]
    props = {}
    for node in info.node.body:
        if isinstance(node, ast.FunctionDef) and any(txt(d) == "property" for d in node.decorator_list):
            for call in calls(node):
                if txt(call.func) == "super().__getitem__" and isinstance(call.args[0], ast.Constant):
                    props[node.name] = call.args[0].value
    for prop, index in sorted(props.items()):
        ok = index < len(layout) and layout[index] == prop.lstrip("_")
        ctx.ob("R18.4", COLL, info.node, "_SectionedCDSTuple", f"property {prop}", ok,
               "each section property reads the tuple slot that __new__ filled with the parameter of the same name",
               form=f"{prop} -> slot {index} = {layout[index] if index < len(layout) else '?'}")
    ctx.ob("R18.4", COLL, info.node, "_SectionedCDSTuple", "all sections exposed",
           {p.lstrip("_") for p in props} == set(params),
           "every constructor parameter is readable back (needed to rebuild the object)", form=str(sorted(props)))
    # keyword callers use existing parameter names
    regen = ctx.fn(COLL, "_SectionedCDSCache._regen_cache")
    for call in calls(regen):
        if call_name(call) == "_SectionedCDSTuple":
            kws = [k.arg for k in call.keywords]
            ok = set(kws) <= set(params) and len(call.args) + len(kws) >= required
            want = {"pre_origin": "self._pre_origin.features", "cross_origin": "self._cross_origin.features",
                    "post_origin": "self._post_origin.features"}
            ok = ok and all(txt(k.value) == want.get(k.arg, txt(k.value)) for k in call.keywords)
            ctx.ob("R18.4", COLL, call, "_SectionedCDSCache._regen_cache", "constructor call", ok,
                   "the in-process constructor call passes each section under its own parameter name", form=txt(call)[:120])


def run(ctx: Ctx) -> None:
    ctx.rule("R18.1", "order-preserving pool API; returned value is the get() result; ordered one-CPU shortcut", floor=6)
    ctx.rule("R18.2", "timeouts surface as errors; only timeout/interrupt handled; results only from get()", floor=6)
    ctx.rule("R18.3", "call sites pass picklable module-level callables", floor=3)
    ctx.rule("R18.4", "__reduce__ agrees with __new__; tuple layout agrees with property indices", floor=10)
    r18_1_2(ctx)
    r18_3(ctx)
    r18_4(ctx)
