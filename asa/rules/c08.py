""" C08 Genes belong to exactly the areas that contain them, whatever the build order """

from __future__ import annotations

import ast
from typing import Dict, List, Set

from ..astutil import call_name, calls, enclosing_loops, guards, last_attr, stmt_key, txt, walk_local
from ..cfg import CFG
from ..flow import bound_from
from ..index import AnalysisError, dotted
from ..report import Ctx

PROP = "C08"
REC = "antismash/common/secmet/record.py"
COLL = "antismash/common/secmet/features/cdscollection.py"
PROTO = "antismash/common/secmet/features/protocluster.py"

EXPLANATION = (
    "Build-order symmetry decided structurally: (R08.1) the Record attributes that hold lists of CDSCollection "
    "subclasses (derived from the class hierarchy) are exactly the collections that _link_cds_to_parent visits when a "
    "gene arrives after the areas, each visit lies on every path through the function (no early exit can skip one), "
    "and each add_<area> links every gene returned by the within-location lookup when an area arrives after the "
    "genes; both directions set the gene's region for regions. (R08.2) CDSCollection.add_cds refuses a gene it does "
    "not contain before mutating, forwards to every child containing the gene, and a protocluster records a "
    "defining gene only when it lies in the core and carries a CORE function for the protocluster's product."
)
UNDECIDED = [
    "that get_cds_features_within_location returns exactly the contained/overlapping genes (the bisection with early "
    "exit is wrong for nested genes - an algorithmic defect with no structural signature)",
    "ordering of lookup results",
]
TRUSTED = ["CPython ast", "asa.cfg", "class hierarchy resolution of asa.index"]


def collection_lists(ctx: Ctx) -> Dict[str, str]:
    """ Record.__init__ attributes annotated List[<CDSCollection subclass>] -> element class """
    init = ctx.fn(REC, "Record.__init__")
    module = ctx.repo.mod(REC)
    found: Dict[str, str] = {}
    for node in walk_local(init):
        if isinstance(node, ast.AnnAssign) and isinstance(node.target, ast.Attribute) and dotted(node.target.value) == "self":
            ann = node.annotation
            if isinstance(ann, ast.Subscript) and txt(ann.value) in ("List", "list"):
                info = ctx.repo.resolve_class(module, ann.slice)
                if info is not None and ctx.repo.is_subclass(info, "CDSCollection"):
                    found[node.target.attr] = info.name
    if len(found) < 4:
        raise AnalysisError(f"Record.__init__: expected four CDSCollection lists, found {sorted(found)}")
    return found


def r08_1(ctx: Ctx) -> None:
    lists = collection_lists(ctx)
    qual = "Record._link_cds_to_parent"
    func = ctx.fn(REC, qual)
    cfg = CFG(func)
    gene = func.args.args[1].arg
    visited: Dict[str, ast.For] = {}
    # direct loops over self.<list> (possibly sliced) and loops over a literal list of such lists
    for loop in [n for n in walk_local(func) if isinstance(n, ast.For)]:
        base = loop.iter
        while isinstance(base, ast.Subscript):
            base = base.value
        path = dotted(base)
        if path and path.startswith("self.") and path[5:] in lists:
            visited[path[5:]] = loop
        elif isinstance(base, ast.Name):
            for val in bound_from(func, base.id):
                if isinstance(val, (ast.List, ast.Tuple)):
                    for elt in val.elts:
                        p = dotted(elt)
                        if p and p.startswith("self.") and p[5:] in lists:
                            inner = [n for n in walk_local(loop) if isinstance(n, ast.For) and txt(n.iter) == txt(loop.target)]
                            if inner:
                                visited[p[5:]] = inner[0]
    ctx.ob("R08.1", REC, func, qual, "collections visited", set(visited) == set(lists),
           "a gene added after the areas is offered to every list of CDS collections the record holds",
           form=f"visited={sorted(visited)} held={sorted(lists)}")
    for name, loop in sorted(visited.items()):
        var = txt(loop.target)
        adds = [c for c in calls(loop) if txt(c.func) == f"{var}.add_cds" and c.args and txt(c.args[0]) == gene]
        ok = bool(adds)
        if ok:
            gs = guards(adds[0], stop=loop)
            ok = any(pol and txt(t) == f"{gene}.is_contained_by({var})" for t, pol in gs)
        ctx.ob("R08.1", REC, loop, qual, f"link into {name}", ok,
               "the gene is added to each collection of the list that contains it", form=f"for {var} in {txt(loop.iter)}")
        # on every path through the function
        head = cfg.n(loop)
        # outermost loop header of this visit
        outer = [lp for lp in enclosing_loops(loop, stop=func)]
        top = cfg.n(outer[-1]) if outer else head
        ok = cfg.postdominates(top, cfg.entry)
        path = None if ok else cfg.find_path(cfg.entry, cfg.exit, avoid=[top])
        ctx.ob("R08.1", REC, loop, qual, f"visit of {name} on every path", ok,
               "no path through the function (early return) skips this list",
               detail=f"path avoiding the visit: {cfg.describe_path(path)}" if path else "", form="")
        if lists[name] == "Region":
            sets = [n for n in walk_local(loop) if isinstance(n, ast.Assign) and txt(n.targets[0]) == f"{gene}.region"
                    and txt(n.value) == var]
            ctx.ob("R08.1", REC, loop, qual, "gene -> region link", bool(sets),
                   "the containing region is recorded on the gene", form="")
    # the other direction: add_<area> links genes from the lookup
    adders = {"_protoclusters": "add_protocluster", "_candidate_clusters": "add_candidate_cluster",
              "_subregions": "add_subregion", "_regions": "add_region"}
    for name in sorted(lists):
        adder = adders.get(name)
        if adder is None:
            ctx.cannot("R08.1", REC, func, "Record", f"adder for {name}", "no known add_* method for this list")
            continue
        f = ctx.fn(REC, f"Record.{adder}")
        area = f.args.args[1].arg
        loops = [n for n in walk_local(f) if isinstance(n, ast.For)
                 and txt(n.iter) == f"self.get_cds_features_within_location({area}.location)"]
        ok = bool(loops) and any(txt(c.func) == f"{area}.add_cds" and txt(c.args[0]) == txt(loops[0].target) for c in calls(loops[0]))
        if ok and not guards(loops[0], stop=f):
            g = CFG(f)
            ok = g.postdominates(g.n(loops[0]), g.entry)
        ctx.ob("R08.1", REC, f, f"Record.{adder}", "area links contained genes", ok,
               "an area added after the genes receives every gene within its location (default lookup: contained only)",
               form=txt(loops[0].iter) if loops else "")
        if lists[name] == "Region":
            ok = bool(loops) and any(isinstance(n, ast.Assign) and txt(n.targets[0]) == f"{txt(loops[0].target)}.region"
                                     and txt(n.value) == area for n in walk_local(loops[0]))
            ctx.ob("R08.1", REC, f, f"Record.{adder}", "gene -> region link", ok,
                   "genes of a new region record that region", form="")
    # add_cds_feature reaches the linker after inserting into the sorted gene list
    f = ctx.fn(REC, "Record.add_cds_feature")
    g = CFG(f)
    link = [c for c in calls(f) if txt(c.func) == "self._link_cds_to_parent"]
    ins = [c for c in calls(f) if txt(c.func) == "self._cds_features.insert"]
    ok = len(link) == 1 and len(ins) == 1 and g.postdominates(g.n(link[0]), g.n(ins[0])) and \
        "bisect.bisect_left(self._cds_features, cds_feature)" in txt(f)
    ctx.ob("R08.1", REC, f, "Record.add_cds_feature", "linker reached", ok,
           "every gene inserted (at its bisection point) is linked to its parents", form="")
    dirty = [n for n in walk_local(f) if isinstance(n, ast.Assign) and txt(n.targets[0]) == "self._cds_cache_dirty"
             and txt(n.value) == "True"]
    ok = bool(dirty) and bool(ins) and g.dominates(g.n(dirty[0]), g.n(ins[0])) or \
        (bool(dirty) and bool(ins) and g.postdominates(g.n(dirty[0]), g.n(ins[0])))
    ctx.ob("R08.1", REC, f, "Record.add_cds_feature", "gene cache invalidated", ok,
           "the cached gene tuple is invalidated whenever a gene is inserted", form="")


def r08_2(ctx: Ctx) -> None:
    qual = "CDSCollection.add_cds"
    func = ctx.fn(COLL, qual)
    cfg = CFG(func)
    refusal = [n for n in walk_local(func) if isinstance(n, ast.If) and txt(n.test) == "not cds.is_contained_by(self)"
               and any(isinstance(s, ast.Raise) for s in n.body)]
    store = [c for c in calls(func) if txt(c.func) == "self._cdses.add_cds"]
    ok = bool(refusal) and bool(store) and cfg.dominates(cfg.n(refusal[0]), cfg.n(store[0]))
    ctx.ob("R08.2", COLL, func, qual, "containment refusal", ok,
           "a gene not contained by the collection is refused before the collection is modified", form="")
    loops = [n for n in walk_local(func) if isinstance(n, ast.For) and txt(n.iter) == "self._children"]
    ok = False
    if loops:
        var = txt(loops[0].target)
        fw = [c for c in calls(loops[0]) if txt(c.func) == f"{var}.add_cds"]
        ok = bool(fw) and any(pol and txt(t) == f"cds.is_contained_by({var})" for t, pol in guards(fw[0], stop=loops[0])) \
            and cfg.postdominates(cfg.n(loops[0]), cfg.n(store[0])) if store else False
    ctx.ob("R08.2", COLL, loops[0] if loops else func, qual, "forward to children", ok,
           "after storing the gene it is offered to every child, and added to those that contain it", form="")
    # section choice
    ok = "CollectionSection.CROSS_ORIGIN" in txt(func) and "cds.crosses_origin()" in txt(func) and \
        "cds.is_contained_by(self.location.parts[1])" in txt(func)
    ctx.ob("R08.2", COLL, func, qual, "section choice", ok,
           "for origin-spanning collections the gene is filed as crossing, pre- or post-origin by its own location", form="")
    qual = "Protocluster.add_cds"
    func = ctx.fn(PROTO, qual)
    cfg = CFG(func)
    adds = [c for c in calls(func) if txt(c.func) == "self._definition_cdses.add"]
    early = [n for n in walk_local(func) if isinstance(n, ast.If) and txt(n.test) == "not cds.is_contained_by(self.core_location)"
             and any(isinstance(s, ast.Return) for s in n.body)]
    sup = [c for c in calls(func) if txt(c.func) == "super().add_cds"]
    ok = bool(adds) and bool(early) and cfg.dominates(cfg.n(early[0]), cfg.n(adds[0]))
    ctx.ob("R08.2", PROTO, func, qual, "defining gene inside the core", ok,
           "a gene becomes a defining gene only if it lies inside the protocluster's core", form="")
    ok = False
    if adds:
        gs = guards(adds[0], stop=func)
        cores = [txt(v) for v in bound_from(func, "cores")]
        ok = any(pol and txt(t) == "any((core.product == self.product for core in cores))" for t, pol in gs) and \
            cores == ["cds.gene_functions.get_by_function(GeneFunction.CORE)"]
    ctx.ob("R08.2", PROTO, func, qual, "defining gene has a core function of this product", ok,
           "and only if it carries a CORE gene function whose product equals the protocluster's product", form="")
    ok = bool(sup) and bool(early) and cfg.dominates(cfg.n(sup[0]), cfg.n(early[0]))
    ctx.ob("R08.2", PROTO, func, qual, "membership first", ok,
           "the gene is first added as a member (with the containment refusal of the base class)", form="")


def r08_3(ctx: Ctx) -> None:
    from .bisect_lint import scan_bounds
    count = 0
    for qual in ("Record._link_cds_to_parent", "Record.get_cds_features_within_location",
                 "Record.get_cds_features_within_location.find_start_in_list"):
        func = ctx.fn(REC, qual)
        for node, role, kind, ok in scan_bounds(func):
            count += 1
            ctx.ob("R08.3", REC, node, qual, f"{role} bound of {txt(node)[:50]}", ok,
                   "a window over the sorted feature list runs from the lower bisection point to the upper bisection point, so "
                   "features tying with the searched one are inside the window",
                   detail="" if ok else f"the {role} bound derives from bisect_{kind}", form=f"{txt(node)} [{role}: bisect_{kind}]")
    helper = ctx.fn(REC, "Record.get_cds_features_within_location.find_start_in_list")
    ok = "bisect.bisect_left(features, dummy)" in txt(helper) and \
        any(isinstance(n, ast.While) and "location.start == location.start" in txt(n.test).replace("features[index - 1].", "")
            or isinstance(n, ast.While) and ".location.start == location.start" in txt(n.test) for n in walk_local(helper))
    ctx.ob("R08.3", REC, helper, "Record.get_cds_features_within_location.find_start_in_list", "ties at the start included", ok,
           "the lookup starts at the lower bisection point and walks back over genes sharing the query's start", form="")
    if count < 2:
        raise AnalysisError(f"record.py: expected at least 2 bisection-bounded windows, found {count}")


def run(ctx: Ctx) -> None:
    ctx.rule("R08.1", "gene-after-area and area-after-gene linking visit the same collections, on every path", floor=14)
    ctx.rule("R08.2", "add_cds refuses, forwards to children, and records defining genes under core and product", floor=6)
    r08_1(ctx)
    r08_2(ctx)
    ctx.rule("R08.3", "bisection windows over the sorted gene/region lists include ties", floor=3)
    r08_3(ctx)
