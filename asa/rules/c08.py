""" C08 Genes belong to exactly the areas that contain them, whatever the build order """

from __future__ import annotations

import ast
from typing import Dict, List, Set

from ..astutil import call_name, calls, enclosing_loops, guards, kwarg, last_attr, stmt_key, txt, walk_local
from ..cfg import CFG
from ..flow import bound_from
from ..index import AnalysisError, dotted
from ..report import Ctx

PROP = "C08"
REC = "antismash/common/secmet/record.py"
COLL = "antismash/common/secmet/features/cdscollection.py"
PROTO = "antismash/common/secmet/features/protocluster.py"

EXPLANATION = (
    "Build-order symmetry decided structurally: (R08.1) the Record attributes that hold lists of CDSCollection "
    "subclasses (derived from the class hierarchy) are exactly the collections that _link_cds_to_parent visits when a "
    "gene arrives after the areas, each visit lies on every path through the function (no early exit can skip one), "
    "nothing but the containment test stands between a member of such a list and add_cds, "
    "and each add_<area> links every gene returned by the within-location lookup when an area arrives after the "
    "genes; both directions set the gene's region for regions. (R08.2) CDSCollection.add_cds refuses a gene it does "
    "not contain before mutating, forwards to every child containing the gene, and a protocluster records a "
    "defining gene only when it lies in the core and carries a CORE function for the protocluster's product."
)
UNDECIDED = [
    "that get_cds_features_within_location returns exactly the contained/overlapping genes (the bisection with early "
    "exit is wrong for nested genes - an algorithmic defect with no structural signature)",
    "ordering of lookup results",
]
TRUSTED = ["CPython ast", "asa.cfg", "class hierarchy resolution of asa.index"]


def collection_lists(ctx: Ctx) -> Dict[str, str]:
    """ Record.__init__ attributes annotated List[<CDSCollection subclass>] -> element class """
    init = ctx.fn(REC, "Record.__init__")
    module = ctx.repo.mod(REC)
    found: Dict[str, str] = {}
    for node in walk_local(init):
        if isinstance(node, ast.AnnAssign) and isinstance(node.target, ast.Attribute) and dotted(node.target.value) == "self":
            ann = node.annotation
            if isinstance(ann, ast.Subscript) and txt(ann.value) in ("List", "list"):
                info = ctx.repo.resolve_class(module, ann.slice)
                if info is not None and ctx.repo.is_subclass(info, "CDSCollection"):
                    found[node.target.attr] = info.name
    if len(found) < 4:
        raise AnalysisError(f"Record.__init__: expected four CDSCollection lists, found {sorted(found)}")
    return found


def r08_1(ctx: Ctx) -> None:
    lists = collection_lists(ctx)
    qual = "Record._link_cds_to_parent"
    func = ctx.fn(REC, qual)
    cfg = CFG(func)
    gene = func.args.args[1].arg
    visited: Dict[str, ast.For] = {}
    # which of the record's collection lists does each loop run over?  The iteration source is resolved through locals
    # (slices, a literal list of lists, itertools.chain / chain.from_iterable and concatenations all name the lists);
    # a loop over the variable of an enclosing loop visits what that loop ranges over
    from ..flow import fact_texts, inline_reaching

    from ..loopview import is_area_lookup, iteration_sources
    loop_filters: Dict[int, list] = {}

    def covered(loop: ast.For) -> List[str]:
        resolved, filters = iteration_sources(func, cfg, loop)
        loop_filters[id(loop)] = filters
        names = [dotted(n)[5:] for expr in resolved for n in ast.walk(expr) if isinstance(n, ast.Attribute) and dotted(n)
                 and dotted(n).startswith("self.") and dotted(n)[5:] in lists]
        # plain aliases of the lists
        from ..loopview import resolve_alias as _alias
        for expr in resolved:
            for n in ast.walk(expr):
                if isinstance(n, ast.Name):
                    target = _alias(func, n)
                    if target is not n and dotted(target) and dotted(target).startswith("self.") and dotted(target)[5:] in lists:
                        names.append(dotted(target)[5:])
        return sorted(set(names))
    all_loops = [n for n in walk_local(func) if isinstance(n, ast.For)]
    for loop in all_loops:
        names = covered(loop)
        inner = [n for n in walk_local(loop) if isinstance(n, ast.For) and n is not loop and txt(n.iter) == txt(loop.target)]
        target = inner[0] if inner else loop
        for name in names:
            visited[name] = target
    ctx.ob("R08.1", REC, func, qual, "collections visited", set(visited) == set(lists),
           "a gene added after the areas is offered to every list of CDS collections the record holds",
           form=f"visited={sorted(visited)} held={sorted(lists)}")
    for name, loop in sorted(visited.items()):
        var = txt(loop.target)
        adds = [c for c in calls(loop) if txt(c.func) == f"{var}.add_cds" and c.args and txt(c.args[0]) == gene]
        ok = bool(adds)
        if ok:
            ok = f"{gene}.is_contained_by({var})" in fact_texts(cfg, adds[0]) or \
                any(txt(cond) == f"{gene}.is_contained_by({name_})" for name_, cond in loop_filters.get(id(loop), []))
        extra: List[str] = []
        if ok:
            # ... and to every one that does: nothing but the containment test stands between a member of the list and the add
            from ..flow import path_facts
            from ..astutil import ancestors as _anc
            tops = enclosing_loops(loop, stop=func)
            scope = tops[-1] if tops else loop
            for expr, truth in path_facts(cfg, adds[0]):
                if not any(a is scope for a in _anc(expr)):
                    continue
                text = txt(expr) if truth else f"not {txt(expr)}"
                if text == f"{gene}.is_contained_by({var})":
                    continue
                if isinstance(expr, (ast.For, ast.comprehension)) or not isinstance(expr, ast.expr):
                    continue
                extra.append(text)
        ctx.ob("R08.1", REC, loop, qual, f"link into {name}", ok and not extra,
               "the gene is added to each collection of the list that contains it, and to every one that does",
               detail="" if not extra else f"the add is also conditional on `{'`, `'.join(extra)}`: a collection that fails it "
               "never receives genes added after it, while the same collection built after the genes holds them",
               form=f"for {var} in {txt(loop.iter)}")
        # on every path through the function
        head = cfg.n(loop)
        # outermost loop header of this visit
        outer = [lp for lp in enclosing_loops(loop, stop=func)]
        top = cfg.n(outer[-1]) if outer else head
        ok = cfg.postdominates(top, cfg.entry)
        path = None if ok else cfg.find_path(cfg.entry, cfg.exit, avoid=[top])
        ctx.ob("R08.1", REC, loop, qual, f"visit of {name} on every path", ok,
               "no path through the function (early return) skips this list",
               detail=f"path avoiding the visit: {cfg.describe_path(path)}" if path else "", form="")
        if lists[name] == "Region":
            sets = [n for n in walk_local(loop) if isinstance(n, ast.Assign) and txt(n.targets[0]) == f"{gene}.region"
                    and txt(n.value) == var]
            ctx.ob("R08.1", REC, loop, qual, "gene -> region link", bool(sets),
                   "the containing region is recorded on the gene", form="")
    # the other direction: add_<area> links genes from the lookup
    adders = {"_protoclusters": "add_protocluster", "_candidate_clusters": "add_candidate_cluster",
              "_subregions": "add_subregion", "_regions": "add_region"}
    for name in sorted(lists):
        adder = adders.get(name)
        if adder is None:
            ctx.cannot("R08.1", REC, func, "Record", f"adder for {name}", "no known add_* method for this list")
            continue
        f = ctx.fn(REC, f"Record.{adder}")
        area = f.args.args[1].arg
        g = CFG(f)
        loops = [n for n in walk_local(f) if isinstance(n, ast.For) and is_area_lookup(f, g, n.iter, area)]
        ok = bool(loops) and any(txt(c.func) == f"{area}.add_cds" and txt(c.args[0]) == txt(loops[0].target) for c in calls(loops[0]))
        if ok and not guards(loops[0], stop=f):
            ok = g.postdominates(g.n(loops[0]), g.entry)
        ctx.ob("R08.1", REC, f, f"Record.{adder}", "area links contained genes", ok,
               "an area added after the genes receives every gene within its location (default lookup: contained only)",
               form=txt(loops[0].iter) if loops else "")
        if lists[name] == "Region":
            ok = bool(loops) and any(isinstance(n, ast.Assign) and txt(n.targets[0]) == f"{txt(loops[0].target)}.region"
                                     and txt(n.value) == area for n in walk_local(loops[0]))
            ctx.ob("R08.1", REC, f, f"Record.{adder}", "gene -> region link", ok,
                   "genes of a new region record that region", form="")
    # add_cds_feature reaches the linker after inserting into the sorted gene list
    f = ctx.fn(REC, "Record.add_cds_feature")
    g = CFG(f)
    link = [c for c in calls(f) if txt(c.func) == "self._link_cds_to_parent"]
    ins = [c for c in calls(f) if txt(c.func) == "self._cds_features.insert"]
    ok = len(link) == 1 and len(ins) == 1 and g.postdominates(g.n(link[0]), g.n(ins[0]))
    if ok:
        from ..flow import inline_reaching as _resolve
        gene = f.args.args[1].arg
        index = _resolve(g, ins[0], ins[0].args[0]) if ins[0].args else None
        ok = isinstance(index, ast.Call) and txt(index.func) in ("bisect.bisect_left", "bisect_left", "bisect.bisect_right", "bisect_right",
                                                                 "bisect.bisect") \
            and [txt(a) for a in index.args] == ["self._cds_features", gene] and len(ins[0].args) == 2 and txt(ins[0].args[1]) == gene
    ctx.ob("R08.1", REC, f, "Record.add_cds_feature", "linker reached", ok,
           "every gene inserted (at its bisection point) is linked to its parents", form="")
    dirty = [n for n in walk_local(f) if isinstance(n, ast.Assign) and txt(n.targets[0]) == "self._cds_cache_dirty"
             and txt(n.value) == "True"]
    ok = bool(dirty) and bool(ins) and g.dominates(g.n(dirty[0]), g.n(ins[0])) or \
        (bool(dirty) and bool(ins) and g.postdominates(g.n(dirty[0]), g.n(ins[0])))
    ctx.ob("R08.1", REC, f, "Record.add_cds_feature", "gene cache invalidated", ok,
           "the cached gene tuple is invalidated whenever a gene is inserted", form="")


def r08_2(ctx: Ctx) -> None:
    from ..flow import fact_texts, facts_nnf, inline_reaching, nnf_literals, path_facts, resolved_facts
    qual = "CDSCollection.add_cds"
    func = ctx.fn(COLL, qual, inline=True)
    cfg = CFG(func)
    gene = func.args.args[1].arg
    store = [c for c in calls(func) if txt(c.func) == "self._cdses.add_cds"]
    refusal = [r for r in walk_local(func) if isinstance(r, ast.Raise) and f"not {gene}.is_contained_by(self)" in fact_texts(cfg, r)]
    ok = bool(refusal) and bool(store) and f"{gene}.is_contained_by(self)" in fact_texts(cfg, store[0])
    ctx.ob("R08.2", COLL, func, qual, "containment refusal", ok,
           "a gene not contained by the collection is refused before the collection is modified", form="")
    loops = [n for n in walk_local(func) if isinstance(n, ast.For) and txt(n.iter) == "self._children"]
    ok = False
    if loops and store:
        var = txt(loops[0].target)
        fw = [c for c in calls(loops[0]) if txt(c.func) == f"{var}.add_cds"]
        inner = set()
        if fw:
            inner = {("" if t else "not ") + txt(e) for e, t in path_facts(cfg, fw[0]) if any(a is loops[0] for a in _anc(e))}
        ok = bool(fw) and inner == {f"{gene}.is_contained_by({var})"} and cfg.postdominates(cfg.n(loops[0]), cfg.n(store[0]))
    ctx.ob("R08.2", COLL, loops[0] if loops else func, qual, "forward to children", ok,
           "after storing the gene it is offered to every child, and added to those that contain it", form="")
    # section choice: every place that files the gene as crossing / post-origin does so on the gene's own location
    choices = {}
    for node in walk_local(func):
        value = None
        if isinstance(node, (ast.Assign, ast.AnnAssign)) and node.value is not None:
            value = node.value
        elif isinstance(node, ast.Return):
            value = node.value
        if value is not None and isinstance(value, ast.Attribute) and txt(value.value) == "CollectionSection":
            lits = nnf_literals(resolved_facts(cfg, node)) | nnf_literals(facts_nnf(path_facts(cfg, node)))
            choices.setdefault(value.attr, []).append({("" if truth else "not ") + text for text, truth in lits})
    cross = choices.get("CROSS_ORIGIN", [])
    post = choices.get("POST_ORIGIN", [])
    ok = bool(cross) and all(f"{gene}.crosses_origin()" in facts for facts in cross) and \
        bool(post) and all(f"{gene}.is_contained_by(self.location.parts[1])" in facts for facts in post) and \
        "PRE_ORIGIN" in choices
    ctx.ob("R08.2", COLL, func, qual, "section choice", ok,
           "for origin-spanning collections the gene is filed as crossing, pre- or post-origin by its own location",
           form=str({k: [sorted(f) for f in v] for k, v in choices.items()})[:300])
    qual = "Protocluster.add_cds"
    func = ctx.fn(PROTO, qual)
    cfg = CFG(func)
    gene = func.args.args[1].arg
    adds = [c for c in calls(func) if txt(c.func) == "self._definition_cdses.add"]
    sup = [c for c in calls(func) if txt(c.func) == "super().add_cds"]
    facts = fact_texts(cfg, adds[0]) if adds else set()
    ok = bool(adds) and f"{gene}.is_contained_by(self.core_location)" in facts
    ctx.ob("R08.2", PROTO, func, qual, "defining gene inside the core", ok,
           "a gene becomes a defining gene only if it lies inside the protocluster's core", form=str(sorted(facts))[:200])
    ok = False
    form = ""
    if adds:
        # either `any(core.product == self.product for core in <CORE functions>)` or a loop over them with the test inside
        source = f"{gene}.gene_functions.get_by_function(GeneFunction.CORE)"
        for expr, truth in path_facts(cfg, adds[0]):
            resolved = inline_reaching(cfg, expr, expr)
            if truth and isinstance(resolved, ast.Call) and call_name(resolved) == "any" and resolved.args \
                    and isinstance(resolved.args[0], (ast.GeneratorExp, ast.ListComp)):
                gen = resolved.args[0].generators[0]
                elt = resolved.args[0].elt
                var = txt(gen.target)
                if txt(gen.iter) == source and not gen.ifs and txt(elt) in (f"{var}.product == self.product", f"self.product == {var}.product"):
                    ok = True
                    form = txt(resolved)
            if truth and isinstance(expr, ast.Compare):
                for loop in enclosing_loops(adds[0], stop=func):
                    var = txt(loop.target)
                    if txt(inline_reaching(cfg, loop, loop.iter)) == source and \
                            txt(expr) in (f"{var}.product == self.product", f"self.product == {var}.product"):
                        ok = True
                        form = f"for {var} in {source}: if {txt(expr)}"
    ctx.ob("R08.2", PROTO, func, qual, "defining gene has a core function of this product", ok,
           "and only if it carries a CORE gene function whose product equals the protocluster's product", form=form)
    ok = bool(sup) and bool(adds) and cfg.dominates(cfg.n(sup[0]), cfg.n(adds[0])) and \
        cfg.postdominates(cfg.n(sup[0]), cfg.entry)
    ctx.ob("R08.2", PROTO, func, qual, "membership first", ok,
           "the gene is first added as a member (with the containment refusal of the base class)", form="")


def _anc(node: ast.AST):
    cur = getattr(node, "_parent", None)
    while cur is not None:
        yield cur
        cur = getattr(cur, "_parent", None)


def _resolve_text(cfg: CFG, func: ast.AST, text: str) -> str:
    """ a fact text with its locals resolved (facts are re-parsed; negation prefix kept) """
    from ..flow import inline_reaching
    neg = text.startswith("not ")
    body = text[4:] if neg else text
    try:
        expr = ast.parse(body, mode="eval").body
    except SyntaxError:
        return text
    last = func.body[-1]
    resolved = txt(inline_reaching(cfg, last, expr))
    return ("not " if neg else "") + resolved


def r08_3(ctx: Ctx) -> None:
    from .bisect_lint import scan_bounds
    count = 0
    for qual in ("Record._link_cds_to_parent", "Record.get_cds_features_within_location",
                 "Record.get_cds_features_within_location.find_start_in_list"):
        func = ctx.fn(REC, qual)
        for node, role, kind, ok in scan_bounds(func):
            count += 1
            ctx.ob("R08.3", REC, node, qual, f"{role} bound of {txt(node)[:50]}", ok,
                   "a window over the sorted feature list runs from the lower bisection point to the upper bisection point, so "
                   "features tying with the searched one are inside the window",
                   detail="" if ok else f"the {role} bound derives from bisect_{kind}", form=f"{txt(node)} [{role}: bisect_{kind}]")
    # a window that starts one element before a bisection point must not wrap to the end of the list when that point is 0
    from ..flow import effective_compare, oriented, path_facts
    for qual, func in ctx.repo.functions(REC):
        fcfg = None
        bisected = {t.id for n in walk_local(func) if isinstance(n, ast.Assign) and isinstance(n.value, ast.Call)
                    and call_name(n.value).split(".")[-1].startswith("bisect") for t in n.targets if isinstance(t, ast.Name)}
        for node in walk_local(func):
            if not (isinstance(node, ast.Subscript) and isinstance(node.slice, ast.Slice) and node.slice.lower is not None):
                continue
            lower, clamped = node.slice.lower, False
            if isinstance(lower, ast.Call) and call_name(lower) == "max" and len(lower.args) == 2 \
                    and any(isinstance(a, ast.Constant) and a.value == 0 for a in lower.args):
                lower, clamped = next(a for a in lower.args if not (isinstance(a, ast.Constant) and a.value == 0)), True
            if not (isinstance(lower, ast.BinOp) and isinstance(lower.op, ast.Sub) and isinstance(lower.left, ast.Name)
                    and lower.left.id in bisected and isinstance(lower.right, ast.Constant)):
                continue
            fcfg = fcfg or CFG(func)
            name, back = lower.left.id, lower.right.value
            stmt = next(a for a in _anc(node) if isinstance(a, ast.stmt))
            guarded = clamped
            for e, t in path_facts(fcfg, stmt, fresh_only=True):
                cmp_ = effective_compare(e, t)
                cmp_ = oriented(cmp_, lambda x: txt(x) == name) if cmp_ else None
                if cmp_ is not None and isinstance(cmp_[2], ast.Constant) and isinstance(cmp_[2].value, int) and \
                        (cmp_[1] == ">=" and cmp_[2].value >= back or cmp_[1] == ">" and cmp_[2].value >= back - 1):
                    guarded = True
                if t and txt(e) == name and back == 1:
                    guarded = True
            count += 1
            ctx.ob("R08.3", REC, node, qual, f"window start {txt(lower)} cannot go negative", guarded,
                   "a window starting before a bisection point is clamped at the start of the list: a negative slice start counts "
                   "from the end, so the window would miss the first element(s) exactly when the searched feature sorts first",
                   detail="" if guarded else f"`{txt(node)}`: with {name} == 0 the slice starts at the last element - with three regions and "
                   f"a gene located exactly at the first region, the gene is linked to no region when it is added after the regions",
                   form=txt(node))
    helper = ctx.fn(REC, "Record.get_cds_features_within_location.find_start_in_list")
    hparams = [a.arg for a in helper.args.args]
    starts = [n for n in walk_local(helper) if isinstance(n, ast.Assign) and isinstance(n.value, ast.Call)
              and call_name(n.value).split(".")[-1] == "bisect_left" and n.value.args and txt(n.value.args[0]) == hparams[1]]
    ok = False
    if starts:
        index = txt(starts[0].targets[0])
        from ..flow import inline_reaching as _res
        hcfg = CFG(helper)
        want = (f"{hparams[1]}[{index} - 1].location.start == {hparams[0]}.start",
                f"{hparams[0]}.start == {hparams[1]}[{index} - 1].location.start")
        ok = any(isinstance(n, ast.While) and any(w in txt(_res(hcfg, n, n.test, keep={index})) for w in want)
                 and any(isinstance(b, ast.AugAssign) and txt(b.target) == index and isinstance(b.op, ast.Sub) and txt(b.value) == "1"
                         for b in n.body) for n in walk_local(helper))
    ctx.ob("R08.3", REC, helper, "Record.get_cds_features_within_location.find_start_in_list", "ties at the start included", ok,
           "the lookup starts at the lower bisection point and walks back over genes sharing the query's start", form="")
    if count < 2:
        raise AnalysisError(f"record.py: expected at least 2 bisection-bounded windows, found {count}")


def r08_6(ctx: Ctx) -> None:
    """ early exits of the lookup over the start-sorted gene list: stopping is sound only on a quantity that bounds the
        sort key - `gene.start >= query.end` going forward, `gene.start <= query.start - (longest gene)` going back.
        Stopping on 'this gene does not match' is a heuristic: a non-matching gene can stand between the current position
        and a gene that does match (nested and overrunning genes; a long gene starting before a short one) """
    from ..flow import path_facts
    qual = "Record.get_cds_features_within_location"
    func = ctx.fn(REC, qual)
    cfg = CFG(func)
    scans = [n for n in walk_local(func) if isinstance(n, (ast.While, ast.For)) and any(isinstance(b, ast.Break) for b in walk_local(n))]
    count = 0
    for loop in scans:
        for brk in [b for b in walk_local(loop) if isinstance(b, ast.Break)]:
            count += 1
            facts = [(e, t) for e, t in path_facts(cfg, brk) if any(a is loop for a in _anc(e))]
            bound = [e for e, t in facts if isinstance(e, ast.Compare) and ".start" in txt(e) and ".end" in txt(e)
                     and not any(isinstance(x, ast.Call) for x in ast.walk(e))]
            ctx.ob("R08.6", REC, brk, qual, "forward scan stops", bool(bound),
                   "the scan over the start-sorted genes ends only at a gene that starts beyond the end of the query",
                   detail="" if bound else "ends at the first gene that is neither a result nor followed by a gene nested in it: with "
                   "genes [6:10) [6:23) [6:26) [8:19) the query [5:20) returns [6:10) only and misses [8:19)",
                   form=" and ".join(("" if t else "not ") + txt(e)[:60] for e, t in facts)[:200])
    helper = ctx.fn(REC, qual + ".find_start_in_list")
    backs = [n for n in walk_local(helper) if isinstance(n, ast.While) and "overlaps_with" in txt(n.test)]
    bounded = [n for n in walk_local(helper) if isinstance(n, ast.While) and "overlaps_with" not in txt(n.test)
               and any(isinstance(x, ast.Compare) and ".start" in txt(x) for x in ast.walk(n.test)) and "longest" in txt(n.test) + txt(helper)]
    for loop in backs:
        count += 1
        ctx.ob("R08.6", REC, loop, qual + ".find_start_in_list", "backward walk stops", False,
               "the walk back to the first gene that may overlap the query ends only where no earlier gene can reach it",
               detail="ends at the first gene that does not overlap: with genes [0:500) [100:150) the overlapping query [300:400) "
               "returns nothing (the short gene hides the long one); a gene spanning the origin is never reached from far away",
               form=txt(loop.test)[:120])
    for loop in bounded:
        count += 1
        ctx.ob("R08.6", REC, loop, qual + ".find_start_in_list", "backward walk stops", True,
               "the walk back is bounded by the length of the longest gene", form=txt(loop.test)[:120])
    if count < 2:
        raise AnalysisError(f"{qual}: the scan loops of the lookup were not found")


def r08_5(ctx: Ctx) -> None:
    """ a bisection window over the record's sorted list of regions: a region that spans the origin sorts first (its
        comparison key is negative), but the genes of its pre-origin part sort after every other region - the window
        around the gene's bisection point never reaches it.  The code base's idiom for this is `lst[i:] + lst[:1]`
        (formation._find_neighbouring); a window without the first element loses those genes. """
    from .bisect_lint import scan_bounds
    from ..flow import inline_reaching
    lists = collection_lists(ctx)
    qual = "Record._link_cds_to_parent"
    func = ctx.fn(REC, qual)
    cfg = CFG(func)
    count = 0
    for loop in [n for n in walk_local(func) if isinstance(n, ast.For)]:
        source = inline_reaching(cfg, loop, loop.iter)
        loop_iter_name = loop.iter
        for _ in range(4):
            if isinstance(source, ast.Name):
                values = bound_from(func, source.id)
                if len(values) != 1:
                    break
                source = values[0]
            elif isinstance(source, (ast.ListComp, ast.GeneratorExp)) and len(source.generators) == 1 \
                    and txt(source.elt) == txt(source.generators[0].target):
                # a filtering comprehension offers the elements of what it walks
                source = source.generators[0].iter
                if isinstance(source, ast.Name):
                    loop_iter_name = source
            else:
                break
        # plain aliases of the record's lists (`regions = self._regions`) are read through
        from ..loopview import resolve_alias as _alias
        aliases = {}
        for name_node in [x for x in ast.walk(func) if isinstance(x, ast.Name)]:
            target = _alias(func, name_node)
            if target is not name_node and dotted(target) and dotted(target).startswith("self.") and dotted(target)[5:] in lists:
                aliases[name_node.id] = dotted(target)

        def _unalias(expr: ast.AST) -> ast.AST:
            class _U(ast.NodeTransformer):
                def visit_Name(self, node: ast.Name) -> ast.AST:  # noqa: N802
                    if node.id in aliases and isinstance(node.ctx, ast.Load):
                        return ast.copy_location(ast.parse(aliases[node.id], mode="eval").body, node)
                    return node
            from ..astutil import clone as _clone
            return _U().visit(_clone(expr))
        source = _unalias(source)
        windows = [n for n in ast.walk(source) if isinstance(n, ast.Subscript) and isinstance(n.slice, ast.Slice)
                   and dotted(n.value) and dotted(n.value).startswith("self.") and dotted(n.value)[5:] in lists
                   and (n.slice.lower is not None or n.slice.upper is not None)]
        bounded = [w for w in windows if any(node is w or txt(node) == txt(w) or txt(_unalias(node)) == txt(w)
                                             for node, _, _, _ in scan_bounds(func))
                   or "bisect" in txt(inline_reaching(cfg, loop, w))]
        for window in bounded:
            lst = dotted(window.value)
            if lists[lst[5:]] != "Region":
                continue
            count += 1
            text = txt(source)
            # the iterated list itself may be completed by statements before the loop (append / insert of lst[0])
            extra = ""
            if isinstance(loop_iter_name, ast.Name):
                for call in calls(func):
                    if isinstance(call.func, ast.Attribute) and txt(call.func.value) == loop_iter_name.id \
                            and call.func.attr in ("append", "insert", "extend") and cfg.dominates(cfg.n(call), cfg.n(loop)) is not None \
                            and cfg.exists_path(cfg.n(call), cfg.n(loop)):
                        extra += " " + txt(call)
            resolved_extra = extra
            for call in calls(func):
                if isinstance(call.func, ast.Attribute) and isinstance(loop_iter_name, ast.Name) and txt(call.func.value) == loop_iter_name.id \
                        and call.func.attr in ("append", "insert", "extend") and call.args:
                    resolved_extra += " " + txt(_unalias(inline_reaching(cfg, call, call.args[-1])))
            first_included = any(f"{lst}{idx}" in text + extra + resolved_extra for idx in ("[:1]", "[0]", "[0:1]"))
            ctx.ob("R08.5", REC, loop, qual, f"window over {lst}", first_included,
                   "the window over the sorted regions around the gene's bisection point also offers the gene to the first "
                   "region (a region spanning the origin sorts first whatever the position of the genes in its pre-origin part)",
                   detail="" if first_included else "a gene in the pre-origin part of an origin-spanning region, added after the "
                                                     "regions, is never offered to that region when other regions exist",
                   form=(text + extra)[:160])
    if count < 1:
        raise AnalysisError(f"{qual}: the bisection window over the regions was not found")


def r08_4(ctx: Ctx) -> None:
    """ the look-ahead of the gene lookup: a gene that starts inside the query but runs past its end may hide genes
        nested inside *it* that do lie within the query; the scan goes on while the next gene is nested in the current one """
    from ..flow import inline_reaching
    qual = "Record.get_cds_features_within_location"
    func = ctx.fn(REC, qual)
    cfg = CFG(func)
    count = 0
    for call in calls(func):
        if last_attr(call) != "is_contained_by" or not isinstance(call.func, ast.Attribute) or len(call.args) != 1:
            continue
        recv = call.func.value
        if not (isinstance(recv, ast.Subscript) and isinstance(recv.slice, ast.BinOp) and isinstance(recv.slice.op, ast.Add)
                and isinstance(recv.slice.right, ast.Constant) and recv.slice.right.value == 1):
            continue
        count += 1
        lst, index = txt(recv.value), txt(recv.slice.left)
        current = txt(inline_reaching(cfg, call, ast.parse(f"{lst}[{index}]", mode="eval").body))
        arg = txt(inline_reaching(cfg, call, call.args[0]))
        ctx.ob("R08.4", REC, call, qual, f"look-ahead {txt(call)[:60]}", arg == current,
               "the scan continues past a gene that is not itself a result only while the next gene is nested in that gene "
               "(nesting in the query is a different condition: with two levels of overrunning genes the scan would stop "
               "before reaching an inner gene that lies within the query)",
               detail="" if arg == current else f"next gene tested against `{arg}` instead of the current gene `{current}`",
               form=f"{txt(recv)} nested in {arg}")
    if count < 1:
        raise AnalysisError(f"{qual}: the nested-gene look-ahead was not found")


def r08_7(ctx: Ctx) -> None:
    """ the multi-part branch of the lookup honours `with_overlapping`: genes gathered per part (overlapping each part) are
        filtered down to the contained ones only when overlaps were not asked for """
    from ..flow import path_facts
    qual = "Record.get_cds_features_within_location"
    func = ctx.fn(REC, qual)
    cfg = CFG(func)
    flag = func.args.args[2].arg if len(func.args.args) > 2 else "with_overlapping"
    loc = func.args.args[1].arg
    from ..flow import effective_compare, oriented

    def several_parts(expr: ast.AST, truth: bool) -> bool:
        cmp_ = effective_compare(expr, truth)
        cmp_ = oriented(cmp_, lambda e: txt(e) == f"len({loc}.parts)") if cmp_ else None
        return cmp_ is not None and (cmp_[1], txt(cmp_[2])) in ((">", "1"), (">=", "2"), ("!=", "1"))
    multi = [r for r in walk_local(func) if isinstance(r, ast.Return) and r.value is not None
             and any(several_parts(e, t) for e, t in path_facts(cfg, r))]
    if not multi:
        raise AnalysisError(f"{qual}: no return under a test on the number of parts of the location")
    for index, ret in enumerate(multi):
        facts = {(txt(e), t) for e, t in path_facts(cfg, ret)}
        narrowed = any(isinstance(c, ast.Call) and last_attr(c) == "is_contained_by" and c.args and txt(c.args[0]) == loc
                       for c in ast.walk(ret.value))
        if narrowed:
            ok = (flag, False) in facts
            why = "keeps only contained genes" + ("" if ok else f" although `{flag}` may be set")
        else:
            ok = (flag, True) in facts
            why = "all genes overlapping a part" + ("" if ok else f" although `{flag}` may be unset")
        ctx.ob("R08.7", REC, ret, qual, f"multi-part result#{index}", ok,
               "for a location of several parts (an origin-spanning one) the genes overlapping any part are returned when overlaps "
               "are asked for, and only the contained ones otherwise",
               detail="" if ok else f"with genes c [900:960) d [940:990) x join{{[970:1000),[0:30)}} a [10:40) b [50:110) on a ring of 1000 the "
               f"overlapping query join{{[950:1000),[0:60)}} must return c d x a b", form=why)
    per_part = [c for c in calls(func) if last_attr(c) == "get_cds_features_within_location" and kwarg(c, "with_overlapping") is not None]
    ok = bool(per_part) and all(txt(kwarg(c, "with_overlapping")) == "True" for c in per_part)
    ctx.ob("R08.7", REC, per_part[0] if per_part else func, qual, "per-part lookups gather overlaps", ok,
           "each part is searched with overlaps included (a gene may be contained in the location without being contained in one part)",
           form="; ".join(txt(c)[:70] for c in per_part))


def run(ctx: Ctx) -> None:
    ctx.rule("R08.7", "the multi-part lookup honours with_overlapping", floor=2)
    r08_7(ctx)
    ctx.rule("R08.4", "the lookup's look-ahead follows nesting in the current gene", floor=1)
    ctx.rule("R08.1", "gene-after-area and area-after-gene linking visit the same collections, on every path", floor=14)
    ctx.rule("R08.2", "add_cds refuses, forwards to children, and records defining genes under core and product", floor=6)
    r08_1(ctx)
    r08_2(ctx)
    ctx.rule("R08.3", "bisection windows over the sorted gene/region lists include ties", floor=3)
    r08_3(ctx)
    r08_4(ctx)
    ctx.rule("R08.5", "bisection windows over the sorted regions also reach an origin-spanning first region", floor=1)
    r08_5(ctx)
    ctx.rule("R08.6", "the gene lookup stops scanning only on a bound of the sort key", floor=2)
    r08_6(ctx)
