""" Family E: unordered-iteration exposure.

    Sources: expressions whose (mypy) type is a set / frozenset, or that are
    syntactically sets where mypy has no type.  An *instance* is a consumer
    that turns the set's iteration order into an ordered value.  Automatically
    safe consumers are recorded as discharged obligations; everything else must
    be in the reviewed table below (safe, with a reason) or in the known
    findings file, else it is a violation.
"""

from __future__ import annotations

import ast
import re
from typing import Dict, Iterator, List, Optional, Set, Tuple

from ..astutil import call_name, calls, enclosing_function, guards, kwarg, last_attr, stmt_key, txt, walk_local
from ..flow import MUTATORS, bound_from
from ..index import AnalysisError, _walk_functions, dotted
from ..report import Ctx
from .. import typedb

SET_PREFIXES = ("builtins.set[", "builtins.frozenset[", "typing.AbstractSet[", "typing.Set[", "typing.FrozenSet[",
                "typing.MutableSet[", "builtins.set", "builtins.frozenset")
TOTAL_SCALARS = {"builtins.str", "builtins.int", "builtins.float", "builtins.bool", "builtins.bytes"}
SET_RETURNING_METHODS = {"union", "intersection", "difference", "symmetric_difference", "copy"}
ORDER_INSENSITIVE_CALLS = {"set", "frozenset", "len", "any", "all", "sum", "bool", "isinstance", "Counter", "id",
                           "collections.Counter"}
COMMUTATIVE_SET_METHODS = {"add", "update", "discard", "difference_update", "intersection_update"}

# ---- reviewed instances: (file, function, consumer text) -> reason it cannot change an ordered result
SAFE: Dict[Tuple[str, str, str], str] = {}


_ALPHA_CACHE: Dict[str, str] = {}


def alpha(text: str) -> str:
    """ consumer text with every variable name replaced by a positional placeholder (attribute names, called
        functions, keyword names and constants kept): a reviewed site keeps its entry when locals are renamed """
    if text in _ALPHA_CACHE:
        return _ALPHA_CACHE[text]
    source = text + ": pass" if text.startswith("for ") and not text.rstrip().endswith(":") else text
    try:
        tree = ast.parse(source)
    except SyntaxError:
        _ALPHA_CACHE[text] = text
        return text
    called = {id(n.func) for n in ast.walk(tree) if isinstance(n, ast.Call)}
    order: Dict[str, str] = {}
    for node in ast.walk(tree):
        pass
    names = [n for n in ast.walk(tree) if isinstance(n, ast.Name) and id(n) not in called]
    names.sort(key=lambda n: (n.lineno, n.col_offset))
    for node in names:
        order.setdefault(node.id, f"_{len(order) + 1}")
    for node in names:
        node.id = order[node.id]
    result = ast.unparse(tree)
    _ALPHA_CACHE[text] = result
    return result


def safe(rel: str, qual: str, text: str, reason: str) -> None:
    SAFE[(rel, qual, text)] = reason


HRP = "antismash/common/hmm_rule_parser/"
SEC = "antismash/common/secmet/"
safe(HRP + "rule_parser.py", "Parser._parse_rule", "', '.join(self.valid_categories)",
     "text of an exception message only; never part of results")
safe(HRP + "cluster_prediction.py", "filter_result_multiple", "sorted(best_hits)",
     "tuples lead with the enumerate index, unique per gene: total order")
safe(HRP + "cluster_prediction.py", "find_protoclusters", "sorted((record.get_cds_by_name(cds) for cds in cds_names))",
     "ties in Feature.__lt__ have identical (start, length); the chain built from the sorted genes depends on "
     "coordinates only, and gene coordinates are unique per record (add_cds_feature rejects equal locations)")
safe(HRP + "cluster_prediction.py", "get_equivalence_groups_from_file", "raise ValueError(f'Equivalence group contains unknown identifiers: {unknown}')",
     "text of an exception message only")
safe(HRP + "cluster_prediction.py", "Ruleset.__post_init__", "raise ValueError(f'rule names must be unique: {duplicated}')",
     "text of an exception message only")
safe(HRP + "cluster_prediction.py", "Ruleset.__post_init__", "raise ValueError(f'HMM profiles and dynamic profiles overlap: {overlaps}')",
     "text of an exception message only")
safe("antismash/detection/hmm_detection/__init__.py", "get_ruleset", "tuple(name_subset)",
     "cache key only: a different order misses the cache and rebuilds an equal ruleset")
safe("antismash/detection/hmm_detection/__init__.py", "get_ruleset", "tuple(category_subset)",
     "cache key only: a different order misses the cache and rebuilds an equal ruleset")
safe(SEC + "features/cds_feature.py", "_sanitise_id_value", "for char in set(name).intersection(illegal_chars)",
     "replacements of distinct single characters by the same filler commute")
safe(SEC + "features/region/structures.py", "Region.get_unique_protoclusters", "sorted(clusters, key=reduction)",
     "the key ends with the product, and two protoclusters of one product with identical coordinates do not exist "
     "(same-product protoclusters whose cores are within the cutoff are merged), so the key is total on the set")
safe("antismash/detection/hmm_detection/__init__.py", "check_options",
     "issues.append(f'Unknown rules in requested rule subset: {unknown}')", "text of an option-validation error message only")
safe("antismash/detection/hmm_detection/__init__.py", "check_options",
     "issues.append(f'Unknown rules in requested rule category subset: {unknown}')",
     "text of an option-validation error message only")
safe(SEC + "features/cds_feature.py", "_sanitise_id_value", "for char in illegal_chars",
     "replacements of distinct single characters by the same filler commute")
safe("antismash/common/hmmer.py", "remove_overlapping", "sorted(group, key=ranking_stats)",
     "key = (normalised score, 1/length, start, identifier...): equal keys mean interchangeable hits")


FORM = SEC + "features/candidate_cluster/formation.py"
safe(FORM, "create_candidates_from_protoclusters", "unassigned.extend(singles)",
     "the extended list is consumed only through sorted(set(unassigned)) on the next line (total order on protoclusters)")
safe(FORM, "_find_hybrids", "sorted(unassigned, key=lambda x: x.core_location.start)",
     "ties (equal core starts) only permute candidates for containment; every protocluster is tested against the "
     "group's core independently, group members are re-sorted with the total protocluster order before being returned, "
     "and the early break depends on location.start <= core start of all tied elements alike")


MOD = "antismash/modules/"
safe("antismash/detection/cassis/__init__.py", "cleanup_outdir", "for directory in unused_motifs",
     "removes one directory per element: deletions of distinct directories commute")
safe("antismash/detection/genefunctions/__init__.py", "generate_html", "sorted(entries)",
     "TailoringEntry is an order=True dataclass whose first field is its name, unique within a group: the order is total")
safe(MOD + "cluster_compare/components.py", "compare_combos", "for combo in ref_combos.intersection(query_combos)",
     "integer accumulation (found += min(...)): addition commutes")
safe(MOD + "clusterblast/svg_builder.py", "sort_groups", "for group in groups",
     "the groups are disjoint, so for each query id at most one group matches and the inner scan's order cannot matter")
safe(MOD + "clusterblast/svg_builder.py", "build_colour_groups", "tuple(group)",
     "merged groups share one set object and each tuple's members are re-sorted before use (`for name in sorted(group)`)")
for _mod in ("lanthipeptides", "lassopeptides", "sactipeptides"):
    _cls = {"lanthipeptides": "LanthiResults", "lassopeptides": "LassoResults", "sactipeptides": "SactiResults"}[_mod]
    safe(MOD + f"{_mod}/specific_analysis.py", f"{_cls}.add_to_record", "for feature in self._new_cds_features",
         "each gene is inserted into the record's sorted gene list at its bisection point (equal locations are refused), so "
         "the resulting record does not depend on insertion order")
safe(MOD + "t2pks/t2pks_analysis.py", "run_starter_unit_blastp", "for fasta_file in blastp_fasta_files",
     "keyed dict update: sequence names are unique across the starter unit fasta files")
safe(MOD + "nrps_pks/html_output.py", "NrpspksLayer._build_urls", "list(per_a_domain_predictions)",
     "reaches only the query string of a Norine link in the HTML page; C17 covers results, JSON and GenBank output")
safe("antismash/outputs/html/js.py", "convert_regions", "list(region.product_categories)",
     "reaches only the JavaScript data of the HTML page; C17 covers results, JSON and GenBank output")
safe("antismash/outputs/html/js.py", "get_region_css", "list(region.product_categories)",
     "indexed [0] after the function returned early for more than one category: singleton")


def is_set_type(text: Optional[str]) -> bool:
    if not text:
        return False
    if text.startswith("Union["):
        inner = text[len("Union["):-1]
        return any(is_set_type(part.strip()) for part in _split_top(inner))
    return text.startswith(SET_PREFIXES)


def _split_top(text: str) -> List[str]:
    parts, depth, cur = [], 0, ""
    for char in text:
        if char == "[":
            depth += 1
        elif char == "]":
            depth -= 1
        if char == "," and depth == 0:
            parts.append(cur)
            cur = ""
        else:
            cur += char
    if cur.strip():
        parts.append(cur)
    return parts


def element_type(text: Optional[str]) -> str:
    if not text or "[" not in text:
        return "?"
    if text.startswith("Union["):
        for part in _split_top(text[len("Union["):-1]):
            if is_set_type(part.strip()):
                return element_type(part.strip())
    return text[text.index("[") + 1:-1]


TOTAL_CLASSES: Set[str] = set()   # filled per run by Scanner from the repository's own __lt__ definitions


def totally_ordered(elem: str) -> bool:
    elem = elem.strip()
    if elem in TOTAL_SCALARS or elem in TOTAL_CLASSES:
        return True
    if elem.startswith("Tuple["):
        return all(totally_ordered(p) for p in _split_top(elem[len("Tuple["):-1]))
    return False


class Scanner:
    def __init__(self, ctx: Ctx, rule: str) -> None:
        self.ctx = ctx
        self.rule = rule
        self.db = typedb.load(ctx.repo)
        self.instances = 0
        TOTAL_CLASSES.clear()
        TOTAL_CLASSES.update(self._total_classes())

    def _total_classes(self) -> Set[str]:
        """ classes whose own __lt__ breaks coordinate ties by an identity attribute:
            `if isinstance(other, C) and self.location == other.location: return (self.product, ...) < (...)` """
        result: Set[str] = set()
        repo = self.ctx.repo
        for infos in repo.classes.values():
            for info in infos:
                for owner in repo.mro(info):
                    lt = next((n for n in owner.node.body if isinstance(n, ast.FunctionDef) and n.name == "__lt__"), None)
                    if lt is None:
                        continue
                    total = False
                    from ..cfg import CFG as _CFG
                    from ..flow import facts_nnf, inline_reaching, nnf_literals, path_facts
                    lcfg = _CFG(lt)
                    for ret in [n for n in walk_local(lt) if isinstance(n, ast.Return) and n.value is not None]:
                        value = inline_reaching(lcfg, ret, ret.value)
                        if not (isinstance(value, ast.Compare) and len(value.ops) == 1 and isinstance(value.ops[0], (ast.Lt, ast.Gt))):
                            continue
                        left, right = txt(value.left), txt(value.comparators[0])
                        if isinstance(value.ops[0], ast.Gt):
                            left, right = right, left
                        if not ("self.product" in left and "other.product" in right and "core_location" in left):
                            continue
                        lits = nnf_literals(facts_nnf(path_facts(lcfg, ret)))
                        if (f"isinstance(other, {owner.name})", True) in lits and \
                                (("self.location == other.location", True) in lits or ("other.location == self.location", True) in lits):
                            total = True
                    if total:
                        result.add(info.qual)
                    break   # only the first __lt__ in the MRO is the one in force
        return result

    # ----------------------------------------------------------- set detection
    def is_set(self, rel: str, func: Optional[ast.AST], expr: ast.AST, depth: int = 0) -> bool:
        typ = self.db.type_at(rel, expr) if hasattr(expr, "lineno") else None
        if typ is not None:
            return is_set_type(typ)
        if isinstance(expr, (ast.Set, ast.SetComp)):
            return True
        if isinstance(expr, ast.Call):
            name = call_name(expr)
            if name in ("set", "frozenset"):
                return True
            if isinstance(expr.func, ast.Attribute) and expr.func.attr in SET_RETURNING_METHODS \
                    and self.is_set(rel, func, expr.func.value, depth + 1):
                return True
        if isinstance(expr, ast.BinOp) and isinstance(expr.op, (ast.BitOr, ast.BitAnd, ast.Sub, ast.BitXor)):
            return self.is_set(rel, func, expr.left, depth + 1) or self.is_set(rel, func, expr.right, depth + 1)
        if isinstance(expr, ast.Name) and func is not None and depth < 3:
            vals = bound_from(func, expr.id)
            return bool(vals) and all(self.is_set(rel, func, v, depth + 1) for v in vals)
        return False

    def set_elem(self, rel: str, expr: ast.AST) -> str:
        return element_type(self.db.type_at(rel, expr))

    # ------------------------------------------------------------- reporting
    def hold(self, rel: str, node: ast.AST, qual: str, text: str, why: str) -> None:
        self.ctx.ob(self.rule, rel, node, qual, text, True, "iteration order of a set does not reach an ordered result",
                    form=why)

    def flag(self, rel: str, node: ast.AST, qual: str, text: str, what: str, elem: str) -> None:
        self.instances += 1
        reason = SAFE.get((rel, qual, text))
        if reason is None:
            wanted = alpha(text)
            for (srel, squal, stext), sreason in SAFE.items():
                if srel == rel and squal == qual and alpha(stext) == wanted:
                    reason = sreason
                    break
        if reason is not None:
            self.ctx.ob(self.rule, rel, node, qual, text, True,
                        "reviewed: a set's iteration order reaches this consumer but cannot change a result",
                        form=f"{what}; element type {elem}; safe because: {reason}")
        else:
            self.ctx.ob(self.rule, rel, node, qual, text, False,
                        f"a set's iteration order (element type {elem}) reaches an ordered consumer: {what}",
                        detail="the order of a set of strings depends on PYTHONHASHSEED, of objects on their addresses; "
                               "ties under the applied order keep set order",
                        form=text)

    # -------------------------------------------------------------- loop body
    def commutative_body(self, rel: str, func: Optional[ast.AST], body: List[ast.stmt], loopvars: Set[str]) -> Optional[str]:
        """ None if every statement's effect is independent of iteration order, else the offending statement text """
        for stmt in body:
            bad = self._commutative_stmt(rel, func, stmt, loopvars)
            if bad is not None:
                return bad
        return None

    def _commutative_stmt(self, rel: str, func: Optional[ast.AST], stmt: ast.stmt, loopvars: Set[str]) -> Optional[str]:
        if isinstance(stmt, (ast.Pass, ast.Continue, ast.Assert)):
            return None
        if isinstance(stmt, ast.Raise):
            return None   # which element raises first only changes an error message
        if isinstance(stmt, ast.Expr):
            val = stmt.value
            if isinstance(val, ast.Constant):
                return None
            if isinstance(val, ast.Call) and isinstance(val.func, ast.Attribute):
                recv, meth = val.func.value, val.func.attr
                if meth in COMMUTATIVE_SET_METHODS and (self.is_set(rel, func, recv) or isinstance(recv, ast.Subscript)):
                    if meth == "add" or self.is_set(rel, func, recv) or self._keyed_set(rel, func, recv):
                        return None
                root = recv
                while isinstance(root, (ast.Attribute, ast.Subscript, ast.Call)):
                    root = root.func if isinstance(root, ast.Call) else root.value
                if isinstance(root, ast.Name) and root.id in loopvars and meth not in ("append", "extend", "insert"):
                    return None  # effect on the element itself
                if meth in ("pop", "discard", "remove") and val.args and \
                        {n.id for n in ast.walk(val.args[0]) if isinstance(n, ast.Name)} & loopvars:
                    return None  # keyed removal by the loop variable
                if dotted(val.func) and dotted(val.func).startswith("logging."):
                    return None
            return txt(stmt)[:100]
        if isinstance(stmt, ast.Assign):
            ok = True
            for target in stmt.targets:
                if isinstance(target, ast.Subscript):
                    key_names = {n.id for n in ast.walk(target.slice) if isinstance(n, ast.Name)}
                    if not key_names & loopvars:
                        ok = False
                elif isinstance(target, ast.Attribute):
                    root = target.value
                    while isinstance(root, (ast.Attribute, ast.Subscript)):
                        root = root.value
                    if not (isinstance(root, ast.Name) and root.id in loopvars):
                        ok = False
                elif isinstance(target, ast.Name):
                    # a local temporary that is a function of the element only
                    used = {n.id for n in ast.walk(stmt.value) if isinstance(n, ast.Name)}
                    if target.id in used:
                        # accumulation: allow boolean or/and
                        if not (isinstance(stmt.value, ast.BoolOp)):
                            ok = False
                    else:
                        loopvars.add(target.id)
                else:
                    ok = False
            return None if ok else txt(stmt)[:100]
        if isinstance(stmt, ast.AnnAssign):
            if isinstance(stmt.target, ast.Name):
                loopvars.add(stmt.target.id)
                return None
            return txt(stmt)[:100]
        if isinstance(stmt, ast.AugAssign):
            if isinstance(stmt.op, (ast.BitOr, ast.BitAnd)):
                return None
            if isinstance(stmt.op, (ast.Add, ast.Sub, ast.Mult)):
                typ = self.db.type_at(rel, stmt.target) if hasattr(stmt.target, "lineno") else None
                if typ in ("builtins.int", "builtins.float", "builtins.bool") or \
                        (isinstance(stmt.value, ast.Constant) and isinstance(stmt.value.value, (int, float))) or \
                        (isinstance(stmt.value, ast.Call) and call_name(stmt.value) == "len"):
                    return None
            return txt(stmt)[:100]
        if isinstance(stmt, ast.If):
            for branch in (stmt.body, stmt.orelse):
                bad = self.commutative_body(rel, func, branch, loopvars)
                if bad is not None:
                    return bad
            return None
        if isinstance(stmt, ast.For):
            inner_vars = set(loopvars) | {n.id for n in ast.walk(stmt.target) if isinstance(n, ast.Name)}
            return self.commutative_body(rel, func, stmt.body + stmt.orelse, inner_vars)
        if isinstance(stmt, ast.Delete):
            ok = all(isinstance(t, ast.Subscript) and {n.id for n in ast.walk(t.slice) if isinstance(n, ast.Name)} & loopvars
                     for t in stmt.targets)
            return None if ok else txt(stmt)[:100]
        if isinstance(stmt, ast.Return) and (stmt.value is None or isinstance(stmt.value, ast.Constant)):
            return None   # existence search: the same constant whichever element matches first
        if isinstance(stmt, (ast.Break, ast.Return)):
            return txt(stmt)[:100] + " (first match wins)"
        return txt(stmt)[:100]

    def _keyed_set(self, rel: str, func: Optional[ast.AST], recv: ast.AST) -> bool:
        return isinstance(recv, ast.Subscript)

    # ------------------------------------------------------------ consumers
    def wrapped_safely(self, rel: str, func: Optional[ast.AST], node: ast.AST) -> Optional[str]:
        """ is the (ordered) value produced at `node` consumed directly by something order-insensitive? """
        par = getattr(node, "_parent", None)
        if isinstance(par, ast.Call) and node in par.args:
            name = call_name(par)
            if name in ORDER_INSENSITIVE_CALLS:
                return f"consumed by {name}(...)"
            if name in ("min", "max") and kwarg(par, "key") is None:
                return f"consumed by {name}() without key"
            if name == "sorted":
                key = kwarg(par, "key")
                if key is None:
                    return "re-sorted"   # judged at the sorted() site itself
                return None
            if isinstance(par.func, ast.Attribute) and par.func.attr in (COMMUTATIVE_SET_METHODS | {
                    "issubset", "issuperset", "isdisjoint", "union", "intersection", "difference", "symmetric_difference"}):
                return f"consumed by .{par.func.attr}(...)"
        if isinstance(par, ast.Compare) and any(isinstance(op, (ast.In, ast.NotIn)) for op in par.ops):
            return "membership test"
        if isinstance(par, ast.Starred):
            return None
        return None

    def scan_function(self, rel: str, qual: str, func: ast.AST) -> None:
        for node in walk_local(func):
            # (a) for loops
            if isinstance(node, ast.For) and self.is_set(rel, func, node.iter):
                loopvars = {n.id for n in ast.walk(node.target) if isinstance(n, ast.Name)}
                text = f"for {txt(node.target)} in {txt(node.iter)}"
                singleton = self._singleton(rel, node.iter)
                if singleton:
                    self.hold(rel, node, qual, text, "auto-safe: constant singleton set")
                    continue
                bad = self.commutative_body(rel, func, node.body + node.orelse, set(loopvars))
                if bad is None:
                    self.hold(rel, node, qual, text, "auto-safe: loop body is commutative (set/keyed/per-element effects only)")
                else:
                    self.flag(rel, node, qual, text, f"loop body is order-sensitive at `{bad}`", self.set_elem(rel, node.iter))
            # (b) comprehensions
            elif isinstance(node, (ast.ListComp, ast.GeneratorExp, ast.DictComp, ast.SetComp)):
                for gen in node.generators:
                    if not self.is_set(rel, func, gen.iter):
                        continue
                    text = txt(node)[:140]
                    if isinstance(node, ast.SetComp):
                        self.hold(rel, node, qual, text, "auto-safe: result is itself a set")
                        continue
                    why = self.wrapped_safely(rel, func, node)
                    if why:
                        self.hold(rel, node, qual, text, f"auto-safe: {why}")
                        continue
                    if isinstance(node, ast.DictComp):
                        self.hold(rel, node, qual, text, "auto-safe: keyed store (dict content independent of order)")
                        continue
                    par = getattr(node, "_parent", None)
                    if isinstance(par, ast.Call) and call_name(par) == "sorted":
                        continue   # judged at the sorted site
                    self.flag(rel, node, qual, text, "comprehension over a set yields an ordered sequence",
                              self.set_elem(rel, gen.iter))
            # (c) calls
            elif isinstance(node, ast.Call):
                self._scan_call(rel, qual, func, node)
            elif isinstance(node, ast.JoinedStr):
                for val in node.values:
                    if isinstance(val, ast.FormattedValue) and self.is_set(rel, func, val.value):
                        stmt = node
                        while not isinstance(stmt, ast.stmt):
                            stmt = getattr(stmt, "_parent")
                        if isinstance(stmt, (ast.Raise, ast.Assert)) or "logging." in txt(stmt):
                            self.hold(rel, node, qual, stmt_key(stmt), "auto-safe: text of a log/exception message")
                        else:
                            self.flag(rel, node, qual, stmt_key(stmt), "a set is formatted into a string",
                                      self.set_elem(rel, val.value))
            elif isinstance(node, ast.Starred) and self.is_set(rel, func, node.value):
                self.flag(rel, node, qual, txt(getattr(node, "_parent", node))[:120], "a set is unpacked positionally",
                          self.set_elem(rel, node.value))

    def _identity_attrs(self, elem: str) -> Set[str]:
        """ attributes hashed by the element class's __hash__ (= its identity for set membership) """
        name = elem.strip().split(".")[-1]
        for info in self.ctx.repo.classes.get(name, []):
            if info.qual != elem.strip():
                continue
            found = self.ctx.repo.method(info, "__hash__")
            if not found:
                return set()
            attrs = set()
            for ret in [r for r in walk_local(found[1]) if isinstance(r, ast.Return)]:
                for node in ast.walk(ret.value):
                    if isinstance(node, ast.Attribute) and isinstance(node.value, ast.Name) and node.value.id == "self":
                        attrs.add(node.attr.lstrip("_"))
            return attrs
        return set()

    def _key_attrs(self, rel: str, func: Optional[ast.AST], key: ast.AST) -> Optional[Set[str]]:
        """ attributes of the element that the sort key is built from: a lambda, or a named key function (nested in the
            caller or at module level) whose returned expressions are examined with its locals resolved """
        if isinstance(key, ast.Lambda) and len(key.args.args) == 1:
            param = key.args.args[0].arg
            return {n.attr for n in ast.walk(key.body) if isinstance(n, ast.Attribute)
                    and isinstance(n.value, ast.Name) and n.value.id == param}
        if isinstance(key, ast.Name):
            target = None
            if func is not None:
                for node in ast.walk(func):
                    if isinstance(node, ast.FunctionDef) and node.name == key.id and node is not func:
                        target = node
            if target is None:
                for qual, node in self.ctx.repo.functions(rel):
                    if qual == key.id:
                        target = node
            if target is None or len(target.args.args) != 1:
                return None
            from ..cfg import CFG
            from ..flow import inline_reaching
            param = target.args.args[0].arg
            cfg = CFG(target)
            used: Optional[Set[str]] = None
            for ret in [n for n in walk_local(target) if isinstance(n, ast.Return) and n.value is not None]:
                resolved = inline_reaching(cfg, ret, ret.value)
                attrs = {n.attr for n in ast.walk(resolved) if isinstance(n, ast.Attribute)
                         and isinstance(n.value, ast.Name) and n.value.id == param}
                used = attrs if used is None else used & attrs
            return used
        return None

    def _singleton(self, rel: str, expr: ast.AST) -> bool:
        module = self.ctx.repo.modules[rel]
        from ..index import UNRESOLVED
        val = self.ctx.repo.const(module, expr)
        return val is not UNRESOLVED and isinstance(val, (frozenset, set)) and len(val) <= 1

    def _scan_call(self, rel: str, qual: str, func: ast.AST, call: ast.Call) -> None:
        name = call_name(call)
        args = list(call.args)
        text = txt(call)[:140]
        set_args = [a for a in args if not isinstance(a, ast.Starred) and self.is_set(rel, func, a)]
        if name == "sorted" and args:
            src = args[0]
            # sorted(list(s)) / sorted(tuple(s)) / sorted(reversed(list(s))): the wrapper only materialises the set's order
            while isinstance(src, ast.Call) and call_name(src) in ("list", "tuple", "iter", "reversed") and len(src.args) == 1 \
                    and not self.is_set(rel, func, src):
                src = src.args[0]
            inner_set = self.is_set(rel, func, src)
            elem = self.set_elem(rel, src) if inner_set else "?"
            if not inner_set and isinstance(src, ast.BinOp) and isinstance(src.op, ast.Add):
                parts = [src.left, src.right]
                sets = [p.args[0] for p in parts if isinstance(p, ast.Call) and call_name(p) in ("list", "tuple")
                        and p.args and self.is_set(rel, func, p.args[0])]
                if sets:
                    inner_set = True
                    elem = self.set_elem(rel, sets[0])
            if not inner_set and isinstance(src, (ast.GeneratorExp, ast.ListComp)):
                gens = [g for g in src.generators if self.is_set(rel, func, g.iter)]
                if gens:
                    inner_set = True
                    typ = self.db.type_at(rel, src.elt) if hasattr(src.elt, "lineno") else None
                    elem = typ or "?"
            if not inner_set:
                return
            key = kwarg(call, "key")
            ident = self._identity_attrs(elem)
            used = self._key_attrs(rel, func, key) if key is not None else None
            if key is not None and ident and used is not None:
                if ident <= used:
                    self.hold(rel, call, qual, text, f"auto-safe: the sort key contains every identity attribute of "
                                                     f"{elem.split('.')[-1]} ({sorted(ident)}): equal keys are equal elements")
                    return
            if key is None and totally_ordered(elem):
                self.hold(rel, call, qual, text, f"auto-safe: sorted() without key over totally ordered {elem}")
            elif key is None:
                self.flag(rel, call, qual, text, "sorted() over elements whose order is not total (ties keep set order)", elem)
            else:
                self.flag(rel, call, qual, text, f"sorted(key={txt(key)[:60]}) - ties under the key keep set order", elem)
            return
        if not set_args:
            # method calls on a set receiver
            if isinstance(call.func, ast.Attribute) and call.func.attr == "pop" and not call.args \
                    and self.is_set(rel, func, call.func.value):
                gs = guards(call, stop=func)
                recv = txt(call.func.value)
                single = any(re.fullmatch(rf"len\({re.escape(recv)}\) == 1", txt(t)) and pol for t, pol in gs) or \
                    any(re.fullmatch(rf"len\({re.escape(recv)}\) > 1", txt(t)) and not pol for t, pol in gs) or \
                    any(isinstance(n, ast.Assert) and txt(n.test) == f"len({recv}) == 1" and n.lineno < call.lineno
                        for n in walk_local(func))
                if single:
                    self.hold(rel, call, qual, text, "auto-safe: pop() of a set known to have at most one element")
                else:
                    self.flag(rel, call, qual, text, "set.pop() returns an arbitrary element", self.set_elem(rel, call.func.value))
            return
        src = set_args[0]
        elem = self.set_elem(rel, src)
        if name in ORDER_INSENSITIVE_CALLS:
            return
        if name in ("min", "max"):
            if kwarg(call, "key") is None and totally_ordered(elem):
                return
            self.flag(rel, call, qual, text, f"{name}() over a set with ties resolved by set order", elem)
            return
        if name in ("list", "tuple", "enumerate", "iter", "next", "zip", "map", "filter", "reversed", "deque",
                    "collections.deque", "OrderedDict", "dict.fromkeys", "itertools.chain", "chain"):
            why = self.wrapped_safely(rel, func, call)
            if why:
                self.hold(rel, call, qual, text, f"auto-safe: {why}")
                return
            par = getattr(call, "_parent", None)
            if isinstance(par, ast.Call) and call_name(par) == "sorted" and call in par.args:
                return
            if isinstance(par, ast.BinOp) and isinstance(par.op, ast.Add):
                gp = getattr(par, "_parent", None)
                if isinstance(gp, ast.Call) and call_name(gp) == "sorted":
                    return
            self.flag(rel, call, qual, text, f"{name}() materialises the set's iteration order", elem)
            return
        if isinstance(call.func, ast.Attribute) and call.func.attr == "join":
            stmt = call
            while not isinstance(stmt, ast.stmt):
                stmt = getattr(stmt, "_parent")
            if isinstance(stmt, (ast.Raise, ast.Assert)) or txt(stmt).startswith("logging."):
                self.hold(rel, call, qual, text, "auto-safe: text of a log/exception message")
                return
            self.flag(rel, call, qual, text, "str.join over a set", elem)
            return
        if isinstance(call.func, ast.Attribute) and call.func.attr in ("extend", "__iadd__") and \
                not self.is_set(rel, func, call.func.value):
            self.flag(rel, call, qual, text, "list.extend with a set", elem)
            return


def run_for(ctx: Ctx, rule: str, files: List[str], floor: int, statement: str,
            only_functions: Optional[Set[str]] = None) -> int:
    ctx.rule(rule, statement, floor=floor)
    scanner = Scanner(ctx, rule)
    ctx.notes.append(f"typedb: {scanner.db.stats} digest {scanner.db.digest[:16]}")
    for rel in files:
        if rel not in ctx.repo.modules:
            raise AnalysisError(f"anchor module vanished: {rel}")
        ctx.repo.consulted.add(rel)
        module = ctx.repo.modules[rel]
        for qual, func in _walk_functions(module.tree, ""):
            if only_functions is not None and qual not in only_functions:
                continue
            ctx.functions.add(f"{rel}::{qual}")
            scanner.scan_function(rel, qual, func)
        # module-level statements
        pseudo = ast.Module(body=[s for s in module.tree.body
                                  if not isinstance(s, (ast.FunctionDef, ast.ClassDef, ast.AsyncFunctionDef))],
                            type_ignores=[])
        scanner.scan_function(rel, "<module>", pseudo)
    return scanner.instances
