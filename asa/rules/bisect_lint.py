""" Shared lint: bisection results used as the bounds of a scan over a sorted list.

    A forward scan `for x in L[start:]` that is meant to visit every element whose key is >= k
    must start at (or before) the *lower* bound, i.e. bisect_left(...) possibly minus a margin:
    bisect_right(...) - 1 lands on the *last* element equal to k and skips the earlier ties.
    Symmetrically an upper slice bound `L[:stop]` meant to include all elements with key <= k
    needs bisect_right.
"""

from __future__ import annotations

import ast
from typing import List, Tuple

from ..astutil import call_name, txt, walk_local
from ..flow import bound_from


def _bisect_kind(func: ast.AST, expr: ast.AST, depth: int = 0) -> str:
    """ 'left' | 'right' | '' - which bisection the expression derives from """
    for node in [expr] + list(walk_local(expr)):
        if isinstance(node, ast.Call):
            name = call_name(node).split(".")[-1]
            if name == "bisect_left":
                return "left"
            if name in ("bisect_right", "bisect"):
                return "right"
        if isinstance(node, ast.Name) and depth < 3:
            for val in bound_from(func, node.id):
                kind = _bisect_kind(func, val, depth + 1)
                if kind:
                    return kind
    return ""


def scan_bounds(func: ast.AST) -> List[Tuple[ast.AST, str, str, bool]]:
    """ (slice node, 'lower'|'upper', bisect kind, ok) for slices whose bounds derive from a bisection """
    found = []
    for node in walk_local(func):
        if isinstance(node, ast.Subscript) and isinstance(node.slice, ast.Slice):
            for role, bound in (("lower", node.slice.lower), ("upper", node.slice.upper)):
                if bound is None:
                    continue
                kind = _bisect_kind(func, bound)
                if not kind:
                    continue
                ok = (role == "lower" and kind == "left") or (role == "upper" and kind == "right")
                found.append((node, role, kind, ok))
    return found
