""" C12 Per-region GenBank files are faithful, self-consistent extracts """

from __future__ import annotations

import ast
from typing import Dict, List, Optional, Set, Tuple

from ..astutil import arg_of, call_name, calls, enclosing_loops, guards, kwarg, last_attr, stmt_key, txt, walk_local
from ..cfg import CFG
from ..flow import bound_from, expand_helpers, inline_reaching
from ..index import UNRESOLVED, AnalysisError, ClassInfo, dotted
from ..kernel import Affine, OutsideFragment, affine
from ..report import Ctx
from ..astutil import clone

PROP = "C12"
HELP = "antismash/common/secmet/features/region/helpers.py"
REGION = "antismash/common/secmet/features/region/structures.py"
CAND = "antismash/common/secmet/features/candidate_cluster/structures.py"
PROTO = "antismash/common/secmet/features/protocluster.py"
SUB = "antismash/common/secmet/features/subregion.py"
PREP = "antismash/common/secmet/features/prepeptide.py"

EXPLANATION = (
    "R12.1 table agreement between writer and adjuster: the qualifier keys whose values are run-specific cross "
    "references (area numbers from get_*_number(), stringified locations) are derived from the to_biopython methods of "
    "the area classes and of precursor peptides; for each (feature type, key) the region-file writer must have a branch "
    "whose type test resolves (through the class hierarchy's constants) to that feature type and which rewrites that "
    "key - a branch whose type resolves to the empty placeholder is dead. R12.2 snapshot/restore of feature locations "
    "around the write, and no aliasing of the parent record's feature objects into the region record. R12.3 renumbering "
    "is n - first_of_that_family + 1 for every numbered key, and every location adjuster shifts by -region.start with "
    "the record length as wrap point (sibling agreement)."
)
UNDECIDED = [
    "extracted sequence content (pre-origin part followed by post-origin part)",
    "that shifted features cover the same bases; loadability of the file as a whole",
]
TRUSTED = ["CPython ast", "asa.cfg", "constant resolution through the class MRO (asa.index)",
           "slicing a Bio.SeqRecord yields new SeqFeature objects (features crossing the slice ends are dropped)"]

NUMBER_GETTERS = ("get_protocluster_number()", "get_candidate_cluster_number()", "get_subregion_number()")
WRITERS = [
    (REGION, "Region"), (CAND, "CandidateCluster"), (PROTO, "Protocluster"), (SUB, "SubRegion"), (PREP, "Prepeptide"),
]


def _qualifier_stores(func: ast.AST) -> List[Tuple[str, ast.AST]]:
    """ (key, value) for qualifiers[key] = value / {key: value} / .update({key: value}) with literal keys """
    result = []
    for node in walk_local(func):
        if isinstance(node, ast.Assign):
            for target in node.targets:
                if isinstance(target, ast.Subscript) and isinstance(target.slice, ast.Constant) and isinstance(target.slice.value, str):
                    result.append((target.slice.value, node.value))
        if isinstance(node, ast.Dict):
            for key, val in zip(node.keys, node.values):
                if isinstance(key, ast.Constant) and isinstance(key.value, str):
                    result.append((key.value, val))
    return result


def writer_table(ctx: Ctx) -> Dict[Tuple[str, str], str]:
    """ (feature type, qualifier key) -> description of the run-specific value """
    table: Dict[Tuple[str, str], str] = {}
    for rel, cls in WRITERS:
        info = ctx.repo.cls(rel, cls)
        func = ctx.fn(rel, f"{cls}.to_biopython")
        ftype = ctx.repo.const(info.module, ast.Attribute(value=ast.Name(id=cls, ctx=ast.Load()), attr="FEATURE_TYPE", ctx=ast.Load()))
        if ftype is UNRESOLVED or not ftype:
            raise AnalysisError(f"{cls}.FEATURE_TYPE does not resolve to a feature type")
        types = [ftype]
        for key, val in _qualifier_stores(func):
            text = txt(val)
            kind = None
            if any(g in text for g in NUMBER_GETTERS):
                kind = "number"
            elif text.startswith("[str(") and "location" in text:
                kind = "location"
            if kind is None:
                continue
            targets = list(types)
            if cls == "Protocluster":
                # keys put into the shared dict before the core feature is built reach both features
                core_type = ctx.repo.const(info.module, ast.Attribute(value=ast.Name(id=cls, ctx=ast.Load()),
                                                                      attr="core_seqfeature_type", ctx=ast.Load()))
                if kind == "number" and core_type is not UNRESOLVED:
                    targets.append(core_type)
            for ftype_ in targets:
                table[(ftype_, key)] = f"{kind}: {text[:60]}"
    return table


def adjuster_table(ctx: Ctx) -> Tuple[Dict[Tuple[str, str], ast.AST], List[Tuple[ast.AST, List[str]]]]:
    func = ctx.fn(HELP, "_adjust_features")
    module = ctx.repo.mod(HELP)
    loops = [n for n in walk_local(func) if isinstance(n, ast.For) and "features" in txt(n.iter)]
    if not loops:
        raise AnalysisError("_adjust_features: loop over the region record's features not found")
    chain: List[Tuple[ast.AST, List[str], List[ast.stmt]]] = []
    node: Optional[ast.AST] = next((s for s in loops[0].body if isinstance(s, ast.If)), None)
    while isinstance(node, ast.If):
        test = node.test
        types: List[str] = []
        # `x.type == T`, `x.type in [T, U]`, or a disjunction of those
        alternatives = test.values if isinstance(test, ast.BoolOp) and isinstance(test.op, ast.Or) else [test]
        for alt in alternatives:
            left_text = txt(alt.left) if isinstance(alt, ast.Compare) else ""
            if isinstance(alt, ast.Compare) and isinstance(alt.left, ast.Name):
                # a hoisted `kind = feature.type`
                bound = [txt(v) for v in bound_from(func, alt.left.id)]
                if len(bound) == 1:
                    left_text = bound[0]
            if isinstance(alt, ast.Compare) and len(alt.ops) == 1 and isinstance(alt.ops[0], (ast.Eq, ast.In)) \
                    and left_text.endswith(".type"):
                comp = alt.comparators[0]
                elts = comp.elts if isinstance(comp, (ast.List, ast.Tuple, ast.Set)) else [comp]
                for elt in elts:
                    val = ctx.repo.const(module, elt)
                    types.append(val if val is not UNRESOLVED else f"<unresolved {txt(elt)}>")
            else:
                types.append(f"<unresolved {txt(alt)}>")
        chain.append((node, types, node.body))
        node = node.orelse[0] if len(node.orelse) == 1 else None
    rewrites: Dict[Tuple[str, str], ast.AST] = {}
    branches = []
    for test_node, types, body in chain:
        keys: Set[str] = set()
        for stmt in body:
            for sub in [stmt] + list(walk_local(stmt)):
                if isinstance(sub, ast.Assign):
                    for target in sub.targets:
                        if isinstance(target, ast.Subscript) and "qualifiers" in txt(target.value) and isinstance(target.slice, ast.Constant):
                            keys.add(target.slice.value)
                if isinstance(sub, ast.Call) and call_name(sub).startswith("_adjust_"):
                    helper = ctx.fn(HELP, call_name(sub))
                    for inner in walk_local(helper):
                        if isinstance(inner, ast.Assign):
                            for target in inner.targets:
                                if isinstance(target, ast.Subscript) and "qualifiers" in txt(target.value):
                                    if isinstance(target.slice, ast.Constant):
                                        keys.add(target.slice.value)
                                    elif isinstance(target.slice, ast.Name):
                                        for lp in enclosing_loops(inner, stop=helper):
                                            if txt(lp.target) == target.slice.id:
                                                # a literal list, or a module-level constant holding one
                                                from ..index import UNRESOLVED as _UNRESOLVED
                                                listed = ctx.repo.const(ctx.repo.mod(HELP), lp.iter)
                                                if listed is not _UNRESOLVED and isinstance(listed, (list, tuple, set, frozenset)):
                                                    keys |= {e for e in listed if isinstance(e, str)}
        branches.append((test_node, types))
        for ftype in types:
            for key in keys:
                rewrites[(ftype, key)] = test_node
    return rewrites, branches


def r12_1(ctx: Ctx) -> None:
    writers = writer_table(ctx)
    rewrites, branches = adjuster_table(ctx)
    if len(writers) < 8:
        raise AnalysisError(f"writer side: expected at least 8 (type, key) cross references, derived {sorted(writers)}")
    for test_node, types in branches:
        ok = bool(types) and all(t and not t.startswith("<unresolved") for t in types)
        ctx.ob("R12.1", HELP, test_node, "_adjust_features", f"branch {txt(test_node.test)[:60]}", ok,
               "every branch of the adjuster tests against a real feature type (a type resolving to the empty base-class "
               "placeholder makes the branch dead)", form=f"{txt(test_node.test)} -> {types}")
    for (ftype, key), what in sorted(writers.items()):
        ok = (ftype, key) in rewrites
        ctx.ob("R12.1", HELP, rewrites.get((ftype, key), 0), "_adjust_features", f"{ftype}.{key}", ok,
               f"the cross reference `{key}` written on `{ftype}` features is rewritten for the region file",
               detail="" if ok else f"no adjuster branch for feature type `{ftype}` rewrites `{key}`", form=what)


def r12_2(ctx: Ctx) -> None:
    qual = "write_to_genbank"
    func = ctx.fn(HELP, qual)
    cfg = CFG(func)
    # the snapshot: a dict comprehension over the parent's features, or an empty dict filled by a loop over them
    snaps = []  # (name, node that completes it, key expression, loop variable)
    for n in walk_local(func):
        if isinstance(n, (ast.Assign, ast.AnnAssign)) and isinstance(n.value, ast.DictComp) \
                and txt(n.value.value).endswith(".location") and "record.features" in txt(n.value.generators[0].iter):
            snaps.append((txt(n.target if isinstance(n, ast.AnnAssign) else n.targets[0]), n, n.value.key, txt(n.value.generators[0].target)))
        elif isinstance(n, ast.For) and "record.features" in txt(n.iter) and not n.orelse \
                and not any(isinstance(x, (ast.Break, ast.Return)) for x in walk_local(n)):
            for st in n.body:
                if isinstance(st, ast.Assign) and isinstance(st.targets[0], ast.Subscript) and txt(st.value) == f"{txt(n.target)}.location" \
                        and st in n.body and isinstance(st.targets[0].value, ast.Name):
                    snaps.append((st.targets[0].value.id, n, st.targets[0].slice, txt(n.target)))
    if not snaps:
        ctx.ob("R12.2", HELP, func, qual, "snapshot", False, "feature locations of the parent record are saved before the write",
               detail="no snapshot of feature locations found")
        return
    name, snap, snap_key, snap_var = snaps[0]
    mutators = [c for c in calls(func) if call_name(c) in ("_build_base_record", "_adjust_features", "_build_record_from_cross_origin")]
    ok = bool(mutators) and all(cfg.dominates(cfg.n(snap), cfg.n(m)) and cfg.n(snap) != cfg.n(m) for m in mutators)
    ctx.ob("R12.2", HELP, snap, qual, "snapshot precedes modification", ok,
           "the locations are saved before anything that can modify a feature of the parent record runs", form=stmt_key(snap))
    restores = [n for n in walk_local(func) if isinstance(n, ast.For) and "record.features" in txt(n.iter)
                and any(isinstance(s, ast.Assign) and txt(s.targets[0]).endswith(".location") and name in txt(s.value) for s in n.body)]
    writes = [c for c in calls(func) if last_attr(c) == "write"]
    ok = len(restores) == 1 and bool(writes) and cfg.postdominates(cfg.n(restores[0]), cfg.n(writes[0])) and \
        cfg.postdominates(cfg.n(restores[0]), cfg.entry)
    ctx.ob("R12.2", HELP, restores[0] if restores else func, qual, "restore on every normal exit", ok,
           "every normal path through the writer restores the saved locations after the file has been written", form="")
    key_ok = txt(snap_key) == f"id({snap_var})" and any("id(" in txt(s.value) for r in restores for s in r.body if isinstance(s, ast.Assign))
    ctx.ob("R12.2", HELP, snap, qual, "snapshot keyed by identity", key_ok,
           "saved and restored by the identity of the feature object", form="")
    # aliasing: no object of the parent's feature list is put into the region record
    builder = ctx.fn(HELP, "_build_record_from_cross_origin")
    for loop in [n for n in walk_local(builder) if isinstance(n, ast.For) and txt(n.iter) == "record.features"]:
        var = txt(loop.target)
        appended = [c for c in calls(loop) if last_attr(c) == "append" and c.args and txt(c.args[0]) == var]
        stores = [n for n in walk_local(loop) if isinstance(n, ast.Assign) and txt(n.targets[0]).startswith(var + ".")]
        ctx.ob("R12.2", HELP, loop, "_build_record_from_cross_origin", "no aliasing of parent features",
               not appended and not stores,
               "origin-spanning features of the parent record are copied before being adjusted and added to the region "
               "record (only locations are restored afterwards, so an aliased feature would keep renumbered and "
               "region-relative qualifiers in the full record)",
               detail="; ".join(stmt_key(x) for x in appended + stores), form="")


def _resolved_stores(ctx: Ctx, func: ast.FunctionDef, cfg: CFG, keep: Set[str] = frozenset()):
    """ (key, value, site) for each qualifier store made by the adjuster, directly or through an `_adjust_*` helper
        (parameters replaced by the caller's arguments); values have locals resolved to their reaching definitions and
        one-statement module helpers expanded """
    from ..flow import inline_call  # noqa: F401
    out = []
    for node in walk_local(func):
        if isinstance(node, ast.Assign):
            for target in node.targets:
                if isinstance(target, ast.Subscript) and txt(target.value).endswith(".qualifiers") \
                        and isinstance(target.slice, ast.Constant):
                    value = expand_helpers(ctx.repo, HELP, inline_reaching(cfg, node, node.value, keep=keep))
                    out.append((target.slice.value, value, node))
        elif isinstance(node, ast.Call) and call_name(node).startswith("_adjust_"):
            helper = ctx.fn(HELP, call_name(node))
            hcfg = CFG(helper)
            params = [a.arg for a in helper.args.args]
            mapping = {p: inline_reaching(cfg, node, a, keep=keep) for p, a in zip(params, node.args)}
            for kw in node.keywords:
                if kw.arg:
                    mapping[kw.arg] = inline_reaching(cfg, node, kw.value, keep=keep)
            for inner in walk_local(helper):
                if not isinstance(inner, ast.Assign):
                    continue
                for target in inner.targets:
                    if isinstance(target, ast.Subscript) and txt(target.value).endswith(".qualifiers") \
                            and isinstance(target.slice, ast.Constant):
                        value = inline_reaching(hcfg, inner, inner.value)
                        value = _substitute(value, mapping)
                        out.append((target.slice.value, expand_helpers(ctx.repo, HELP, value), node))
    return out


def _substitute(expr: ast.AST, mapping: Dict[str, ast.AST]) -> ast.AST:

    class Sub(ast.NodeTransformer):
        def visit_Name(self, node: ast.Name) -> ast.AST:
            if node.id in mapping and isinstance(node.ctx, ast.Load):
                return clone(mapping[node.id])
            return node
    return ast.fix_missing_locations(Sub().visit(clone(expr)))


FAMILIES = {
    "candidate": (("candidate_cluster_number", "candidate_cluster_numbers"), ("get_candidate_cluster_number", "region.candidate_clusters")),
    "protocluster": (("protoclusters", "protocluster_number"), ("protoclusters_by_original_number",)),
    "subregion": (("subregion_number", "subregion_numbers"), ("get_subregion_number", "region.subregions")),
}


def _rank_table(func: ast.AST, expr: ast.AST) -> Optional[ast.AST]:
    """ the collection X when expr builds {number: rank} for the ranks 1..n of the numbers in X:
        `{n: r for r, n in enumerate(sorted(X), 1)}` directly or through a nested one-parameter function returning it """
    def direct(node: ast.AST, param: Optional[str]) -> Optional[ast.AST]:
        if not (isinstance(node, ast.DictComp) and len(node.generators) == 1 and not node.generators[0].ifs):
            return None
        gen = node.generators[0]
        if not (isinstance(gen.target, ast.Tuple) and len(gen.target.elts) == 2 and isinstance(gen.iter, ast.Call)
                and call_name(gen.iter) == "enumerate" and gen.iter.args):
            return None
        rank, number = (txt(e) for e in gen.target.elts)
        start = gen.iter.args[1] if len(gen.iter.args) > 1 else kwarg(gen.iter, "start")
        if txt(node.key) != number or txt(node.value) != rank or start is None or txt(start) != "1":
            return None
        source = gen.iter.args[0]
        if not (isinstance(source, ast.Call) and call_name(source) == "sorted" and len(source.args) == 1 and not source.keywords):
            return None
        return source.args[0]
    def looped(node: ast.FunctionDef) -> Optional[ast.AST]:
        """ ranks = {}; rank = 0; for n in sorted(X): rank += 1; ranks[n] = rank; return ranks """
        rets = [r for r in walk_local(node) if isinstance(r, ast.Return) and isinstance(r.value, ast.Name)]
        loops = [lp for lp in walk_local(node) if isinstance(lp, ast.For) and isinstance(lp.iter, ast.Call)
                 and call_name(lp.iter) == "sorted" and len(lp.iter.args) == 1 and not lp.iter.keywords and isinstance(lp.target, ast.Name)]
        if len(rets) != 1 or len(loops) != 1 or any(isinstance(x, (ast.Break, ast.Continue, ast.If)) for x in walk_local(loops[0])):
            return None
        table, loop, number = rets[0].value.id, loops[0], loops[0].target.id
        body = [st for st in loop.body]
        if len(body) != 2 or not (isinstance(body[0], ast.AugAssign) and isinstance(body[0].op, ast.Add) and txt(body[0].value) == "1"
                                  and isinstance(body[0].target, ast.Name)):
            return None
        counter = body[0].target.id
        if not (isinstance(body[1], ast.Assign) and txt(body[1].targets[0]) == f"{table}[{number}]" and txt(body[1].value) == counter):
            return None
        inits = {txt(n.targets[0]) if isinstance(n, ast.Assign) else txt(n.target): txt(n.value) for n in node.body
                 if isinstance(n, (ast.Assign, ast.AnnAssign)) and n.value is not None}
        if inits.get(counter) != "0" or inits.get(table) not in ("{}", "dict()"):
            return None
        return loop.iter.args[0]
    found = direct(expr, None)
    if found is not None:
        return found
    if isinstance(expr, ast.Call) and isinstance(expr.func, ast.Name) and len(expr.args) == 1:
        for node in ast.walk(func):
            if isinstance(node, ast.FunctionDef) and node.name == expr.func.id and len(node.args.args) == 1:
                rets = [r for r in walk_local(node) if isinstance(r, ast.Return) and r.value is not None]
                if len(rets) == 1:
                    inner = direct(rets[0].value, node.args.args[0].arg)
                    if inner is None:
                        inner = looped(node)
                    if inner is not None and txt(inner) == node.args.args[0].arg:
                        return expr.args[0]
    return None


def r12_3(ctx: Ctx) -> None:
    func = ctx.fn(HELP, "_adjust_features")
    firsts = {"candidate_cluster_number": "first_candidate_cluster", "candidate_cluster_numbers": "first_candidate_cluster",
              "protoclusters": "first_cluster", "protocluster_number": "first_cluster",
              "subregion_number": "first_subregion", "subregion_numbers": "first_subregion"}
    family_of = {key: fam for fam, (keys, _) in FAMILIES.items() for key in keys}
    seen = set()
    cfg = CFG(func)
    # rank tables: locals bound to a {number: rank} mapping
    tables: Dict[str, ast.AST] = {}
    for node in walk_local(func):
        if isinstance(node, ast.Assign) and len(node.targets) == 1 and isinstance(node.targets[0], ast.Name):
            source = _rank_table(func, node.value)
            if source is not None:
                tables[node.targets[0].id] = source

    def number_atom(n: ast.AST) -> Optional[str]:
        if isinstance(n, ast.Call) and call_name(n) == "int":
            return "N"
        return None

    offsets = 0
    for key, value, site in _resolved_stores(ctx, func, cfg, keep=set(firsts.values()) | set(tables)):
        if key not in firsts:
            continue
        seen.add(key)
        # rank shape: <table>[int(<old number>)]
        looked_up = [n for n in ast.walk(value) if isinstance(n, ast.Subscript) and isinstance(n.value, ast.Name) and n.value.id in tables
                     and (any(isinstance(c, ast.Call) and call_name(c) == "int" for c in ast.walk(n.slice))
                          or isinstance(n.slice, ast.Name))]
        if looked_up:
            table = looked_up[0].value.id
            source = txt(inline_reaching(cfg, site if isinstance(site, ast.stmt) else func.body[0], tables[table])) \
                if False else txt(tables[table])
            marks = FAMILIES[family_of[key]][1]
            ok = all(mark in source for mark in marks) or \
                (family_of[key] == "protocluster" and "get_protocluster_number" in source)
            ctx.ob("R12.3", HELP, site, "_adjust_features", f"renumber {key}", ok,
                   f"`{key}` is renumbered to the rank (1..n) of the old number among the region's numbers of the same family",
                   detail="" if ok else f"the rank table `{table}` is built from {source[:80]}, not from the {family_of[key]} numbers",
                   form=f"{key}: {table}[...] over {source[:80]}")
            continue
        found = None
        for node in ast.walk(value):
            if not isinstance(node, ast.BinOp) or not isinstance(node.op, (ast.Add, ast.Sub)):
                continue
            try:
                aff = affine(node, atom_name=number_atom)
            except OutsideFragment:
                continue
            if aff.terms.get("N") != 1:
                continue
            if found is None or len(txt(node)) > len(txt(found[0])):
                found = (node, aff)
        if found is None:
            ctx.ob("R12.3", HELP, site, "_adjust_features", f"renumber {key}", False,
                   f"`{key}` is renumbered from the old number of the same family",
                   detail="the stored value is not derived from the old number", form=f"{key}: {txt(value)[:100]}")
            continue
        node, aff = found
        offsets += 1
        first = [k for k, v in aff.terms.items() if v == -1 and k != "N"]
        ok = aff.const == 1 and first == [firsts[key]] and len(aff.terms) == 2
        ctx.ob("R12.3", HELP, site, "_adjust_features", f"renumber {key}", ok,
               f"`{key}` is renumbered as n - (first number of that family in the region) + 1",
               form=f"{key}: {aff}")
    ctx.ob("R12.3", HELP, func, "_adjust_features", "numbered keys covered", seen == set(firsts),
           "every numbered cross reference is renumbered", form=f"missing: {sorted(set(firsts) - seen)}")
    # subtracting the first number gives 1..n only if the numbers of a family inside one region are consecutive; the areas of
    # an origin-crossing region are not (the crossing area sorts first, the areas before the origin sort last)
    by_rank = offsets == 0 and bool(tables)
    ctx.ob("R12.3", HELP, func, "_adjust_features", "renumbering does not assume consecutive numbers", by_rank,
           "the new number of an area is its rank among the region's areas of that kind (1..n), not its old number less the "
           "smallest one",
           detail="" if by_rank else "circular record of 3000 with protoclusters before, across and after the origin plus one in the "
           "middle: the origin-crossing region holds protoclusters 1, 2 and 4 (3 is the middle one), its file is written with "
           "protocluster_number 1, 2, 4 and protoclusters=['1','2','4'], and loading it raises 'record does not contain all "
           "expected protoclusters'", form="n - first + 1" if not by_rank else f"rank tables: {sorted(tables)}")
    if offsets:
        for fam, getter, coll in (("first_candidate_cluster", "get_candidate_cluster_number", "region.candidate_clusters"),
                                  ("first_cluster", "get_protocluster_number", "protoclusters_by_original_number"),
                                  ("first_subregion", "get_subregion_number", "region.subregions")):
            vals = [v for v in bound_from(func, fam) if not (isinstance(v, ast.Constant) and v.value == 0)]
            ok = bool(vals) and all("min(" in txt(v) and getter in txt(v) and coll in txt(v) for v in vals)
            ctx.ob("R12.3", HELP, func, "_adjust_features", f"{fam}", ok,
                   "the first number of a family is the minimum number among the region's members of that family",
                   form="; ".join(txt(v)[:80] for v in vals))
    else:
        for name, source in sorted(tables.items()):
            ctx.ob("R12.3", HELP, func, "_adjust_features", f"rank table {name}", True,
                   "a rank table maps each number to its position, from 1, among the sorted numbers of one family",
                   form=f"{name} = ranks of {txt(source)[:80]}")
    # location adjusters: all shift by -region.start with the record length as wrap point
    sites = []
    manual_total = 0
    for qual in ("_adjust_protocluster", "_adjust_motif", "_build_record_from_cross_origin"):
        helper = ctx.fn(HELP, qual)
        for call in calls(helper):
            if last_attr(call) == "clone_with_offset":
                sites.append((qual, call))
        manual = [n for n in walk_local(helper) if isinstance(n, ast.BinOp) and isinstance(n.op, ast.Sub)
                  and txt(n.right) == "region.start" and txt(n.left).endswith((".start", ".end"))]
        manual_total += len(manual)
        for node in manual:
            ctx.ob("R12.3", HELP, node, qual, f"manual shift {txt(node)}", False,
                   "a location is shifted by plain subtraction of the region start instead of the wrapping offset used by "
                   "every other adjuster: anything after the origin of a cross-origin region becomes negative", form=txt(node))
    for qual, call in sites:
        helper_cfg = CFG(ctx.fn(HELP, qual))
        off = arg_of(call, 0, "offset")
        wrap = kwarg(call, "wrap_point")
        off_text = txt(inline_reaching(helper_cfg, call, off)) if off is not None else ""
        wrap_text = txt(inline_reaching(helper_cfg, call, wrap)) if wrap is not None else ""
        post_origin = off_text == "len(record) - region.start"
        ok = (off_text == "-region.start" or post_origin) and wrap_text in ("record_length", "len(record)")
        ctx.ob("R12.3", HELP, call, qual, f"shift {txt(call)[-60:]}", ok,
               "locations are moved by -region.start (or +len(record)-region.start for the re-based post-origin slice) with the "
               "record length as wrap point", form=f"offset={off_text} wrap_point={wrap_text}")
    if len(sites) + manual_total < 4:
        raise AnalysisError(f"expected at least 4 location adjusters, found {len(sites) + manual_total}")
    caller = [c for c in calls(func) if call_name(c).startswith("_adjust_")]
    ok = all("len(record)" in txt(inline_reaching(cfg, c, c)) for c in caller) and len(caller) == 2
    ctx.ob("R12.3", HELP, func, "_adjust_features", "record length handed to helpers", ok,
           "both location-adjusting helpers receive the parent record's length", form="; ".join(txt(c)[:70] for c in caller))


def r12_4(ctx: Ctx) -> None:
    from .strand_lint import fixture_control, positional_part_accesses
    flagged, good_flagged = fixture_control()
    ctx.ob("R12.4", "asa/fixtures/strand_parts.py", 0, "<fixture>", "positive control", flagged == 2 and good_flagged == 0,
           "the matcher reports unguarded positional part accesses and accepts strand-guarded ones on the fixture",
           form=f"flagged={flagged} in bad(), {good_flagged} in good()")
    from ..index import _walk_functions
    for qual, func in _walk_functions(ctx.repo.mod(HELP).tree, ""):
        for node, subject, guarded in positional_part_accesses(func):
            # features of the biopython record may be on either strand; area objects are always forward
            arbitrary = "feature" in subject or subject.startswith("record")
            ctx.ob("R12.4", HELP, node, qual, txt(node), guarded or not arbitrary,
                   "parts of a feature's location are in reading order (descending on the reverse strand): taking parts[0] / "
                   "parts[-1] as the lowest / highest part needs a strand test",
                   form=f"{txt(node)} on `{subject}`" + (" [strand-guarded]" if guarded else ""))


def r12_5(ctx: Ctx) -> None:
    """ qualifier value lists of sliced features are shared with the parent record (Biopython copies the qualifier
        dict shallowly): the writer must store fresh lists, never mutate a value list in place """
    from ..index import _walk_functions
    from ..flow import MUTATORS
    sites = 0
    cfgs: Dict[str, CFG] = {}
    for qual, func in _walk_functions(ctx.repo.mod(HELP).tree, ""):
        aliases = set()
        for node in walk_local(func):
            if isinstance(node, ast.Assign) and len(node.targets) == 1 and isinstance(node.targets[0], ast.Name):
                val = node.value
                if (isinstance(val, ast.Subscript) and txt(val.value).endswith(".qualifiers")) or \
                        (isinstance(val, ast.Call) and isinstance(val.func, ast.Attribute) and val.func.attr in ("get", "setdefault")
                         and txt(val.func.value).endswith(".qualifiers")):
                    aliases.add(node.targets[0].id)
        for node in walk_local(func):
            bad = None
            if isinstance(node, (ast.Assign, ast.AugAssign)):
                targets = node.targets if isinstance(node, ast.Assign) else [node.target]
                for target in targets:
                    if isinstance(target, ast.Subscript):
                        base = target.value
                        if isinstance(base, ast.Name) and base.id in aliases:
                            bad = f"element store into `{base.id}`, an alias of a qualifier value list"
                        elif isinstance(base, ast.Subscript) and txt(base.value).endswith(".qualifiers"):
                            bad = f"element store into {txt(base)}"
                    if isinstance(target, ast.Subscript) and txt(target.value).endswith(".qualifiers"):
                        sites += 1
                        fresh: Optional[bool] = False
                        if isinstance(node, ast.Assign):
                            value = expand_helpers(ctx.repo, HELP, inline_reaching(cfgs.setdefault(qual, CFG(func)), node, node.value))
                            if isinstance(value, (ast.List, ast.ListComp)) or \
                                    (isinstance(value, ast.Call) and call_name(value) in ("list", "sorted")):
                                fresh = True
                            elif isinstance(value, ast.Call):
                                fresh = None
                        if fresh is None:
                            ctx.cannot("R12.5", HELP, node, qual, f"store {txt(target)[:50]}",
                                       f"cannot tell whether `{txt(node.value)[:60]}` returns a fresh list")
                        else:
                            ctx.ob("R12.5", HELP, node, qual, f"store {txt(target)[:50]}", fresh,
                                   "an adjusted qualifier is stored as a fresh list in the region feature's own qualifier dict",
                                   form=stmt_key(node))
            elif isinstance(node, ast.Call) and isinstance(node.func, ast.Attribute) and node.func.attr in MUTATORS:
                recv = node.func.value
                if (isinstance(recv, ast.Name) and recv.id in aliases) or \
                        (isinstance(recv, ast.Subscript) and txt(recv.value).endswith(".qualifiers")):
                    bad = f"in-place {node.func.attr}() on a qualifier value list"
            if bad:
                sites += 1
                ctx.ob("R12.5", HELP, node, qual, stmt_key(node), False,
                       "qualifier value lists of the sliced features are shared with the parent record's features (shallow copy "
                       "of the qualifier dict): mutating one in place changes the full record",
                       detail=bad, form=stmt_key(node))
    if sites < 6:
        raise AnalysisError(f"region writer: expected at least 6 qualifier stores, found {sites}")


def r12_6(ctx: Ctx) -> None:
    """ the annotations of the region file are a private copy wherever they are written: the parent record's annotation
        dictionaries (the structured comment in particular) are never written through """
    from ..ownership import NAMES, SHARED, Ownership
    qual = "_build_annotations"
    func = ctx.fn(HELP, qual)
    own = Ownership(func)
    writes = own.writes()
    if not writes:
        raise AnalysisError(f"{qual}: no write into the annotations found")
    for index, (site, container, kind) in enumerate(writes):
        stmt = own._stmt(site)
        level = own.level(container, stmt)
        ctx.ob("R12.6", HELP, site, qual, f"write#{index} {kind}", level != SHARED,
               "every dictionary the region's annotations are written into is a copy private to the region file (the full "
               "record's annotations, which are written out afterwards, do not change)",
               detail="" if level != SHARED else f"`{txt(container)}` is {NAMES[level]}: the write shows in the full record's annotations",
               form=f"{txt(container)}: {NAMES[level]}")
    rets = [r for r in walk_local(func) if isinstance(r, ast.Return) and r.value is not None]
    ok = bool(rets) and all(own.level(r.value, r) != SHARED for r in rets)
    ctx.ob("R12.6", HELP, rets[0] if rets else func, qual, "returned annotations are the copy", ok,
           "the annotations handed to the region record are the private copy, not the parent's dictionary", form="")


def run(ctx: Ctx) -> None:
    ctx.rule("R12.6", "annotation dictionaries are written only where they are private copies", floor=4)
    r12_6(ctx)
    ctx.rule("R12.1", "writer/adjuster agreement on run-specific cross-reference qualifiers", floor=14)
    ctx.rule("R12.2", "snapshot/restore of locations; no aliasing of parent features", floor=4)
    ctx.rule("R12.3", "renumbering by rank within each family; wrapping location shifts", floor=12)
    r12_1(ctx)
    r12_2(ctx)
    r12_3(ctx)
    ctx.rule("R12.5", "qualifier values are replaced by fresh lists, never mutated in place", floor=6)
    r12_5(ctx)
    ctx.rule("R12.4", "no unguarded positional access to strand-ordered parts of arbitrary features", floor=1)
    r12_4(ctx)
