""" C15 ORF scanning finds exactly the open reading frames of the searched sequence """

from __future__ import annotations

import ast
from typing import Dict, List

from ..astutil import arg_of, call_name, calls, clone, enclosing_loops, guards, kwarg, last_attr, stmt_key, txt, walk_local
from ..cfg import CFG
from ..flow import bound_from, fact_texts, facts_nnf, inline_reaching, nnf_literals, path_facts
from ..index import UNRESOLVED, AnalysisError
from ..kernel import Affine, OutsideFragment, affine, decide, parse, rename, straight_line_env
from ..report import Ctx
from . import c04

PROP = "C15"
ORF = "antismash/common/all_orfs.py"

EXPLANATION = (
    "Coordinate arithmetic of the ORF scanner decided as affine forms (R15.1: forward [offset+start, offset+i+3), "
    "reverse [offset+n-i-3, offset+n-start), stop codon included), the wrap of a window crossing the origin (R15.2: "
    "start reduced modulo the record length, exclusive end with the ((e-1) % L)+1 idiom, two-part split iff start > end "
    "with parts [start, L) and [0, end)), the codon tables / frames / write-once start state (R15.3), the gap finder "
    "only advancing its frontier under a test on that frontier (R15.4), and strand order of the parts of an "
    "origin-crossing ORF (R15.5)."
    ' R15.8: an ORF that wraps over the origin is never split by the strand-blind shift helper (clone_with_offset with a wrap point).'
)
UNDECIDED = [
    "exactness against an independent scanner for all sequences",
    "that the gap search returns only ORFs in gaps for every gene layout (the frontier rule is a necessary condition)",
    "translation equality of created features",
]
TRUSTED = ["CPython ast", "affine arithmetic of asa.kernel", "range(frame, n - 2, 3) enumerates the codon starts of a frame"]


def _direction_of(facts, direction: str) -> str:
    """ 'forward' / 'reverse' / '' from the literals that test the direction parameter """
    verdict = ""
    for expr, truth in facts:
        if not (isinstance(expr, ast.Compare) and len(expr.ops) == 1 and isinstance(expr.ops[0], (ast.Eq, ast.NotEq))):
            continue
        sides = [expr.left, expr.comparators[0]]
        names = [x for x in sides if isinstance(x, ast.Name) and x.id == direction]
        consts = [x for x in sides if isinstance(x, ast.Constant) or (isinstance(x, ast.UnaryOp) and isinstance(x.operand, ast.Constant))]
        if len(names) != 1 or len(consts) != 1:
            continue
        value = ast.literal_eval(consts[0])
        equal = isinstance(expr.ops[0], ast.Eq) == truth
        if value == 1:
            verdict = "forward" if equal else "reverse"
        elif value == -1:
            verdict = "reverse" if equal else "forward"
    return verdict


class _Scanner:
    """ the structural roles of scan_orfs' locals, recovered from shapes rather than names """
    def __init__(self, ctx: Ctx) -> None:
        self.qual = "scan_orfs"
        self.func = func = ctx.fn(ORF, self.qual, inline=True)
        self.cfg = CFG(func)
        params = [a.arg for a in func.args.args]
        if len(params) < 5:
            raise AnalysisError("scan_orfs: unexpected signature")
        self.seq, self.direction, self.offset, self.minimum, self.record_length = params[:5]
        frames = [n for n in walk_local(func) if isinstance(n, ast.For) and txt(n.iter) in ("[0, 1, 2]", "(0, 1, 2)", "range(3)")]
        if len(frames) != 1 or not isinstance(frames[0].target, ast.Name):
            raise AnalysisError("scan_orfs: loop over the three reading frames not found")
        self.frames = frames[0]
        frame = frames[0].target.id
        inner = [n for n in walk_local(frames[0]) if isinstance(n, ast.For) and isinstance(n.iter, ast.Call)
                 and call_name(n.iter) == "range" and len(n.iter.args) == 3 and txt(n.iter.args[0]) == frame
                 and txt(n.iter.args[2]) == "3" and isinstance(n.target, ast.Name)]
        if len(inner) != 1:
            raise AnalysisError("scan_orfs: codon loop range(frame, n - 2, 3) not found")
        self.codons = inner[0]
        self.pos = inner[0].target.id
        # the pending start: the local that is assigned the codon position under a START_CODONS test
        starts = [n for n in walk_local(self.codons) if isinstance(n, ast.Assign) and txt(n.value) == self.pos
                  and isinstance(n.targets[0], ast.Name)
                  and any("START_CODONS" in txt(e) and t for e, t in path_facts(self.cfg, n))]
        if len(starts) != 1:
            raise AnalysisError("scan_orfs: the assignment recording a start codon's position was not found")
        self.start_set = starts[0]
        self.start = starts[0].targets[0].id
        # single-part result: FeatureLocation(<start name>, <end name>, direction)
        singles = [c for c in calls(func) if call_name(c) == "FeatureLocation" and len(c.args) == 3
                   and all(isinstance(a, ast.Name) for a in c.args) and txt(c.args[2]) == self.direction
                   and self.record_length not in (txt(c.args[0]), txt(c.args[1]))]
        if len(singles) != 1:
            raise AnalysisError("scan_orfs: the single-part FeatureLocation(start, end, direction) was not found")
        self.single = singles[0]
        self.ls, self.le = txt(singles[0].args[0]), txt(singles[0].args[1])


def r15_1_2(ctx: Ctx) -> None:
    sc = _Scanner(ctx)
    func, cfg, qual = sc.func, sc.cfg, sc.qual
    length_atom = f"len({sc.seq})"
    spec = {
        "forward": {sc.ls: Affine({sc.start: 1, sc.offset: 1}), sc.le: Affine({sc.pos: 1, sc.offset: 1}, 3)},
        "reverse": {sc.ls: Affine({length_atom: 1, sc.offset: 1, sc.pos: -1}, -3),
                    sc.le: Affine({length_atom: 1, sc.offset: 1, sc.start: -1})},
    }
    seen = set()
    wrap_assigns: Dict[str, ast.Assign] = {}
    for node in walk_local(func):
        if not (isinstance(node, ast.Assign) and len(node.targets) == 1 and txt(node.targets[0]) in (sc.ls, sc.le)):
            continue
        name = txt(node.targets[0])
        facts = path_facts(cfg, node)
        if any(sc.record_length in {n.id for n in ast.walk(e) if isinstance(n, ast.Name)} for e, _ in facts):
            wrap_assigns[name] = node
            continue
        strand = _direction_of(facts, sc.direction)
        if not strand:
            ctx.cannot("R15.1", ORF, node, qual, f"{name} arm", "coordinate assignment outside a test on the direction")
            continue
        try:
            got = affine(inline_reaching(cfg, node, node.value, keep={sc.start, sc.pos, sc.offset, sc.seq}),
                         atom_name=lambda n: length_atom if txt(n) == length_atom else None)
        except OutsideFragment as err:
            ctx.cannot("R15.1", ORF, node, qual, f"{strand} {name}", str(err))
            continue
        seen.add((strand, name))
        want = spec[strand][name]
        role = "start" if name == sc.ls else "end"
        ctx.ob("R15.1", ORF, node, qual, f"{strand} {role}", got == want,
               f"{strand} strand ORF coordinates include the stop codon and are mirrored about the window on the reverse strand",
               detail="" if got == want else f"expected {want}", form=f"{name} = {got}")
    ctx.ob("R15.1", ORF, func, qual, "both strands, both ends", seen == {(s, n) for s in spec for n in (sc.ls, sc.le)},
           "start and end are computed on the forward and on the reverse arm", form=str(sorted(seen)))
    # minimum length: the result is recorded exactly when (end - start) >= minimum, end = position + 2
    mapping = {sc.start: "S", sc.pos: "I", sc.minimum: "M"}
    try:
        terms = []
        for expr, truth in path_facts(cfg, sc.single, fresh_only=True):
            if sc.minimum in {n.id for n in ast.walk(expr) if isinstance(n, ast.Name)}:
                full = inline_reaching(cfg, expr, expr, keep={sc.start, sc.pos})
                terms.append(full if truth else ast.UnaryOp(op=ast.Not(), operand=full))
        if not terms:
            ctx.ob("R15.1", ORF, sc.single, qual, "minimum length", False, "ORFs shorter than the minimum are dropped",
                   detail="no test on the minimum length governs the recorded ORF")
        else:
            cond = rename(terms[0] if len(terms) == 1 else ast.BoolOp(op=ast.And(), values=terms), mapping)
            # the ORF runs from S to the last base of the stop codon at I + 2 inclusive: I + 3 - S bases
            ok, cex, n = decide(cond, parse("I + 3 - S >= M"))
            ctx.ob("R15.1", ORF, sc.single, qual, "minimum length", ok,
                   "an ORF is recorded iff its length (stop codon included) is at least the minimum",
                   detail=(f"differs at {cex}: an ORF of exactly the minimum length is dropped (the test compares the inclusive end "
                           f"minus the start, one less than the length)") if cex else f"{n} orderings",
                   form="recorded iff length - 1 >= minimum" if not ok and decide(cond, parse("I + 2 - S >= M"))[0] else txt(cond))
    except OutsideFragment as err:
        ctx.cannot("R15.1", ORF, sc.single, qual, "minimum length", str(err))
    # R15.2 wrap
    if set(wrap_assigns) != {sc.ls, sc.le}:
        raise AnalysisError("scan_orfs: the wrapping assignments under `record_length is not None` were not found")
    L = sc.record_length
    ok = txt(wrap_assigns[sc.ls].value) in (f"({sc.ls} + {L}) % {L}", f"{sc.ls} % {L}") and \
        f"{L} is not None" in fact_texts(cfg, wrap_assigns[sc.ls])
    ctx.ob("R15.2", ORF, wrap_assigns[sc.ls], qual, "wrapped start", ok, "the start is reduced modulo the record length",
           form=txt(wrap_assigns[sc.ls].value))
    end_expr = wrap_assigns[sc.le].value
    ok = False
    if isinstance(end_expr, ast.BinOp) and isinstance(end_expr.op, ast.Add) and isinstance(end_expr.right, ast.Constant) \
            and end_expr.right.value == 1 and isinstance(end_expr.left, ast.BinOp) and isinstance(end_expr.left.op, ast.Mod):
        try:
            inner = affine(end_expr.left.left)
            ok = inner.terms.get(sc.le) == 1 and inner.const == -1 and txt(end_expr.left.right) == L
        except OutsideFragment:
            ok = False
    ctx.ob("R15.2", ORF, wrap_assigns[sc.le], qual, "wrapped end", ok,
           "the exclusive end is reduced with ((e - 1) % L) + 1 so that an end on the record length stays L", form=txt(end_expr))
    # two-part split iff start > end
    two = [c for c in calls(func) if call_name(c) == "FeatureLocation" and c is not sc.single and len(c.args) == 3]
    parts = sorted((txt(c.args[0]), txt(c.args[1]), txt(c.args[2])) for c in two)
    ok = parts == sorted([(sc.ls, L, sc.direction), ("0", sc.le, sc.direction)])
    form = str(parts)
    if ok:
        try:
            mapping2 = {sc.ls: "a", sc.le: "b"}

            def cond_at(node: ast.AST) -> ast.AST:
                terms = [e if t else ast.UnaryOp(op=ast.Not(), operand=e) for e, t in path_facts(cfg, node, fresh_only=True)
                         if {sc.ls, sc.le} <= {n.id for n in ast.walk(e) if isinstance(n, ast.Name)}]
                if not terms:
                    return ast.Constant(value=True)
                return terms[0] if len(terms) == 1 else ast.BoolOp(op=ast.And(), values=terms)
            ok1, cex1, _ = decide(rename(cond_at(two[0]), mapping2), parse("a > b"))
            ok2, cex2, _ = decide(rename(cond_at(sc.single), mapping2), parse("a <= b"))
            ok = ok1 and ok2
            form += f"; split when {txt(cond_at(two[0]))}, single when {txt(cond_at(sc.single))}"
        except OutsideFragment as err:
            ctx.cannot("R15.2", ORF, two[0], qual, "two-part split", str(err))
            ok = None  # type: ignore[assignment]
    if ok is not None:
        ctx.ob("R15.2", ORF, two[0] if two else func, qual, "two-part split", bool(ok),
               "a wrapped ORF becomes [start, L) + [0, end) iff start > end, otherwise one part [start, end), on the scanned strand",
               form=form)
    # R15.5 strand order of the two parts
    ok = False
    form = ""
    comp = [c for c in calls(func) if call_name(c) == "CompoundLocation"]
    if comp and isinstance(comp[0].args[0], ast.Name):
        name = comp[0].args[0].id
        rev = [c for c in calls(func) if txt(c.func) == f"{name}.reverse"
               and _direction_of(path_facts(cfg, c), sc.direction) == "reverse"
               and cfg.dominates(cfg.n(c), cfg.n(comp[0])) is False and cfg.exists_path(cfg.n(c), cfg.n(comp[0]))]
        lst = bound_from(func, name)
        first = lst[0].elts[0] if lst and isinstance(lst[0], ast.List) and lst[0].elts else None
        ok = bool(rev) and isinstance(first, ast.Call) and txt(first.args[0]) == sc.ls
        form = f"{name} = [pre-origin, post-origin]; reversed on the reverse strand: {bool(rev)}"
    elif comp and all(isinstance(c.args[0], ast.List) and len(c.args[0].elts) == 2 for c in comp):
        # the order is chosen explicitly per strand: [pre-origin, post-origin] forward, [post-origin, pre-origin] reverse
        orders = {}
        for c in comp:
            stmt = next(a for a in _ancestors(c) if isinstance(a, ast.stmt))
            kinds = []
            for elt in c.args[0].elts:
                part = inline_reaching(cfg, stmt, elt)
                first_arg = part.args[0] if isinstance(part, ast.Call) and call_name(part) == "FeatureLocation" and part.args else None
                kinds.append("post" if isinstance(first_arg, ast.Constant) and first_arg.value == 0
                             else "pre" if first_arg is not None and txt(first_arg) == sc.ls else "?")
            orders[_direction_of(path_facts(cfg, stmt), sc.direction) or "any"] = kinds
        ok = orders.get("reverse") == ["post", "pre"] and (orders.get("forward") or orders.get("any")) == ["pre", "post"]
        form = f"orders by strand: {orders}"
        if len(comp) == 1:
            form = "parts passed in a fixed order for both strands"
    ctx.ob("R15.5", ORF, comp[0] if comp else func, qual, "strand order of parts", ok,
           "the two parts of an origin-crossing ORF are listed in reading order: pre-origin first on the forward strand, "
           "post-origin first on the reverse strand (otherwise extraction yields the two halves swapped)", form=form)
    label = ctx.fn(ORF, "create_feature_from_location")
    lcfg = CFG(label)
    loc = label.args.args[1].arg
    # some statement that runs only for multi-part locations depends on the strand
    ok = False
    for node in walk_local(label):
        if isinstance(node, (ast.If, ast.IfExp)) and "strand" in txt(node.test):
            lits = nnf_literals(facts_nnf(path_facts(lcfg, node)))
            if any((text, truth) in lits for text, truth in ((f"len({loc}.parts) > 1", True), (f"len({loc}.parts) <= 1", False),
                                                             (f"len({loc}.parts) == 1", False), (f"len({loc}.parts) < 2", False))):
                ok = True
    ctx.ob("R15.5", ORF, label, "create_feature_from_location", "label uses strand-independent ends", ok,
           "the generated name of an origin-crossing ORF takes the pre-origin start and the post-origin end whatever the strand",
           form="")


def _loop_paths(cfg: CFG, loop: ast.AST, limit: int = 200):
    """ acyclic paths through one iteration of the loop body (header T edge back to the header, or out by break / return):
        [(nodes, [(test expr, truth)...], ended_at_header)] """
    head = cfg.n(loop)
    body = cfg.loop_body_nodes(loop)
    out = []

    def walk(cur: int, nodes, conds) -> None:
        if len(out) > limit:
            raise ValueError("too many paths through the loop body")
        for dst, label in cfg.succ[cur]:
            extra = conds
            test = cfg.nodes[cur]
            if cur != head and test.kind == "test" and label in ("T", "F") and test.ast is not None and hasattr(test.ast, "test"):
                extra = conds + [(test.ast.test, label == "T")]
            if cur == head and label != "T":
                continue
            if dst == head:
                out.append((nodes, extra, True))
            elif dst not in body:
                out.append((nodes, extra, False))
            elif dst in nodes:
                raise ValueError("nested loop in the codon loop body")
            else:
                walk(dst, nodes + [dst], extra)
    walk(head, [], [])
    return out


def r15_3(ctx: Ctx) -> None:
    module = ctx.repo.mod(ORF)
    starts = ctx.repo.const(module, ast.Name(id="START_CODONS", ctx=ast.Load()))
    stops = ctx.repo.const(module, ast.Name(id="STOP_CODONS", ctx=ast.Load()))
    ctx.ob("R15.3", ORF, 1, "<module>", "start codons", starts is not UNRESOLVED and set(starts) == {"ATG", "GTG", "TTG"},
           "start codons are ATG/GTG/TTG", form=str(starts))
    ctx.ob("R15.3", ORF, 1, "<module>", "stop codons", stops is not UNRESOLVED and set(stops) == {"TAA", "TAG", "TGA"},
           "stop codons are TAA/TAG/TGA", form=str(stops))
    sc = _Scanner(ctx)
    func, cfg, qual = sc.func, sc.cfg, sc.qual
    ctx.ob("R15.3", ORF, sc.frames, qual, "frames", True, "exactly the three reading frames are scanned", form=txt(sc.frames.iter))
    stop_arg = inline_reaching(cfg, sc.codons, sc.codons.iter.args[1], keep={sc.seq})
    ok = txt(stop_arg) == f"len({sc.seq}) - 2"
    ctx.ob("R15.3", ORF, sc.codons, qual, "codon stepping", ok,
           "each frame is read codon by codon up to the last complete codon", form=f"range(frame, {txt(stop_arg)}, 3)")
    codon_names = {t.id for n in walk_local(sc.codons) if isinstance(n, ast.Assign) and isinstance(n.targets[0], ast.Name)
                   and txt(n.value).replace(" ", "") == f"{sc.seq}[{sc.pos}:{sc.pos}+3]" for t in n.targets}
    ctx.ob("R15.3", ORF, func, qual, "codon", len(codon_names) == 1, "a codon is the three bases at the current position",
           form=str(sorted(codon_names)))
    codon = sorted(codon_names)[0] if codon_names else "codon"
    ctx.ob("R15.3", ORF, func, qual, "case folded", any(txt(v) == f"{sc.seq}.upper()" for v in bound_from(func, sc.seq)),
           "the sequence is upper-cased before codon comparison", form="")
    # start state: re-initialised per frame, set only while None, reset on every stop that had a start
    resets = [n for n in sc.frames.body if isinstance(n, ast.Assign) and txt(n.targets[0]) == sc.start and txt(n.value) == "None"]
    ctx.ob("R15.3", ORF, sc.frames, qual, "start reset per frame",
           len(resets) == 1 and cfg.dominates(cfg.n(resets[0]), cfg.n(sc.codons)),
           "no start carries over from one frame to the next", form="")
    facts = fact_texts(cfg, sc.start_set)
    ok = f"{sc.start} is None" in facts and f"{codon} in START_CODONS" in facts
    ctx.ob("R15.3", ORF, sc.start_set, qual, "first start wins", ok,
           "the start is recorded only while none is pending (first start after the previous stop)", form=str(sorted(facts)))
    clears = {cfg.n(n) for n in walk_local(sc.codons) if isinstance(n, ast.Assign) and txt(n.targets[0]) == sc.start
              and txt(n.value) == "None"}
    ok = bool(clears)
    form = ""
    try:
        for nodes, conds, _ in _loop_paths(cfg, sc.codons):
            lits = nnf_literals(facts_nnf(conds))
            is_stop = (f"{codon} in STOP_CODONS", True) in lits
            no_start = (f"{sc.start} is None", True) in lits
            if is_stop and not no_start and not set(nodes) & clears:
                ok = False
                form = "a path through a stop codon with a pending start leaves the start set: " + \
                    cfg.describe_path([cfg.n(sc.codons)] + nodes)
    except ValueError as err:
        ctx.cannot("R15.3", ORF, sc.codons, qual, "stop clears the start", str(err))
        return
    ctx.ob("R15.3", ORF, sc.codons, qual, "stop clears the start", ok,
           "after a stop codon the pending start is always cleared (kept or culled ORF alike), so an ORF never spans a stop",
           form=form)


def r15_4(ctx: Ctx) -> None:
    qual = "find_intergenic_areas"
    func = ctx.fn(ORF, qual)
    cfg = CFG(func)
    params = [a.arg for a in func.args.args]
    first, last_param, genes = params[0], params[1], params[2]
    padding = "padding" if "padding" in params else params[-1]
    loops = [n for n in walk_local(func) if isinstance(n, ast.For) and txt(n.iter) == genes]
    if not loops:
        raise AnalysisError("find_intergenic_areas: loop over the genes not found")
    loop = loops[0]
    gene = txt(loop.target)
    # the frontier: the local initialised from the first coordinate before the loop and advanced inside it
    frontiers = {t.id for n in walk_local(func) if isinstance(n, ast.Assign) and txt(n.value) == first
                 and cfg.dominates(cfg.n(n), cfg.n(loop)) for t in n.targets if isinstance(t, ast.Name)}
    frontiers = {name for name in frontiers if any(isinstance(n, ast.Assign) and txt(n.targets[0]) == name for n in walk_local(loop))}
    if len(frontiers) != 1:
        raise AnalysisError("find_intergenic_areas: the frontier (end of the last gene seen) was not found")
    last = frontiers.pop()
    assigns = [n for n in walk_local(loop) if isinstance(n, ast.Assign) and txt(n.targets[0]) == last]
    for index, node in enumerate(assigns):
        facts = path_facts(cfg, node)
        tests = [e for e, t in facts if last in {n.id for n in ast.walk(e) if isinstance(n, ast.Name)}
                 and any(a is loop for a in _anc(e))]
        ctx.ob("R15.4", ORF, node, qual, f"frontier update#{index}", bool(tests),
               "the end of the last gene seen is moved only under a test that compares the gene with that frontier "
               "(a gene nested in an earlier, longer one must not pull it back)",
               form=f"{stmt_key(node)} under {[txt(t) for t in tests]}")
        inner, monotone, why = node.value, False, ""
        if isinstance(inner, ast.Call) and call_name(inner) == "max" and len(inner.args) == 2 and any(txt(a) == last for a in inner.args):
            inner, monotone, why = next(a for a in inner.args if txt(a) != last), True, "max() with the frontier"
        else:
            # without max(): the tests on the path must imply that the new value is not behind the frontier
            class Plain(ast.NodeTransformer):
                def visit_Call(self, call):  # noqa: N802
                    self.generic_visit(call)
                    return call.args[0] if call_name(call) == "int" and len(call.args) == 1 else call
            names = {f"{gene}.location.start": "g_s", f"{gene}.location.end": "g_e", f"{gene}.start": "g_s", f"{gene}.end": "g_e",
                     padding: "P", last: "F"}
            conds = [e if t else ast.UnaryOp(op=ast.Not(), operand=e) for e, t in facts if any(a is loop for a in _anc(e))]
            try:
                cond = rename(Plain().visit(clone(conds[0] if len(conds) == 1 else ast.BoolOp(op=ast.And(), values=conds))), names) \
                    if conds else parse("True")
                value = rename(Plain().visit(clone(inner)), names)
                goal = ast.Compare(left=value, ops=[ast.GtE()], comparators=[ast.Name(id="F", ctx=ast.Load())])
                monotone, cex, _ = decide(cond, ast.fix_missing_locations(goal), mode="implies", pre=parse("g_s < g_e and 0 <= P"))
                why = "implied by the tests on the path" if monotone else f"can move back, e.g. {cex}"
            except OutsideFragment as err:
                why = str(err)
        ctx.ob("R15.4", ORF, node, qual, f"frontier never moves back#{index}", monotone,
               "the frontier (how far the genes seen so far reach, less the allowed overlap) only ever advances: a short gene "
               "nested near the end of a longer one must not pull it back into that gene",
               detail="" if monotone else f"{why}: genes [100:1000) and [900:995) with padding 10 give the gap (985, ...), 15 bases "
               "inside the first gene", form=f"{stmt_key(node)}: {why}")
        val = affine(inline_reaching(cfg, node, inner, keep={gene, padding}))
        ok = val.terms.get(padding) == -1 and any(k.endswith("location.end)") or k.endswith("location.end") for k in val.terms)
        ctx.ob("R15.4", ORF, node, qual, f"frontier value#{index}", ok,
               "the frontier is the gene's end minus the allowed overlap", form=str(val))
    acc = [c for c in calls(func) if last_attr(c) == "append" and isinstance(c.func, ast.Attribute)]
    gaps = [c for c in acc if enclosing_loops(c, stop=func)]
    ok = False
    form = ""
    if len(gaps) == 1:
        try:
            terms = [inline_reaching(cfg, e, e, keep={gene, padding, last}) if t else
                     ast.UnaryOp(op=ast.Not(), operand=inline_reaching(cfg, e, e, keep={gene, padding, last}))
                     for e, t in path_facts(cfg, gaps[0]) if any(a is loop for a in _anc(e))]
            cond = terms[0] if len(terms) == 1 else ast.BoolOp(op=ast.And(), values=terms)
            mapping = {f"{gene}.location.start": "g", padding: "p", last: "f"}
            ok, cex, _ = decide(rename(cond, mapping), parse("g + p > f"))
            form = txt(cond)
        except (OutsideFragment, IndexError):
            ok = False
    ctx.ob("R15.4", ORF, gaps[0] if gaps else loop, qual, "gap test", ok,
           "a gap is recorded when the next gene starts (plus the allowed overlap) beyond the frontier", form=form)
    final = [c for c in acc if not enclosing_loops(c, stop=func)]
    ok = False
    if len(final) == 1:
        try:
            terms = [e if t else ast.UnaryOp(op=ast.Not(), operand=e) for e, t in path_facts(cfg, final[0])]
            cond = terms[0] if len(terms) == 1 else ast.BoolOp(op=ast.And(), values=terms)
            ok, _, _ = decide(rename(cond, {last: "f", last_param: "e"}), parse("f < e"))
        except (OutsideFragment, IndexError):
            ok = False
    ctx.ob("R15.4", ORF, final[0] if final else func, qual, "trailing gap", ok, "the stretch after the last gene is a gap too", form="")
    # find_all_orfs scans both strands of every gap with the record length for wrapping
    fa = ctx.fn(ORF, "find_all_orfs")
    fcfg = CFG(fa)
    scans = [c for c in calls(fa) if call_name(c) == "scan_orfs"]
    ok = len(scans) == 2 and sorted(txt(c.args[1]) for c in scans) == ["-1", "1"]
    if ok:
        loopvars = set()
        for c in scans:
            for lp in enclosing_loops(c, stop=fa):
                loopvars |= {n.id for n in ast.walk(lp.target) if isinstance(n, ast.Name)}
        ok = all(isinstance(c.args[2], ast.Name) and c.args[2].id in loopvars for c in scans) and \
            all(any(k.arg == "record_length" and txt(inline_reaching(fcfg, c, k.value)) == "len(record)" for k in c.keywords)
                for c in scans) and \
            any("reverse_complement()" in txt(c.args[0]) for c in scans if txt(c.args[1]) == "-1")
    ctx.ob("R15.4", ORF, fa, "find_all_orfs", "both strands scanned", ok,
           "each gap is scanned forward and (reverse complemented) backward with the gap start as offset and the record "
           "length for wrapping", form="; ".join(txt(c)[:70] for c in scans))


def _anc(node: ast.AST):
    cur = getattr(node, "_parent", None)
    while cur is not None:
        yield cur
        cur = getattr(cur, "_parent", None)


def _ancestors(node: ast.AST):
    cur = getattr(node, "_parent", None)
    while cur is not None:
        yield cur
        cur = getattr(cur, "_parent", None)


def r15_7(ctx: Ctx) -> None:
    """ every gap search is handed the genes of exactly the interval it searches: the whole record with all genes, or one
        single-part interval with the genes overlapping that same interval """
    from ..flow import fact_texts, inline_reaching
    sites = []
    for qual, func in ctx.repo.functions(ORF):
        for call in calls(func):
            if call_name(call) == "find_intergenic_areas" and len(call.args) >= 3:
                sites.append((qual, func, call))
    for qual, func, call in sites:
        ctx.call_sites += 1
        cfg = CFG(func)
        stmt = next(a for a in _ancestors(call) if isinstance(a, ast.stmt))
        start, end = (txt(inline_reaching(cfg, stmt, a)) for a in call.args[:2])
        genes = inline_reaching(cfg, stmt, call.args[2])
        ok, why = False, txt(genes)[:100]
        if isinstance(genes, ast.Call) and last_attr(genes) == "get_cds_features" and not genes.args:
            ok = start == "0" and end in ("len(record)", "len(record.seq)")
            why = f"all genes for [{start}, {end})"
        elif isinstance(genes, ast.Call) and last_attr(genes) == "get_cds_features_within_location" and genes.args:
            where = txt(genes.args[0])
            overlapping = kwarg(genes, "with_overlapping")
            same = start == f"{where}.start" and end == f"{where}.end"
            # the interval is one part: an element of a parts list, or a location known not to cross the origin
            single = any(isinstance(lp, ast.For) and txt(lp.target) == where and txt(lp.iter).endswith(".parts")
                         for lp in enclosing_loops(call, stop=func)) or \
                any(text.startswith("not ") and text.endswith(".crosses_origin()") and where.startswith(text[4:-len(".crosses_origin()")])
                    for text in fact_texts(cfg, stmt))
            ok = same and single and overlapping is not None and txt(overlapping) == "True"
            why = f"genes overlapping {where} for [{start}, {end})" + ("" if same else " - a different interval") + \
                ("" if single else " - not known to be a single part")
        ctx.ob("R15.7", ORF, call, qual, f"genes of the searched interval {stmt_key(call)[:40]}", ok,
               "a gap search over an interval is given the genes overlapping that same single-part interval, in start order "
               "(genes of another part would be out of order for the frontier sweep, and a multi-part lookup keeps only "
               "contained genes)", form=why)


def r15_8(ctx: Ctx) -> None:
    """ who splits a wrapped ORF at the origin: scan_orfs lists the two parts in reading order itself (R15.5).  The
        shared shift helper (Location.clone_with_offset / offset_location with a wrap point) splits a part that lands on
        the origin into [start, L) + [0, end) whatever the strand - reading order on the forward strand only - so an ORF
        location of either strand must not be wrapped by it unless the helper itself orders the halves by strand. """
    from ..flow import fact_texts
    LOCS = "antismash/common/secmet/locations.py"
    helper = ctx.fn(LOCS, "offset_location")
    hcfg = CFG(helper)
    strand_aware = any((last_attr(c) == "reverse" or "reversed" == call_name(c)) and any("strand" in f for f in fact_texts(hcfg, c))
                       for c in calls(helper))
    count = 0
    for qual in ("scan_orfs", "find_all_orfs"):
        func = ctx.fn(ORF, qual)
        cfg = CFG(func)
        for call in calls(func):
            name = last_attr(call) or call_name(call)
            if name not in ("clone_with_offset", "offset_location"):
                continue
            wrap = kwarg(call, "wrap_point")
            if wrap is None or (isinstance(wrap, ast.Constant) and wrap.value is None):
                continue
            count += 1
            forward_only = any(f in fact_texts(cfg, call) for f in ("direction == 1", "strand == 1", "direction > 0"))
            ok = strand_aware or forward_only
            ctx.ob("R15.8", ORF, call, qual, f"wrap delegated to the shift helper#{count}", ok,
                   "an ORF that wraps over the origin is split into its two parts in reading order for its strand; the shift "
                   "helper splits in coordinate order, which swaps the halves of a reverse-strand ORF (its extracted sequence "
                   "and translation are then wrong)", form=txt(call)[:100])
    if count == 0:
        ctx.ob("R15.8", ORF, ctx.fn(ORF, "scan_orfs"), "scan_orfs", "wrap not delegated", True,
               "scan_orfs wraps and splits ORF coordinates itself (see R15.2 / R15.5)", form="")


def run(ctx: Ctx) -> None:
    ctx.rule("R15.7", "each gap search gets the genes of the interval it searches", floor=3)
    r15_7(ctx)
    ctx.rule("R15.1", "affine ORF coordinates on both strands, stop codon included", floor=5)
    ctx.rule("R15.2", "wrapping of a window that crosses the origin", floor=3)
    ctx.rule("R15.3", "codon tables, frames, write-once start state", floor=9)
    ctx.rule("R15.4", "the gap finder advances its frontier only under a test on the frontier", floor=5)
    ctx.rule("R15.5", "parts of an origin-crossing ORF are in reading order for the strand", floor=2)
    ctx.rule("R15.8", "a wrapped ORF is not split by the strand-blind shift helper", floor=1)
    r15_8(ctx)
    r15_1_2(ctx)
    r15_3(ctx)
    r15_4(ctx)
    before = len(ctx.obs)
    ctx.rule("R15.6", "ring-end idiom (R04.3) on the scanner's files", floor=1)
    c04.r04_3(ctx, "R15.6", files=[ORF])
