""" C15 ORF scanning finds exactly the open reading frames of the searched sequence """

from __future__ import annotations

import ast
from typing import Dict, List

from ..astutil import arg_of, call_name, calls, enclosing_loops, guards, last_attr, stmt_key, txt, walk_local
from ..cfg import CFG
from ..flow import bound_from
from ..index import UNRESOLVED, AnalysisError
from ..kernel import Affine, OutsideFragment, affine, straight_line_env
from ..report import Ctx
from . import c04

PROP = "C15"
ORF = "antismash/common/all_orfs.py"

EXPLANATION = (
    "Coordinate arithmetic of the ORF scanner decided as affine forms (R15.1: forward [offset+start, offset+i+3), "
    "reverse [offset+n-i-3, offset+n-start), stop codon included), the wrap of a window crossing the origin (R15.2: "
    "start reduced modulo the record length, exclusive end with the ((e-1) % L)+1 idiom, two-part split iff start > end "
    "with parts [start, L) and [0, end)), the codon tables / frames / write-once start state (R15.3), the gap finder "
    "only advancing its frontier under a test on that frontier (R15.4), and strand order of the parts of an "
    "origin-crossing ORF (R15.5)."
)
UNDECIDED = [
    "exactness against an independent scanner for all sequences",
    "that the gap search returns only ORFs in gaps for every gene layout (the frontier rule is a necessary condition)",
    "translation equality of created features",
]
TRUSTED = ["CPython ast", "affine arithmetic of asa.kernel", "range(frame, n - 2, 3) enumerates the codon starts of a frame"]


def r15_1_2(ctx: Ctx) -> None:
    qual = "scan_orfs"
    func = ctx.fn(ORF, qual)
    dirs = [n for n in walk_local(func) if isinstance(n, ast.If) and txt(n.test) in ("direction == 1", "direction == -1", "direction != 1")]
    if len(dirs) < 1:
        raise AnalysisError("scan_orfs: strand arms not found")
    node = dirs[0]
    ends = [n for n in walk_local(func) if isinstance(n, ast.Assign) and txt(n.targets[0]) == "end"]
    env0 = straight_line_env(ends[:1])
    fwd_arm, rev_arm = (node.body, node.orelse) if txt(node.test) == "direction == 1" else (node.orelse, node.body)
    n_name = "seq_len"
    spec = {
        "forward": (Affine({"start": 1, "offset": 1}), Affine({"i": 1, "offset": 1}, 3)),
        "reverse": (Affine({n_name: 1, "offset": 1, "i": -1}, -3), Affine({n_name: 1, "offset": 1, "start": -1})),
    }
    for name, arm in (("forward", fwd_arm), ("reverse", rev_arm)):
        env = straight_line_env(arm, env0)
        got = (env.get("loc_start"), env.get("loc_end"))
        ok = got[0] == spec[name][0] and got[1] == spec[name][1]
        ctx.ob("R15.1", ORF, node, qual, f"{name} coordinates", ok,
               f"{name} strand ORF coordinates include the stop codon and are mirrored about the window on the reverse strand",
               detail="" if ok else f"expected [{spec[name][0]}, {spec[name][1]})", form=f"[{got[0]}, {got[1]})")
    ok = len(ends) == 1 and env0.get("end") == Affine({"i": 1}, 2)
    ctx.ob("R15.1", ORF, ends[0] if ends else func, qual, "stop codon included", ok,
           "the ORF end is the last base of the stop codon (i + 2)", form=str(env0.get("end")))
    seqlen = [txt(v) for v in bound_from(func, n_name)]
    ctx.ob("R15.1", ORF, func, qual, "window length", seqlen == ["len(seq)"], "mirroring uses the length of the scanned window",
           form=str(seqlen))
    # minimum length
    culls = [n for n in walk_local(func) if isinstance(n, ast.If) and "minimum_length" in txt(n.test)]
    ok = len(culls) == 1 and txt(culls[0].test) == "end - start < minimum_length"
    ctx.ob("R15.1", ORF, culls[0] if culls else func, qual, "minimum length", ok,
           "ORFs shorter than the minimum are dropped", form=txt(culls[0].test) if culls else "")
    # R15.2 wrap
    wraps = [n for n in walk_local(func) if isinstance(n, ast.If) and txt(n.test) == "record_length is not None"]
    if not wraps:
        raise AnalysisError("scan_orfs: wrap block not found")
    assigns = {txt(s.targets[0]): s.value for s in wraps[0].body if isinstance(s, ast.Assign)}
    ok = txt(assigns.get("loc_start")) == "(loc_start + record_length) % record_length"
    ctx.ob("R15.2", ORF, wraps[0], qual, "wrapped start", ok, "the start is reduced modulo the record length", form=txt(assigns.get("loc_start")))
    end_expr = assigns.get("loc_end")
    ok = False
    if isinstance(end_expr, ast.BinOp) and isinstance(end_expr.op, ast.Add) and isinstance(end_expr.right, ast.Constant) \
            and end_expr.right.value == 1 and isinstance(end_expr.left, ast.BinOp) and isinstance(end_expr.left.op, ast.Mod):
        try:
            inner = affine(end_expr.left.left)
            ok = inner.terms.get("loc_end") == 1 and inner.const == -1 and txt(end_expr.left.right) == "record_length"
        except OutsideFragment:
            ok = False
    ctx.ob("R15.2", ORF, wraps[0], qual, "wrapped end", ok,
           "the exclusive end is reduced with ((e - 1) % L) + 1 so that an end on the record length stays L", form=txt(end_expr))
    splits = [n for n in walk_local(func) if isinstance(n, ast.If) and txt(n.test) in ("loc_start > loc_end", "loc_end < loc_start")]
    ok = len(splits) == 1
    form = ""
    if ok:
        ctor = [c for c in calls(splits[0]) if call_name(c) == "FeatureLocation" and any(c is x for s in splits[0].body for x in ast.walk(s))]
        parts = sorted((txt(c.args[0]), txt(c.args[1]), txt(c.args[2])) for c in ctor)
        form = str(parts)
        ok = parts == sorted([("loc_start", "record_length", "direction"), ("0", "loc_end", "direction")])
        single = [c for s in splits[0].orelse for c in calls(s) if call_name(c) == "FeatureLocation"]
        ok = ok and len(single) == 1 and [txt(a) for a in single[0].args] == ["loc_start", "loc_end", "direction"]
    ctx.ob("R15.2", ORF, splits[0] if splits else func, qual, "two-part split", ok,
           "a wrapped ORF becomes [start, L) + [0, end) iff start > end, otherwise one part [start, end), on the scanned strand",
           form=form)
    # R15.5 strand order of the two parts
    ok = False
    if splits:
        comp = [c for c in calls(splits[0]) if call_name(c) == "CompoundLocation"]
        if comp and isinstance(comp[0].args[0], ast.Name):
            name = comp[0].args[0].id
            rev = [n for n in walk_local(splits[0]) if isinstance(n, ast.If) and txt(n.test) == "direction == -1"
                   and any(txt(s) == f"{name}.reverse()" for s in n.body)]
            lst = bound_from(func, name)
            first = lst[0].elts[0] if lst and isinstance(lst[0], ast.List) and lst[0].elts else None
            ok = bool(rev) and isinstance(first, ast.Call) and txt(first.args[0]) == "loc_start"
            form = f"{name} = [pre-origin, post-origin]; reversed when direction == -1: {bool(rev)}"
        elif comp and isinstance(comp[0].args[0], ast.List):
            form = "parts passed in a fixed order for both strands"
    ctx.ob("R15.5", ORF, splits[0] if splits else func, qual, "strand order of parts", ok,
           "the two parts of an origin-crossing ORF are listed in reading order: pre-origin first on the forward strand, "
           "post-origin first on the reverse strand (otherwise extraction yields the two halves swapped)", form=form)
    label = ctx.fn(ORF, "create_feature_from_location")
    text = txt(label)
    cross = [n for n in walk_local(label) if isinstance(n, ast.If) and txt(n.test) == "len(location.parts) > 1"]
    ok = bool(cross) and any(isinstance(n, (ast.If, ast.IfExp)) and "strand" in txt(n.test) for n in walk_local(cross[0]))
    ctx.ob("R15.5", ORF, label, "create_feature_from_location", "label uses strand-independent ends", ok,
           "the generated name of an origin-crossing ORF takes the pre-origin start and the post-origin end whatever the strand",
           form="")


def r15_3(ctx: Ctx) -> None:
    module = ctx.repo.mod(ORF)
    starts = ctx.repo.const(module, ast.Name(id="START_CODONS", ctx=ast.Load()))
    stops = ctx.repo.const(module, ast.Name(id="STOP_CODONS", ctx=ast.Load()))
    ctx.ob("R15.3", ORF, 1, "<module>", "start codons", starts is not UNRESOLVED and set(starts) == {"ATG", "GTG", "TTG"},
           "start codons are ATG/GTG/TTG", form=str(starts))
    ctx.ob("R15.3", ORF, 1, "<module>", "stop codons", stops is not UNRESOLVED and set(stops) == {"TAA", "TAG", "TGA"},
           "stop codons are TAA/TAG/TGA", form=str(stops))
    qual = "scan_orfs"
    func = ctx.fn(ORF, qual)
    cfg = CFG(func)
    frames = [n for n in walk_local(func) if isinstance(n, ast.For) and txt(n.target) == "frame"]
    ok = len(frames) == 1 and txt(frames[0].iter) in ("[0, 1, 2]", "(0, 1, 2)", "range(3)")
    ctx.ob("R15.3", ORF, frames[0] if frames else func, qual, "frames", ok, "exactly the three reading frames are scanned",
           form=txt(frames[0].iter) if frames else "")
    inner = [n for n in walk_local(func) if isinstance(n, ast.For) and txt(n.target) == "i"]
    ok = len(inner) == 1 and txt(inner[0].iter) == "range(frame, seq_len - 2, 3)"
    ctx.ob("R15.3", ORF, inner[0] if inner else func, qual, "codon stepping", ok,
           "each frame is read codon by codon up to the last complete codon", form=txt(inner[0].iter) if inner else "")
    codon = [txt(v) for v in bound_from(func, "codon")]
    ctx.ob("R15.3", ORF, func, qual, "codon", codon == ["seq[i:i + 3]"], "a codon is the three bases at i", form=str(codon))
    ctx.ob("R15.3", ORF, func, qual, "case folded", any(txt(v) == "seq.upper()" for v in bound_from(func, "seq")),
           "the sequence is upper-cased before codon comparison", form="")
    # start state: re-initialised per frame, set only while None, reset on every stop that had a start
    if inner and frames:
        resets = [n for n in frames[0].body if isinstance(n, ast.Assign) and txt(n.targets[0]) == "start" and txt(n.value) == "None"]
        ctx.ob("R15.3", ORF, frames[0], qual, "start reset per frame", len(resets) == 1 and frames[0].body.index(resets[0]) == 0,
               "no start carries over from one frame to the next", form="")
        sets = [n for n in walk_local(inner[0]) if isinstance(n, ast.Assign) and txt(n.targets[0]) == "start" and txt(n.value) == "i"]
        ok = len(sets) == 1 and any(pol and "start is None" in txt(t) and "codon in START_CODONS" in txt(t)
                                    for t, pol in guards(sets[0], stop=inner[0]))
        ctx.ob("R15.3", ORF, sets[0] if sets else inner[0], qual, "first start wins", ok,
               "the start is recorded only while none is pending (first start after the previous stop)", form="")
        stop_arm = [n for n in inner[0].body if isinstance(n, ast.If) and txt(n.test) == "codon in STOP_CODONS"]
        ok = False
        if stop_arm:
            arm = stop_arm[0]
            # every path through the stop arm either had no start (continue) or clears it
            head = cfg.n(inner[0])
            tn = cfg.n(arm)
            clear_nodes = {cfg.n(n) for n in walk_local(arm) if isinstance(n, ast.Assign) and txt(n.targets[0]) == "start"
                           and txt(n.value) == "None"}
            none_tests = [(cfg.n(n), "T") for n in walk_local(arm) if isinstance(n, ast.If) and txt(n.test) == "start is None"]
            starts_t = [dst for dst, lab in cfg.succ[tn] if lab == "T"]
            reach = set()
            for s0 in starts_t:
                reach |= {s0} | cfg.reach([s0], avoid=clear_nodes | {head}, edges_excluded=none_tests,
                                          within=cfg.loop_body_nodes(inner[0]) | {head})
            # can we get back to the loop header without clearing and without the "start is None" exit?
            ok = bool(clear_nodes) and not any(head in {d for d, _ in cfg.succ[n]} for n in reach if n not in clear_nodes)
        ctx.ob("R15.3", ORF, stop_arm[0] if stop_arm else inner[0], qual, "stop clears the start", ok,
               "after a stop codon the pending start is always cleared (kept or culled ORF alike), so an ORF never spans a stop",
               form="")


def r15_4(ctx: Ctx) -> None:
    qual = "find_intergenic_areas"
    func = ctx.fn(ORF, qual)
    loops = [n for n in walk_local(func) if isinstance(n, ast.For) and txt(n.iter) == "cds_features"]
    if not loops:
        raise AnalysisError("find_intergenic_areas: loop over cds_features not found")
    loop = loops[0]
    assigns = [n for n in walk_local(loop) if isinstance(n, ast.Assign) and txt(n.targets[0]) == "last"]
    if not assigns:
        raise AnalysisError("find_intergenic_areas: frontier `last` is never advanced")
    for index, node in enumerate(assigns):
        gs = guards(node, stop=loop)
        ok = any(pol and "last" in {n.id for n in ast.walk(t) if isinstance(n, ast.Name)} for t, pol in gs)
        ctx.ob("R15.4", ORF, node, qual, f"frontier update#{index}", ok,
               "the end of the last gene seen is moved only under a test that compares the gene with that frontier "
               "(a gene nested in an earlier, longer one must not pull it back)",
               form=f"{stmt_key(node)} under {[txt(t) for t, _ in gs]}")
        val = affine(node.value)
        ok = val.terms.get("padding") == -1 and any(k.endswith("location.end)") or k.endswith("location.end") for k in val.terms)
        ctx.ob("R15.4", ORF, node, qual, f"frontier value#{index}", ok,
               "the frontier is the gene's end minus the allowed overlap", form=str(val))
    gaps = [c for c in calls(loop) if txt(c.func) == "intergenic_areas.append"]
    ok = len(gaps) == 1 and any(pol and txt(t) == "cds.location.start + padding > last" for t, pol in guards(gaps[0], stop=loop))
    ctx.ob("R15.4", ORF, gaps[0] if gaps else loop, qual, "gap test", ok,
           "a gap is recorded when the next gene starts (plus the allowed overlap) beyond the frontier", form="")
    final = [c for c in calls(func) if txt(c.func) == "intergenic_areas.append" and not enclosing_loops(c, stop=func)]
    ok = len(final) == 1 and any(pol and txt(t) == "last < end" for t, pol in guards(final[0], stop=func))
    ctx.ob("R15.4", ORF, final[0] if final else func, qual, "trailing gap", ok, "the stretch after the last gene is a gap too", form="")
    # find_all_orfs scans both strands of every gap with the record length for wrapping
    fa = ctx.fn(ORF, "find_all_orfs")
    scans = [c for c in calls(fa) if call_name(c) == "scan_orfs"]
    ok = len(scans) == 2 and sorted(txt(c.args[1]) for c in scans) == ["-1", "1"] and \
        all(txt(c.args[2]) == "start" and "record_length" in [k.arg for k in c.keywords] for c in scans) and \
        any("reverse_complement()" in txt(c.args[0]) for c in scans if txt(c.args[1]) == "-1")
    ctx.ob("R15.4", ORF, fa, "find_all_orfs", "both strands scanned", ok,
           "each gap is scanned forward and (reverse complemented) backward with the gap start as offset and the record "
           "length for wrapping", form="; ".join(txt(c)[:70] for c in scans))


def run(ctx: Ctx) -> None:
    ctx.rule("R15.1", "affine ORF coordinates on both strands, stop codon included", floor=5)
    ctx.rule("R15.2", "wrapping of a window that crosses the origin", floor=3)
    ctx.rule("R15.3", "codon tables, frames, write-once start state", floor=9)
    ctx.rule("R15.4", "the gap finder advances its frontier only under a test on the frontier", floor=5)
    ctx.rule("R15.5", "parts of an origin-crossing ORF are in reading order for the strand", floor=2)
    r15_1_2(ctx)
    r15_3(ctx)
    r15_4(ctx)
    before = len(ctx.obs)
    ctx.rule("R15.6", "ring-end idiom (R04.3) on the scanner's files", floor=1)
    c04.r04_3(ctx, "R15.6", files=[ORF])
