""" C13 HMM hit refinement keeps the best non-overlapping hits, order-independently """

from __future__ import annotations

import ast
from typing import Dict, List

from ..astutil import arg_of, call_name, calls, enclosing_loops, guards, kwarg, last_attr, stmt_key, txt, walk_local
from ..cfg import CFG
from ..flow import bound_from, effective_compare, inline_reaching, path_facts, same_operands
from ..index import AnalysisError
from ..kernel import OutsideFragment, decide, parse, rename
from ..report import Ctx
from . import family_e
from ..astutil import clone

PROP = "C13"
REF = "antismash/common/hmmscan_refinement.py"
HMMER = "antismash/common/hmmer.py"
CP = "antismash/common/hmm_rule_parser/cluster_prediction.py"
DOMID = "antismash/detection/nrps_pks_domains/domain_identification.py"

EXPLANATION = (
    "R13.1: every collection handed to the greedy single-pass filters is ordered by a total key (no set's iteration "
    "order survives into a position-sorted list; family E over the refinement modules). R13.2: interval kernels of the "
    "hit classes decided over all orderings of their endpoints - overlaps == share a position, containment, overlap "
    "size == |intersection|, merge spans both operands with min e-value / max score - and the greedy filter's "
    "'kept => overlap <= margin' and 'replace only on strictly better score' shapes. R13.3: best-of-group selections do "
    "not start from an arbitrary set element. R13.4: per-profile best hit keeps the maximum score and restores positional "
    "order. R13.5: the grouping sweep's running extent is a running maximum within a group."
    ' R13.6: the fallback of remove_incomplete offers the fragment that maximises length / profile length, the measure its threshold applies to.'
    ' R13.7: the overlap groups of filter_results are formed from hits of the equivalence group under consideration only.'
)
UNDECIDED = [
    "optimality/completeness of the greedy single pass for chained overlaps",
    "incomplete-fragment policy (thresholds, fallback, regulator)",
    "the 1.5x span merge rule as a value",
]
TRUSTED = ["CPython ast", "integer-difference-logic small-model bound (asa.kernel.decide)", "mypy 1.9.0 expression types (family E)"]


def _single_return(func: ast.FunctionDef, skip_guarded_by: str = "isinstance") -> ast.Return:
    rets = [r for r in walk_local(func) if isinstance(r, ast.Return)
            and not any(skip_guarded_by in txt(t) for t, _ in guards(r, stop=func))]
    if len(rets) != 1:
        folded = _fold_returns([st for st in func.body if not any(skip_guarded_by in txt(t) for t in
                                                                  ([st.test] if isinstance(st, ast.If) else []))])
        if folded is None:
            raise AnalysisError(f"{func.name}: expected one unguarded return, found {len(rets)}")
        return ast.copy_location(ast.Return(value=folded), rets[0])
    return rets[0]


def _fold_returns(stmts, env=None):
    """ the value returned by a block of plain assignments and if/else arms that all end in `return`, as one
        (conditional) expression with the locals substituted; None when the block has another shape """
    from ..kernel import subst
    env = dict(env or {})
    for index, st in enumerate(stmts):
        if isinstance(st, ast.Return):
            return subst(st.value, env) if st.value is not None else None
        if isinstance(st, ast.Expr) and isinstance(st.value, ast.Constant):
            continue
        if isinstance(st, ast.Assert):
            continue
        if isinstance(st, ast.Assign) and len(st.targets) == 1 and isinstance(st.targets[0], ast.Name):
            env[st.targets[0].id] = subst(st.value, env)
            continue
        if isinstance(st, ast.If):
            rest = list(stmts[index + 1:])
            yes = _fold_returns(list(st.body) + rest, env)
            no = _fold_returns(list(st.orelse) + rest, env)
            if yes is None or no is None:
                return None
            return ast.IfExp(test=subst(st.test, env), body=yes, orelse=no)
        return None
    return None


def r13_2(ctx: Ctx) -> None:
    s_, e_ = "query_start", "query_end"
    mapping = {f"self.{s_}": "a_s", f"self.{e_}": "a_e", f"other.{s_}": "b_s", f"other.{e_}": "b_e"}
    pre = parse("a_s < a_e and b_s < b_e")
    func = ctx.fn(REF, "HMMResult.overlaps_with")
    ret = _single_return(func)
    try:
        ok, cex, n = decide(rename(ret.value, mapping), parse("max(a_s, b_s) < min(a_e, b_e)"), pre=pre)
        ctx.ob("R13.2", REF, ret, "HMMResult.overlaps_with", "kernel", ok, "two hits overlap iff they share a position",
               detail=f"counterexample {cex}" if cex else f"{n} orderings", form=txt(rename(ret.value, mapping)))
    except OutsideFragment as err:
        ctx.cannot("R13.2", REF, ret, "HMMResult.overlaps_with", "kernel", str(err))
    func = ctx.fn(REF, "HMMResult.is_contained_by")
    ret = _single_return(func)
    try:
        ok, cex, n = decide(rename(ret.value, mapping), parse("b_s <= a_s and a_e <= b_e"), pre=pre)
        ctx.ob("R13.2", REF, ret, "HMMResult.is_contained_by", "kernel", ok, "containment: the other hit's endpoints enclose this hit",
               detail=f"counterexample {cex}" if cex else f"{n} orderings", form=txt(rename(ret.value, mapping)))
    except OutsideFragment as err:
        ctx.cannot("R13.2", REF, ret, "HMMResult.is_contained_by", "kernel", str(err))
    # merge: resolve start/end through the function's paths
    func = ctx.fn(REF, "HMMResult.merge")
    from ..kernel import sym_paths
    body = [s for s in func.body if not isinstance(s, (ast.Assert,)) and not (isinstance(s, ast.Expr) and isinstance(s.value, ast.Constant))]
    ctor = [c for c in calls(func) if call_name(c) == "HMMResult"]
    if len(ctor) != 1:
        raise AnalysisError("HMMResult.merge: constructor call not found")
    args = ctor[0].args
    # start / end as expressions: the value each local holds when the constructor runs, as one conditional expression
    # over the if/else arms that assign it
    def env_after(stmts, env):
        from ..kernel import subst
        env = dict(env)
        for st in stmts:
            if isinstance(st, ast.Assign) and len(st.targets) == 1 and isinstance(st.targets[0], ast.Name):
                env[st.targets[0].id] = subst(st.value, env)
            elif isinstance(st, ast.Assign) and len(st.targets) == 1 and isinstance(st.targets[0], ast.Tuple) \
                    and isinstance(st.value, ast.Tuple) and len(st.value.elts) == len(st.targets[0].elts):
                values = [subst(v, env) for v in st.value.elts]
                for tgt, val in zip(st.targets[0].elts, values):
                    if isinstance(tgt, ast.Name):
                        env[tgt.id] = val
            elif isinstance(st, ast.If):
                yes, no = env_after(st.body, env), env_after(st.orelse, env)
                test = subst(st.test, env)
                for key in set(yes) | set(no):
                    a, b = yes.get(key), no.get(key)
                    if a is None or b is None:
                        continue
                    env[key] = a if txt(a) == txt(b) else ast.IfExp(test=test, body=a, orelse=b)
            elif isinstance(st, (ast.Return, ast.Assert, ast.Expr, ast.Pass)):
                continue
            else:
                raise OutsideFragment(f"statement outside the fragment in merge: {txt(st)[:60]}")
        return env

    def resolve(name: str) -> ast.AST:
        env = env_after(func.body, {})
        if name not in env:
            raise OutsideFragment(f"cannot resolve `{name}` in merge")
        return env[name]
    try:
        start = rename(resolve(txt(args[1])) if isinstance(args[1], ast.Name) else args[1], mapping)
        end = rename(resolve(txt(args[2])) if isinstance(args[2], ast.Name) else args[2], mapping)
        ok1, cex1, n1 = decide(start, parse("min(a_s, b_s)"), pre=pre)
        ok2, cex2, n2 = decide(end, parse("max(a_e, b_e)"), pre=pre)
        ctx.ob("R13.2", REF, ctor[0], "HMMResult.merge", "merged start", ok1, "the merged hit starts at the smaller start",
               detail=f"counterexample {cex1}" if cex1 else f"{n1} orderings", form=txt(start))
        ctx.ob("R13.2", REF, ctor[0], "HMMResult.merge", "merged end", ok2,
               "the merged hit ends at the larger end (also when one fragment is nested in the other)",
               detail=f"counterexample {cex2}" if cex2 else f"{n2} orderings", form=txt(end))
    except OutsideFragment as err:
        ctx.cannot("R13.2", REF, ctor[0], "HMMResult.merge", "merged span", str(err))
    from ..flow import inline_reaching, same_operands
    mcfg = CFG(func)
    stmt_of_ctor = next(n for n in walk_local(func) if isinstance(n, ast.stmt) and any(c is ctor[0] for c in ast.walk(n)))
    best = []
    for a in args[3:5]:
        try:
            best.append(resolve(a.id) if isinstance(a, ast.Name) else inline_reaching(mcfg, stmt_of_ctor, a))
        except OutsideFragment:
            best.append(inline_reaching(mcfg, stmt_of_ctor, a))
    def extreme(expr: ast.AST, kind: str, operands: List[str]) -> bool:
        if same_operands(expr, kind, operands):
            return True
        try:   # an explicit comparison choosing between the two
            return decide(rename(expr, {operands[0]: "x", operands[1]: "y"}), parse(f"{kind}(x, y)"))[0]
        except OutsideFragment:
            return False
    ok = len(best) == 2 and extreme(best[0], "min", ["self.evalue", "other.evalue"]) \
        and extreme(best[1], "max", ["self.bitscore", "other.bitscore"]) and txt(args[0]) == "self.hit_id"
    ctx.ob("R13.2", REF, ctor[0], "HMMResult.merge", "best score", ok,
           "the merged hit carries the best (lowest) e-value and best (highest) score of its fragments", form=txt(ctor[0])[:120])
    # overlap size
    func = ctx.fn(CP, "hsp_overlap_size")
    ret = _single_return(func, skip_guarded_by="\0")
    m2 = {"first.hit_start": "a_s", "first.hit_end": "a_e", "second.hit_start": "b_s", "second.hit_end": "b_e"}
    expr = inline_reaching(CFG(func), ret, ret.value)
    try:
        ok, cex, n = decide(rename(expr, m2), parse("max(0, min(a_e, b_e) - max(a_s, b_s))"), pre=pre)
        ctx.ob("R13.2", CP, ret, "hsp_overlap_size", "kernel", ok, "the overlap size is the size of the intersection (0 if disjoint)",
               detail=f"counterexample {cex}" if cex else f"{n} orderings", form=txt(rename(expr, m2)))
    except OutsideFragment as err:
        ctx.cannot("R13.2", CP, ret, "hsp_overlap_size", "kernel", str(err))
    # greedy filter shapes
    _greedy_filter(ctx)
    _accumulator_not_lost(ctx)


def _greedy_filter(ctx: Ctx) -> None:
    from ..flow import inline_reaching, path_facts
    qual = "_remove_overlapping"
    func = ctx.fn(REF, qual)
    cfg = CFG(func)
    if len(func.args.args) < 2:
        raise AnalysisError(f"{qual}: unexpected signature")
    hits, lengths = func.args.args[0].arg, func.args.args[1].arg
    loops = [n for n in walk_local(func) if isinstance(n, ast.For) and isinstance(n.target, ast.Name) and hits in txt(n.iter)]
    rets = [r for r in walk_local(func) if isinstance(r, ast.Return) and isinstance(r.value, ast.Name)]
    if len(loops) != 1 or len(rets) != 1:
        raise AnalysisError(f"{qual}: the loop over the hits / the returned list was not found")
    loop, kept_list = loops[0], rets[0].value.id
    from ..loopview import view as _loop_view
    lview = _loop_view(func, loop.iter, loop.target, loop.body)
    cur = lview.elem if lview is not None and lview.elem else loop.target.id
    # the hit each new one is compared with: the local (other than the loop variable) whose query_end the loop reads
    prev_names = {n.value.id for n in walk_local(loop) if isinstance(n, ast.Attribute) and n.attr == "query_end"
                  and isinstance(n.value, ast.Name) and n.value.id != cur}
    prev = sorted(prev_names)[0] if len(prev_names) == 1 else None
    # the margin: the local that stands with the previous hit's end in its comparison with the new hit's start
    margin_names = set()
    derived = {lengths}   # locals computed from the profile lengths stay names; everything else is read through
    grew = True
    while grew:
        grew = False
        for n in walk_local(loop):
            if isinstance(n, ast.Assign) and len(n.targets) == 1 and isinstance(n.targets[0], ast.Name) \
                    and n.targets[0].id not in derived and any(isinstance(x, ast.Name) and x.id in derived for x in ast.walk(n.value)) \
                    and "query_" not in txt(n.value):
                derived.add(n.targets[0].id)
                grew = True
    for n in walk_local(loop):
        if isinstance(n, ast.Compare) and prev is not None:
            at = next((a for a in _ancestors(n) if isinstance(a, ast.stmt)), loop)
            resolved = inline_reaching(cfg, at, n, keep={prev, cur} | derived)
            if f"{prev}.query_end" in txt(resolved) and f"{cur}.query_start" in txt(resolved):
                margin_names |= {x.id for x in ast.walk(resolved) if isinstance(x, ast.Name)} - {prev, cur}
    margin = sorted(margin_names)[0] if len(margin_names) == 1 else None
    if prev is not None:
        ok, why = _tracks_last_kept(cfg, func, loop, prev, kept_list)
        ctx.ob("R13.2", REF, loop, qual, "previous is the last kept", ok,
               "each hit is compared with the last hit kept so far: the comparison partner is re-read from the kept list in "
               "every iteration, or refreshed after every change of the list's last element", detail="" if ok else why, form=why)
    if prev is None or margin is None:
        ctx.cannot("R13.2", REF, loop, qual, "greedy filter", "the previous-hit local or the margin local was not found")
        return
    keep = {prev, margin, cur}
    mapping = {f"{cur}.query_start": "c_s", f"{prev}.query_end": "p_e", margin: "M",
               f"{cur}.bitscore": "B_c", f"{prev}.bitscore": "B_p"}

    def condition(node: ast.AST) -> ast.AST:
        terms = []
        for expr, truth in path_facts(cfg, node, fresh_only=True):
            if not any(isinstance(a, ast.For) and a is loop for a in _ancestors(expr)):
                continue
            full = inline_reaching(cfg, expr, expr, keep=keep)
            terms.append(full if truth else ast.UnaryOp(op=ast.Not(), operand=full))
        if not terms:
            return ast.Constant(value=True)
        return terms[0] if len(terms) == 1 else ast.BoolOp(op=ast.And(), values=terms)
    appends = [c for c in calls(loop) if txt(c.func) == f"{kept_list}.append" and c.args and txt(c.args[0]) == cur]
    replaces = [n for n in walk_local(loop) if isinstance(n, ast.Assign) and txt(n.targets[0]) == f"{kept_list}[-1]"
                and txt(n.value) == cur]
    other_writes = [n for n in walk_local(loop) if (isinstance(n, ast.Call) and isinstance(n.func, ast.Attribute)
                                                    and txt(n.func.value) == kept_list and n not in appends
                                                    and n.func.attr not in ("copy",))
                    or (isinstance(n, ast.Assign) and any(txt(t).startswith(kept_list + "[") for t in n.targets) and n not in replaces)]
    ok = len(appends) == 1 and len(replaces) == 1 and not other_writes
    form = ""
    if ok:
        try:
            keep_cond = rename(condition(appends[0]), mapping)
            repl_cond = rename(condition(replaces[0]), mapping)
            ok1, cex1, _ = decide(keep_cond, parse("p_e - c_s <= M"))
            ok2, cex2, _ = decide(repl_cond, parse("p_e - c_s > M and B_c > B_p"))
            ok = ok1 and ok2
            form = f"kept when {txt(keep_cond)}; replaces when {txt(repl_cond)}" + \
                (f"; differs at {cex1 or cex2}" if not ok else "")
        except OutsideFragment as err:
            ctx.cannot("R13.2", REF, loop, qual, "kept => overlap <= margin", str(err))
            ok = None  # type: ignore[assignment]
    if ok is not None:
        ctx.ob("R13.2", REF, appends[0] if appends else loop, qual, "kept => overlap <= margin", bool(ok),
               "a hit is kept next to the previous one only if they overlap by at most the margin; otherwise it replaces the "
               "previous one only on a strictly better score", form=form)
    # a replacement puts a hit next to the predecessor of the hit it replaced without ever comparing the two
    for repl in replaces:
        rechecked = any(isinstance(a, ast.While) for a in _ancestors(repl) if any(x is loop for x in _ancestors(a))) or \
            any(last_attr(c) == "pop" and txt(c.func.value) == kept_list for c in calls(loop))
        ctx.ob("R13.2", REF, repl, qual, "replacement re-checked against its new neighbour", rechecked,
               "a hit that replaces the last kept hit is compared with the hit kept before that one (it was only ever compared "
               "with the hit it replaced)",
               detail="" if rechecked else "profiles P (length 100), Q (1000), R (100); hits P[0:100) s10, Q[10:600) s5, R[20:120) s50: Q is kept "
               "next to P (margin 200), R replaces Q, and the result [P[0:100), R[20:120)] overlaps by 80 with a margin of 20",
               form=stmt_key(repl))
    values = bound_from(func, margin)
    ok = False
    try:
        # the margin as one expression of the two profile lengths, whatever the spelling (max(), explicit comparison,
        # named intermediates): decided against 0.2 * max(L_new, L_previous)
        from ..kernel import cond_env
        upto = next((i for i, st in enumerate(loop.body) if any(isinstance(x, ast.Compare) and f"{prev}.query_end" in txt(x)
                                                               for x in ast.walk(st))), len(loop.body))
        env = cond_env(loop.body, {}, keep={prev, cur})
        if margin in env:
            lmap = {f"{lengths}[{cur}.hit_id]": "Lc", f"{lengths}[{prev}.hit_id]": "Lp"}
            resolved = rename(env[margin], lmap)
            ok = decide(resolved, parse("0.2 * max(Lc, Lp)"), pre=parse("Lc >= 1 and Lp >= 1"))[0]
    except (OutsideFragment, TypeError, KeyError):
        ok = False
    if not ok and len(values) == 1 and isinstance(values[0], ast.BinOp) and isinstance(values[0].op, ast.Mult):
        sides = [values[0].left, values[0].right]
        consts = [x for x in sides if isinstance(x, ast.Constant)]
        maxes = [x for x in sides if isinstance(x, ast.Call) and call_name(x) == "max"]
        if len(consts) == 1 and consts[0].value == 0.2 and len(maxes) == 1:
            args = maxes[0].args[0].elts if len(maxes[0].args) == 1 and isinstance(maxes[0].args[0], (ast.List, ast.Tuple)) \
                else maxes[0].args
            ok = sorted(txt(a) for a in args) == sorted([f"{lengths}[{cur}.hit_id]", f"{lengths}[{prev}.hit_id]"])
    ctx.ob("R13.2", REF, func, qual, "margin", ok, "the margin is 20% of the longer of the two profiles",
           form=str([txt(v) for v in values]))


def _ancestors(node: ast.AST):
    cur = getattr(node, "_parent", None)
    while cur is not None:
        yield cur
        cur = getattr(cur, "_parent", None)


def _tracks_last_kept(cfg: CFG, func: ast.AST, loop: ast.For, prev: str, kept: str):
    """ does `prev` equal kept[-1] whenever the loop body reads it? """
    head = cfg.n(loop)
    body = cfg.loop_body_nodes(loop)
    reads = [n for n in walk_local(loop) if isinstance(n, ast.Name) and n.id == prev and isinstance(n.ctx, ast.Load)]
    rereads = [n for n in walk_local(loop) if isinstance(n, ast.Assign) and txt(n.value) == f"{kept}[-1]"
               and any(isinstance(t, ast.Name) and t.id == prev for t in n.targets)]
    # the last element changes by append(...) and by a store into kept[-1]
    changes = []
    for node in walk_local(loop):
        if isinstance(node, ast.Call) and txt(node.func) == f"{kept}.append" and node.args:
            changes.append((node, txt(node.args[0])))
        elif isinstance(node, ast.Assign) and any(txt(t) == f"{kept}[-1]" for t in node.targets):
            changes.append((node, txt(node.value)))
        elif isinstance(node, ast.Call) and isinstance(node.func, ast.Attribute) and txt(node.func.value) == kept \
                and node.func.attr in ("pop", "insert", "extend", "remove", "clear", "sort", "reverse"):
            changes.append((node, "?"))
    # (a) re-read at the top of every iteration, before any read and before any change
    if rereads:
        first = rereads[0]
        fine = all(cfg.dominates(cfg.n(first), cfg.n(r)) for r in reads) and \
            not any(cfg.n(first) in cfg.reach([cfg.n(c)], within=body) for c, _ in changes)
        if fine:
            return True, f"{prev} = {kept}[-1] at the top of every iteration"
    # (b) kept in step: equal before the loop, and refreshed after every change before the next iteration
    inits = [v for v in bound_from(func, prev) if not any(a is loop for a in _ancestors(v))]
    kept_inits = bound_from(func, kept)
    initial = len(inits) == 1 and len(kept_inits) == 1 and isinstance(kept_inits[0], ast.List) and len(kept_inits[0].elts) == 1 and \
        (txt(kept_inits[0].elts[0]) in (prev, txt(inits[0])) or txt(inits[0]) == f"{kept}[-1]")
    if not initial:
        return False, f"`{prev}` is not read from {kept}[-1] in every iteration and is not initialised to the list's only element"
    for node, value in changes:
        refresh = {cfg.n(a) for a in walk_local(loop) if isinstance(a, ast.Assign)
                   and any(isinstance(t, ast.Name) and t.id == prev for t in a.targets)
                   and txt(a.value) in (value, f"{kept}[-1]")}
        start = cfg.n(node)
        if start in refresh:
            continue
        if head in cfg.reach([start], avoid=refresh, within=body | {head}):
            return False, f"after `{stmt_key(node)}` the next iteration still compares with the old `{prev}`"
    return True, f"{prev} starts as {kept}[-1] and is refreshed after each of {len(changes)} changes of the list"


def _accumulator_not_lost(ctx: Ctx) -> None:
    """ _merge_domain_list folds each profile's hits into an accumulator: whenever the accumulator is overwritten by a value
        that does not contain it (the next hit, too far away to be merged), it must have been added to the result first -
        otherwise the earlier domain vanishes although nothing overlaps it """
    qual = "_merge_domain_list"
    func = ctx.fn(REF, qual)
    cfg = CFG(func)
    appends = [c for c in calls(func) if last_attr(c) == "append" and c.args and isinstance(c.args[0], ast.Name)]
    rets = [r for r in walk_local(func) if isinstance(r, ast.Return) and r.value is not None]
    found = 0
    for loop in [n for n in walk_local(func) if isinstance(n, ast.For) and isinstance(n.target, ast.Name)]:
        cur = loop.target.id
        for node in walk_local(loop):
            if not (isinstance(node, ast.Assign) and isinstance(node.targets[0], ast.Name) and node.targets[0].id != cur):
                continue
            value = node.value
            moves_on = isinstance(value, ast.Name) and value.id == cur or \
                isinstance(value, ast.IfExp) and any(isinstance(arm, ast.Name) and arm.id == cur for arm in (value.body, value.orelse))
            if not moves_on:
                continue
            acc = node.targets[0].id
            if not any(isinstance(c, ast.Call) and last_attr(c) == "merge" and txt(c.func.value) == acc for c in calls(loop)):
                continue
            found += 1
            saves = [cfg.n(a) for a in appends if txt(a.args[0]) == acc and any(x is loop for x in _ancestors(a))]
            # on every path of the iteration that reaches the overwrite, the accumulator was appended first
            head = cfg.n(loop)
            starts = [dst for dst, lab in cfg.succ[head] if lab == "T"]
            lost = any(cfg.n(node) in ({s} | cfg.reach([s], avoid=saves + [head])) for s in starts if s not in saves)
            ctx.ob("R13.2", REF, node, qual, f"`{acc}` saved before it is replaced", not lost,
                   "a hit that cannot be merged with the next hit of its profile is kept: the accumulated hit is added to the "
                   "result before the accumulator moves on",
                   detail="" if not lost else f"`{stmt_key(node)}` overwrites the accumulated hit, which was never added to the result: "
                   "A[0:100) and A[500:600) of a profile of length 100 give only A[500:600)", form=stmt_key(node))
    if not found:
        ctx.ob("R13.2", REF, func, qual, "accumulator saved before it is replaced", True,
               "no accumulator that is overwritten by the next hit", form="", vacuous=True)
    _ = rets


def _groups_are_components(ctx: Ctx, func: ast.AST) -> None:
    """ the overlap groups of a gene's hits are the connected components of 'overlap by more than the threshold': a pair
        that touches two existing groups unites them.  Structurally: the members of an existing group are, somewhere, added
        to another set (X.update(group), X |= group, X.union(group)), or the grouping is delegated to a helper; a loop that
        only ever adds the *pair* to the groups it touches leaves two groups sharing members """
    pairs = [n for n in walk_local(func) if isinstance(n, ast.Set) and len(n.elts) == 2 and all(isinstance(e, ast.Name) for e in n.elts)]
    if not pairs:
        ctx.ob("R13.3", CP, func, "filter_results", "overlap groups are connected components", True,
               "overlap groups are built by a helper", form="no pair-wise grouping in the function", vacuous=True)
        return
    pair_stmt = next(a for a in [pairs[0]] + list(_ancestors(pairs[0])) if isinstance(a, ast.stmt))
    pair_name = txt(pair_stmt.targets[0]) if isinstance(pair_stmt, ast.Assign) else ""
    # names that stand for an existing group: loop / comprehension variables over the list the pairs are appended to
    lists = {txt(c.func.value) for c in calls(func) if last_attr(c) == "append" and c.args and txt(c.args[0]) == pair_name}
    group_vars = set()
    for node in ast.walk(func):
        if isinstance(node, ast.For) and txt(node.iter) in lists:
            group_vars.add(txt(node.target))
        if isinstance(node, (ast.ListComp, ast.GeneratorExp, ast.SetComp)):
            group_vars |= {txt(g.target) for g in node.generators if txt(g.iter) in lists}
    united = []
    for node in walk_local(func):
        if isinstance(node, ast.Call) and last_attr(node) in ("update", "union") and node.args \
                and any(isinstance(x, ast.Name) and x.id in group_vars for a in node.args for x in ast.walk(a)):
            united.append(node)
        if isinstance(node, ast.AugAssign) and isinstance(node.op, ast.BitOr) \
                and any(isinstance(x, ast.Name) and x.id in group_vars for x in ast.walk(node.value)):
            united.append(node)
        if isinstance(node, ast.BinOp) and isinstance(node.op, ast.BitOr) \
                and any(isinstance(x, ast.Name) and x.id in group_vars for x in ast.walk(node)):
            united.append(node)
    ok = bool(lists) and bool(group_vars) and bool(united)
    ctx.ob("R13.3", CP, pair_stmt, "filter_results", "overlap groups are connected components", ok,
           "a pair of overlapping hits that touches two existing groups unites them, so no hit is in two groups",
           detail="" if ok else "the pair is added to every group it touches but the groups are never united: hits p1[0:100) s50, "
           "p1[250:350) s40, p2[70:200) s10, p3[170:280) s20 (in this order) leave two groups sharing members, the second is "
           "emptied by the first one's removals and `members[0]` raises IndexError",
           form="; ".join(txt(u)[:50] for u in united))


def r13_4_5(ctx: Ctx) -> None:
    from ..flow import compares_at, key_function, oriented
    func = ctx.fn(CP, "filter_result_multiple")
    cfg = CFG(func)
    # the store `<scores>[<hit>.query_id] = (.., <hit>, <hit>.bitscore)` and the comparison that guards it
    stores = [n for n in walk_local(func) if isinstance(n, ast.Assign) and isinstance(n.targets[0], ast.Subscript)
              and isinstance(n.value, ast.Tuple) and txt(n.targets[0].slice).endswith(".query_id")
              and any(txt(e).endswith(".bitscore") for e in n.value.elts)]
    ok, form = False, ""
    if len(stores) == 1:
        store = stores[0]
        table, hit = txt(store.targets[0].value), txt(store.targets[0].slice)[:-len(".query_id")]
        pos = [i for i, e in enumerate(store.value.elts) if txt(e) == f"{hit}.bitscore"]
        loop = next((l for l in enclosing_loops(store, stop=func)), None)
        cmps = [oriented(c, lambda e: txt(e) == f"{hit}.bitscore") for c in compares_at(cfg, store, keep={hit}, within=loop)]
        cmps = [c for c in cmps if c is not None]
        form = "; ".join(f"{txt(a)} {op} {txt(b)}" for a, op, b in cmps)
        if len(cmps) == 1 and len(pos) == 1 and cmps[0][1] == ">" and hit in {txt(e) for e in store.value.elts}:
            other = cmps[0][2]
            # the remembered score of the same profile, or something below every score when there is none yet
            if isinstance(other, ast.Subscript) and txt(other.slice) == str(pos[0]) and isinstance(other.value, ast.Call) \
                    and txt(other.value.func) == f"{table}.get" and len(other.value.args) == 2 \
                    and txt(other.value.args[0]) == f"{hit}.query_id" and isinstance(other.value.args[1], ast.Tuple) \
                    and len(other.value.args[1].elts) == len(store.value.elts):
                default = other.value.args[1].elts[pos[0]]
                try:
                    ok = ast.literal_eval(default) < 0
                except (ValueError, TypeError):
                    ok = False
            elif isinstance(other, ast.Name) and loop is not None:
                # the same, spelled as two arms: the remembered score where the profile is in the table, a value below
                # every score where it is not
                from ..flow import fact_texts
                arms = [n for n in walk_local(loop) if isinstance(n, ast.Assign) and txt(n.targets[0]) == other.id]
                seen_kinds = set()
                good = bool(arms)
                for arm in arms:
                    value = arm.value
                    facts = fact_texts(cfg, arm)
                    if isinstance(value, ast.Subscript) and txt(value.slice) == str(pos[0]) \
                            and txt(value.value) == f"{table}[{hit}.query_id]" and f"{hit}.query_id in {table}" in facts:
                        seen_kinds.add("remembered")
                        continue
                    try:
                        below = ast.literal_eval(value) < 0
                    except (ValueError, TypeError):
                        below = False
                    if below and f"not {hit}.query_id in {table}" in facts | {f.replace(" not in ", " in ").replace(f"{hit}", f"not {hit}", 1)
                                                                               for f in facts if " not in " in f}:
                        seen_kinds.add("none yet")
                        continue
                    good = False
                ok = good and seen_kinds == {"remembered", "none yet"}
    ctx.ob("R13.4", CP, stores[0] if stores else func, "filter_result_multiple", "best per profile", ok,
           "per profile the hit with the maximum score is kept, remembered with its index in the gene's hit list", form=form)
    srt = [c for c in calls(func) if call_name(c) == "sorted"]
    ok = False
    if len(srt) == 1 and srt[0].args and len(stores) == 1:
        table = txt(stores[0].targets[0].value)
        stmt = next(a for a in _ancestors(srt[0]) if isinstance(a, ast.stmt))
        source = inline_reaching(cfg, stmt, srt[0].args[0], keep={table})
        if isinstance(source, ast.Call) and call_name(source) in ("set", "list", "tuple") and len(source.args) == 1:
            source = source.args[0]
        leads = False  # do the sorted elements lead with the (unique) index the table remembers first?
        if txt(source) == f"{table}.values()":
            leads = True
        elif isinstance(source, (ast.GeneratorExp, ast.ListComp, ast.SetComp)) and len(source.generators) == 1 \
                and txt(source.generators[0].iter) == f"{table}.values()" and not source.generators[0].ifs:
            var, elt = source.generators[0].target, source.elt
            if isinstance(var, ast.Name):
                leads = txt(elt) == var.id or (isinstance(elt, ast.Subscript) and txt(elt.value) == var.id and isinstance(elt.slice, ast.Slice)
                                               and elt.slice.lower is None and elt.slice.step is None)
            elif isinstance(var, ast.Tuple) and isinstance(elt, ast.Tuple) and elt.elts:
                leads = txt(elt.elts[0]) == txt(var.elts[0])
        key = kwarg(srt[0], "key")
        if key is None:
            ok = leads and kwarg(srt[0], "reverse") is None
        else:
            kf = key_function(ctx.repo, CP, func, key)
            ok = leads and kf is not None and txt(kf[1]) == f"{kf[0]}[0]" and kwarg(srt[0], "reverse") is None
    ctx.ob("R13.4", CP, srt[0] if srt else func, "filter_result_multiple", "positional order restored", ok,
           "the survivors are put back in their original order by sorting (index, hit) pairs, the unique index leading", form="")
    # R13.3 best-of-group does not start from an arbitrary set element
    func = ctx.fn(CP, "filter_results")
    _groups_are_components(ctx, func)
    firsts = [n for n in walk_local(func) if isinstance(n, ast.Subscript) and isinstance(n.value, ast.Call)
              and call_name(n.value) in ("list", "tuple") and txt(n.value.args[0]) == "group"]
    pops = [c for c in calls(func) if last_attr(c) == "pop" and txt(c.func.value) == "group"]  # type: ignore
    nexts = [c for c in calls(func) if call_name(c) == "next" and "group" in txt(c)]
    ctx.ob("R13.3", CP, func, "filter_results", "no arbitrary first element", not firsts and not pops and not nexts,
           "the best hit of an overlapping group is not seeded from an arbitrary element of the set",
           form="; ".join(txt(f) for f in firsts + pops + nexts))
    cfg = CFG(func)
    # `best = <loop variable>` inside a loop: the replacement of the group's best hit
    repl = [n for n in walk_local(func) if isinstance(n, ast.Assign) and isinstance(n.targets[0], ast.Name) and isinstance(n.value, ast.Name)
            and any(isinstance(l, ast.For) and txt(l.target) == n.value.id for l in enclosing_loops(n, stop=func))]
    ok, form = False, ""
    if len(repl) == 1:
        best, hit = repl[0].targets[0].id, repl[0].value.id
        loop = enclosing_loops(repl[0], stop=func)[0]
        cmps = [oriented(c, lambda e: txt(e) == f"{hit}.bitscore") for c in compares_at(cfg, repl[0], keep={best, hit}, within=loop)]
        cmps = [c for c in cmps if c is not None]
        form = "; ".join(f"{txt(a)} {op} {txt(b)}" for a, op, b in cmps)
        ok = len(cmps) == 1 and cmps[0][1] == ">" and txt(cmps[0][2]) == f"{best}.bitscore"
    ctx.ob("R13.3", CP, repl[0] if repl else func, "filter_results", "strict replacement", ok,
           "the best hit is replaced only by a strictly better score", form=form)
    # the pairing of two hits into an overlap group is guarded by overlap size > 20
    pairs = [n for n in walk_local(func) if isinstance(n, ast.Set) and len(n.elts) == 2 and all(isinstance(e, ast.Name) for e in n.elts)]
    ok, form = False, ""
    if len(pairs) == 1:
        stmt = next(a for a in [pairs[0]] + list(_ancestors(pairs[0])) if isinstance(a, ast.stmt))
        members = {e.id for e in pairs[0].elts}
        is_size = lambda e: isinstance(e, ast.Call) and call_name(e) == "hsp_overlap_size" and {txt(a) for a in e.args} == members
        cmps = [oriented(c, is_size) for c in compares_at(cfg, stmt, keep=members)]
        cmps = [c for c in cmps if c is not None]
        form = "; ".join(f"{txt(a)} {op} {txt(b)}" for a, op, b in cmps)
        ok = len(cmps) == 1 and (cmps[0][1], txt(cmps[0][2])) in ((">", "20"), (">=", "21"))
    ctx.ob("R13.3", CP, pairs[0] if pairs else func, "filter_results", "overlap threshold", ok,
           "hits compete only when they overlap by more than 20 positions", form=form)
    # R13.5 running maximum in hmmer.remove_overlapping
    func = ctx.fn(HMMER, "remove_overlapping")
    cfg = CFG(func)
    # the grouping sweep: the loop that adds its variable to the in-progress set
    loops = [n for n in walk_local(func) if isinstance(n, ast.For) and isinstance(n.target, ast.Name) and isinstance(n.iter, ast.Name)
             and any(last_attr(c) == "add" and c.args and txt(c.args[0]) == n.target.id for c in calls(n))]
    if len(loops) != 1:
        raise AnalysisError("hmmer.remove_overlapping: grouping loop not found")
    loop = loops[0]
    hit, swept = loop.target.id, loop.iter.id
    adds = [c for c in calls(loop) if last_attr(c) == "add" and c.args and txt(c.args[0]) == hit]
    add_stmt = next(a for a in _ancestors(adds[0]) if isinstance(a, ast.stmt))
    ends = {t.id for n in walk_local(loop) if isinstance(n, ast.Assign) for t in n.targets if isinstance(t, ast.Name)
            and f"{hit}.protein_end" in txt(n.value)}
    if len(ends) != 1:
        raise AnalysisError("hmmer.remove_overlapping: the group's extent local was not found")
    extent = sorted(ends)[0]
    updates = [n for n in walk_local(loop) if isinstance(n, ast.Assign) and txt(n.targets[0]) == extent]
    same_group = [u for u in updates if cfg.exists_path(cfg.n(add_stmt), cfg.n(u), avoid=[cfg.n(loop)])
                  or cfg.exists_path(cfg.n(u), cfg.n(add_stmt), avoid=[cfg.n(loop)])]
    base = {(txt(e), t) for e, t in path_facts(cfg, add_stmt)}

    def running_max(update: ast.Assign) -> bool:
        extra = [(e, t) for e, t in path_facts(cfg, update) if (txt(e), t) not in base]
        if same_operands(update.value, "max", [extent, f"{hit}.protein_end"]):
            return not extra
        if txt(update.value) == f"{hit}.protein_end" and len(extra) == 1:
            cmp_ = effective_compare(extra[0][0], extra[0][1])
            cmp_ = oriented(cmp_, lambda e: txt(e) == f"{hit}.protein_end") if cmp_ else None
            return cmp_ is not None and cmp_[1] in (">", ">=") and txt(cmp_[2]) == extent
        return False
    ok = bool(same_group) and all(running_max(u) for u in same_group)
    ctx.ob("R13.5", HMMER, same_group[0] if same_group else loop, "remove_overlapping", "running extent", ok,
           "while hits join the current group its extent is the running maximum of their ends (a short nested hit must not "
           "pull it back)", form="; ".join(stmt_key(u) for u in same_group))
    new_group = [u for u in updates if u not in same_group]
    ok, form = False, "; ".join(stmt_key(u) for u in new_group)
    if len(new_group) == 1 and txt(new_group[0].value) == f"{hit}.protein_end":
        limit = func.args.args[2].arg if len(func.args.args) > 2 else "overlap_limit"
        mapping = {f"{hit}.protein_start": "S", extent: "E", limit: "L"}
        conds = []
        for expr, truth in path_facts(cfg, new_group[0]):
            if any(a is loop for a in _ancestors(expr)):
                conds.append(expr if truth else ast.UnaryOp(op=ast.Not(), operand=expr))
        if conds:
            cond = conds[0] if len(conds) == 1 else ast.BoolOp(op=ast.And(), values=conds)
            try:
                ok, cex, _ = decide(rename(inline_reaching(cfg, new_group[0], cond, keep={extent, hit, limit}), mapping), parse("S > E - L"))
                form += f" when {txt(cond)}" + (f"; differs at {cex}" if cex else "")
            except OutsideFragment as err:
                ok, form = False, form + f" ({err})"
    ctx.ob("R13.5", HMMER, new_group[0] if new_group else loop, "remove_overlapping", "group boundary", ok,
           "a new group starts, and the extent is reset, only when the next hit starts beyond the extent minus the limit",
           form=form)
    ok = False
    srt = []
    for v in bound_from(func, swept):
        srt.append(txt(v))
        if isinstance(v, ast.Call) and call_name(v) == "sorted" and kwarg(v, "key") is not None:
            key = key_function(ctx.repo, HMMER, func, kwarg(v, "key"))
            if key is not None:
                param, body = key
                first = body.elts[0] if isinstance(body, ast.Tuple) and body.elts else body
                ok = ok or txt(first) == f"{param}.protein_start"
    ctx.ob("R13.5", HMMER, func, "remove_overlapping", "sweep sorted by start", ok,
           "the grouping sweep runs over hits sorted by start (ties may be broken by further keys)", form=str(srt))
    rk = ctx.fn(HMMER, "remove_overlapping.ranking_stats")
    ret = [r for r in walk_local(rk) if isinstance(r, ast.Return)]
    param = rk.args.args[0].arg if rk.args.args else "hit"
    want = [f"normalised[{param}]", f"1 / len({param})", f"{param}.protein_start", f"{param}.identifier"]
    bound_here = {n.id for n in ast.walk(rk) if isinstance(n, ast.Name) and isinstance(n.ctx, ast.Store)} | \
        {a.arg for a in rk.args.args}
    free = {n.id for n in ast.walk(rk) if isinstance(n, ast.Name) and isinstance(n.ctx, ast.Load)} - bound_here
    value = inline_reaching(CFG(rk), ret[0], ret[0].value, keep=free) if len(ret) == 1 else None
    ok = isinstance(value, ast.Tuple) and [txt(e) for e in value.elts] == want
    ctx.ob("R13.5", HMMER, rk, "remove_overlapping.ranking_stats", "ranking key", ok,
           "hits compete by (normalised score, length, start, identifier): equal keys mean interchangeable hits", form="")
    ret_sorted = [r for r in walk_local(func) if isinstance(r, ast.Return) and r.value is not None and "sorted(cleaned" in txt(r.value)]
    ctx.ob("R13.5", HMMER, func, "remove_overlapping", "result ordered by position", bool(ret_sorted),
           "the result is ordered by position", form="")


def r13_6(ctx: Ctx) -> None:
    """ the fallback of remove_incomplete keeps 'the most complete alternative': the fragment it offers is the one that
        maximises the share of its own profile that it covers (length / profile length) - the same measure the fallback
        threshold is applied to.  Choosing by absolute length instead returns a less complete fragment of a longer profile,
        or nothing at all when that fragment is under the threshold while a shorter profile's fragment is over it. """
    from ..flow import inline_reaching, key_function
    qual = "remove_incomplete"
    func = ctx.fn(REF, qual)
    cfg = CFG(func)
    if len(func.args.args) < 2:
        raise AnalysisError(f"{qual}: unexpected signature")
    lengths = func.args.args[1].arg

    def proportional(expr: ast.AST) -> bool:
        text = txt(expr)
        return "len(" in text and f"{lengths}[" in text
    found = 0
    for call in calls(func):
        if call_name(call) in ("max", "sorted") and kwarg(call, "key") is not None:
            key = kwarg(call, "key")
            if isinstance(key, ast.Name) and key.id == "len":
                body: Optional[ast.AST] = ast.parse("len(x)", mode="eval").body
            else:
                kf = key_function(ctx.repo, REF, func, key)
                body = kf[1] if kf else None
            found += 1
            ok = body is not None and proportional(body)
            ctx.ob("R13.6", REF, call, qual, f"fallback choice {txt(call)[:50]}", ok,
                   "the fragment offered by the fallback maximises length / profile length, the measure the fallback threshold "
                   "applies to", detail="" if ok else "chosen by a key that ignores the profile length: profiles short (100) and "
                   "long (300), fragments short[10:50) (0.40) and long[100:190) (0.30): nothing is returned although short's fragment "
                   "is over the threshold", form=txt(key)[:80])
    from ..flow import effective_compare, path_facts as _pf
    for loop in [n for n in walk_local(func) if isinstance(n, ast.For)]:
        for store in [n for n in walk_local(loop) if isinstance(n, ast.Assign) and len(n.targets) == 1
                      and isinstance(n.targets[0], ast.Name)]:
            best, measure = store.targets[0].id, store.value
            # a running best: the store happens under a comparison of the stored measure with the best so far
            governed = False
            for expr, truth in _pf(cfg, store):
                cmp_ = effective_compare(expr, truth)
                if cmp_ is None or cmp_[1] not in ("<", ">", "<=", ">="):
                    continue
                sides = {txt(cmp_[0]), txt(cmp_[2])}
                if sides == {best, txt(measure)}:
                    governed = True
            if not governed:
                continue
            found += 1
            resolved = inline_reaching(cfg, store, measure)
            ok = proportional(resolved)
            ctx.ob("R13.6", REF, store, qual, f"running best `{best}`", ok,
                   "the fragment offered by the fallback maximises length / profile length, the measure the fallback "
                   "threshold applies to", detail="" if ok else f"the running best is `{txt(resolved)[:60]}`",
                   form=txt(resolved)[:100])
    if found < 1:
        raise AnalysisError(f"{qual}: how the fallback chooses its fragment was not recognised")


def r13_7(ctx: Ctx) -> None:
    """ "the per-gene competition between equivalent detection profiles": only hits of the profiles of one equivalence
        group compete with each other.  The pairs that form the overlap groups are drawn from hits filtered by membership
        of their profile in the group under consideration (in the source of both loops, or as a test on the way to the
        pair) - drawn from all hits of the gene, a hit of an unrelated profile that overlaps a member loses against it. """
    from ..loopview import iteration_sources
    from ..flow import path_facts as _pf
    qual = "filter_results"
    func = ctx.fn(CP, qual)
    cfg = CFG(func)
    groups_param = func.args.args[2].arg if len(func.args.args) > 2 else "equivalence_groups"
    group_vars = {txt(lp.target) for lp in walk_local(func) if isinstance(lp, ast.For) and txt(lp.iter) == groups_param}
    pairs = [n for n in walk_local(func) if isinstance(n, ast.Set) and len(n.elts) == 2 and all(isinstance(e, ast.Name) for e in n.elts)]
    if not pairs or not group_vars:
        raise AnalysisError(f"{qual}: the pair-wise grouping of overlapping hits (or the loop over the equivalence groups) was not found")
    pair = pairs[0]
    stmt = next(a for a in [pair] + list(_ancestors(pair)) if isinstance(a, ast.stmt))
    facts = [(txt(e), t) for e, t in _pf(cfg, stmt)]
    for member in (e.id for e in pair.elts):   # type: ignore[attr-defined]
        restricted = any(t and any(text == f"{member}.query_id in {g}" for g in group_vars) for text, t in facts)
        for loop in [lp for lp in enclosing_loops(stmt, stop=func) if isinstance(lp, ast.For) and txt(lp.target) == member]:
            _, filters = iteration_sources(func, cfg, loop)
            restricted = restricted or any(txt(cond) == f"{name}.query_id in {g}" for name, cond in filters for g in group_vars)
        ctx.ob("R13.7", CP, stmt, qual, f"competitor `{member}` is of the equivalence group", restricted,
               "hits compete only with hits of equivalent profiles",
               detail="" if restricted else "pairs are drawn from every hit of the gene: with P and Q equivalent (not overlapping) and an "
               "unrelated R overlapping P with a lower score, R is removed - and survives once Q is absent", form="; ".join(
                   ("" if t else "not ") + text[:50] for text, t in facts)[:160])


def run(ctx: Ctx) -> None:
    ctx.rule("R13.2", "interval kernels of the hit classes; greedy filter shapes", floor=9)
    ctx.rule("R13.3", "best-of-group selection is deterministic and strict", floor=3)
    ctx.rule("R13.4", "per-profile best hit and positional order", floor=2)
    ctx.rule("R13.5", "grouping sweep keeps a running maximum; ranking key", floor=5)
    r13_2(ctx)
    r13_4_5(ctx)
    ctx.rule("R13.6", "the fallback offers the proportionally most complete fragment", floor=1)
    r13_6(ctx)
    ctx.rule("R13.7", "only hits of equivalent profiles compete in filter_results", floor=2)
    r13_7(ctx)
    statement = "no set's iteration order reaches the position-sorted hit lists of the refinement"
    family_e.run_for(ctx, "R13.1", [CP, DOMID], floor=1, statement=statement,
                     only_functions={"filter_results", "filter_result_multiple", "hsp_overlap_size", "find_hmmer_hits",
                                     "filter_nonterminal_docking_domains"})
    family_e.run_for(ctx, "R13.1", [REF, HMMER], floor=4, statement=statement)
