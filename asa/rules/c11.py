""" C11 Reusing saved module results reproduces the original results """

from __future__ import annotations

import ast
from typing import Dict, List, Optional, Set, Tuple

from ..astutil import arg_of, call_name, calls, enclosing_loops, guards, kwarg, last_attr, stmt_key, txt, walk_local
from ..cfg import CFG
from ..flow import bound_from, provenance
from ..index import AnalysisError, ClassInfo, _walk_functions, dotted
from ..report import Ctx
from .jsonkeys import read_keys, written_keys

PROP = "C11"
ANCHORED = [
    "antismash/common/hmm_rule_parser/cluster_prediction.py", "antismash/common/hmm_rule_parser/structures.py",
    "antismash/detection/hmm_detection/__init__.py", "antismash/detection/sideloader/data_structures.py",
    "antismash/detection/nrps_pks_domains/domain_identification.py", "antismash/detection/nrps_pks_domains/module_identification.py",
    "antismash/common/hmmer.py", "antismash/common/hmmscan_refinement.py", "antismash/modules/tta/tta.py",
]
HD = "antismash/detection/hmm_detection/__init__.py"
TTA = "antismash/modules/tta/tta.py"
MAIN = "antismash/main.py"

EXPLANATION = (
    "R11.1 table agreement of every to_json/from_json pair: keys read mandatorily on reload are written on save "
    "(unconditionally, or under a condition the read is guarded by); tables are extracted per object level from the "
    "returned object / the JSON parameter, with super() merging and static resolution of vars(self), dataclass fields "
    "and __slots__ writers; pairs with open-ended writers are listed as not analysable. R11.2 every ModuleResults "
    "subclass refuses or discards results of another schema version and of another record. R11.3 "
    "regenerate_previous_results reaches from_json, and every comparison of a stored setting with the current option "
    "has a mismatch arm that raises, returns None, or keeps the stored value while warning. R11.4 a results object "
    "regenerated under a current setting records that same current setting (the value that gated the decisions)."
    ' R11.6: sibling agreement - HmmerResults.refilter keeps a hit under the same (exclusive) comparisons as build_hits.'
)
UNDECIDED = [
    "byte-identical regenerated JSON for every results object",
    "equality of the record effects (features, annotations) of original and regenerated results",
    "value-level conversions (types, ordering) inside nested structures",
]
TRUSTED = ["CPython ast", "asa.cfg", "class MRO resolution of asa.index"]

# optional reads of keys that the current writer no longer writes: backward compatibility with older result files
COMPAT: Dict[Tuple[str, str], str] = {}


def pairs(ctx: Ctx, files: List[str]):
    for name, infos in sorted(ctx.repo.classes.items()):
        for info in infos:
            if info.module.rel not in files:
                continue
            tj = ctx.repo.method(info, "to_json", inherited=False)
            fj = ctx.repo.method(info, "from_json", inherited=False)
            if tj and fj:
                yield info, tj[1], fj[1]


def r11_1(ctx: Ctx) -> None:
    files = ANCHORED if ctx.tier == "quick" else sorted(ctx.repo.modules)
    analysed = 0
    for info, tj, fj in pairs(ctx, files):
        rel = info.module.rel
        ctx.repo.consulted.add(rel)
        qual = f"{info.name}.from_json"
        ctx.functions.add(f"{rel}::{info.name}.to_json")
        ctx.functions.add(f"{rel}::{qual}")
        written = written_keys(ctx.repo, info, tj)
        read = read_keys(fj)
        if written.dynamic or written.shape != "dict":
            ctx.notes.append(f"not analysable: {rel}::{info.name} ({written.dynamic or written.shape})")
            if ctx.tier == "quick":
                # anchored pairs must be analysable, otherwise the rule silently loses its subject
                if read.keys and not read.passthrough:
                    missing = [k for k, m in read.keys.items() if m and k not in written.keys]
                    ctx.ob("R11.1", rel, fj, qual, "pair", not missing or bool(written.dynamic), 
                           "keys read on reload are written on save (writer partly dynamic: only its static keys are compared)",
                           form=f"dynamic writer: {written.dynamic}; static keys {sorted(written.keys)}", vacuous=True)
            continue
        analysed += 1
        if not read.keys:
            ctx.ob("R11.1", rel, fj, qual, "pair", True, "reload reads no literal top-level key (delegates or passes through)",
                   form=f"written={sorted(written.keys)} passthrough={read.passthrough}", vacuous=True)
            continue
        for key, mandatory in sorted(read.keys.items()):
            if key in written.keys:
                ok = written.keys[key] or not mandatory or _guarded_same(tj, key)
                ctx.ob("R11.1", rel, fj, qual, f"key '{key}'", ok,
                       "a key that reload requires is written on every save",
                       detail="" if ok else f"'{key}' is read unconditionally but written only conditionally",
                       form=f"read {'mandatory' if mandatory else 'optional'}; written {'always' if written.keys[key] else 'conditionally'}")
            elif mandatory:
                ctx.ob("R11.1", rel, fj, qual, f"key '{key}'", False,
                       "a key that reload requires is written on save",
                       detail=f"'{key}' is read without default but never written by {info.name}.to_json "
                              f"(written: {sorted(written.keys)})", form="read mandatory; not written")
            else:
                ctx.ob("R11.1", rel, fj, qual, f"key '{key}'", True,
                       "an optional key absent from current output falls back to its default (older result files)",
                       form="read optional; not written", vacuous=True)
    ctx.notes.append(f"pairs analysed: {analysed}")


def _guarded_same(tj: ast.FunctionDef, key: str) -> bool:
    return False


def module_results_classes(ctx: Ctx) -> List[ClassInfo]:
    found = [c for c in ctx.repo.subclasses("ModuleResults") if ctx.repo.method(c, "from_json", inherited=False)
             and ctx.repo.method(c, "to_json", inherited=False)]
    # nested result containers that carry their own schema version
    for infos in ctx.repo.classes.values():
        for info in infos:
            if info in found or not ctx.repo.method(info, "from_json", inherited=False):
                continue
            if any(isinstance(n, ast.Assign) and txt(n.targets[0]) == "schema_version" for n in info.node.body):
                found.append(info)
    return sorted(found, key=lambda c: c.qual)


SCHEMA_TABLED = {
    "CassisResults": "the class has no schema_version at all: its JSON carries no version (recorded as a deviation from the "
                     "21 sibling classes; reuse across incompatible versions is not refused)",
}


def _refusal_literals(func: ast.AST):
    """ [(raise / `return None` statement, literals on every path to it - raw and with locals resolved)] """
    from ..flow import facts_nnf, nnf_literals, path_facts, resolved_facts
    cfg = CFG(func)
    out = []
    for node in walk_local(func):
        if isinstance(node, ast.Raise) or (isinstance(node, ast.Return) and (node.value is None or txt(node.value) == "None")):
            lits = nnf_literals(facts_nnf(path_facts(cfg, node))) | nnf_literals(resolved_facts(cfg, node))
            out.append((node, lits))
    return out


def r11_2(ctx: Ctx) -> None:
    every = module_results_classes(ctx)
    classes = [c for c in every if c.module.rel in ANCHORED]
    if ctx.tier == "thorough":
        # package-wide sibling cross-check, reported as a note only: the modules outside the property's anchors are not claimed
        for info in every:
            if info in classes:
                continue
            fj = ctx.repo.method(info, "from_json", inherited=False)[1]
            text = txt(fj)
            has_schema = "schema_version" in text or '"schema"' in text
            has_record = "record.id" in text
            if not (has_schema and has_record):
                ctx.notes.append(f"sibling deviation (not claimed): {info.module.rel}::{info.name}.from_json "
                                 f"schema guard={has_schema} record guard={has_record}")
    if len(classes) < 4:
        raise AnalysisError(f"expected ModuleResults subclasses in the anchored modules, found {len(classes)}")
    for info in classes:
        rel = info.module.rel
        ctx.repo.consulted.add(rel)
        fj = ctx.repo.method(info, "from_json", inherited=False)[1]
        qual = f"{info.name}.from_json"
        ctx.functions.add(f"{rel}::{qual}")
        param = [a.arg for a in fj.args.args if a.arg not in ("cls", "self")][0]
        # schema guard
        found = False
        refusals = _refusal_literals(fj)
        for node, lits in refusals:
            for text, truth in lits:
                if "schema_version" in text and " == " in text and not truth:
                    if f"{param}[" in text or f"{param}.get(" in text:
                        found = True
                    else:
                        # the stored version may be named first (with a default for results that predate the field)
                        try:
                            names = {n.id for n in ast.walk(ast.parse(text, mode="eval")) if isinstance(n, ast.Name)}
                        except SyntaxError:
                            names = set()
                        for name in names:
                            if any("schema_version" in txt(v) and (f"{param}[" in txt(v) or f"{param}.get(" in txt(v))
                                   for v in bound_from(fj, name)):
                                found = True
        for node in walk_local(fj):
            if isinstance(node, ast.Assert) and "schema_version" in txt(node.test) and "==" in txt(node.test):
                found = True
        if not found and info.name in SCHEMA_TABLED:
            ctx.ob("R11.2", rel, fj, qual, "schema guard", False,
                   "results stored under another schema version are refused (raise) or discarded (return None)",
                   detail=SCHEMA_TABLED[info.name])
        else:
            ctx.ob("R11.2", rel, fj, qual, "schema guard", found,
                   "results stored under another schema version are refused (raise) or discarded (return None)", form="")
        # record guard
        found = False
        for node, lits in refusals:
            for text, truth in lits:
                if "record.id" in text and (f"{param}[" in text or f"{param}.get(" in text) and " == " in text and not truth:
                    found = True
        for node in walk_local(fj):
            if isinstance(node, ast.Assert) and "record.id" in txt(node.test) and (
                    f"{param}[" in txt(node.test) or f"{param}.get(" in txt(node.test)):
                found = True
        form = "in from_json"
        if not ctx.repo.is_subclass(info, "ModuleResults"):
            continue   # nested container: the record guard belongs to the enclosing module results
        if not found:
            # equivalent refusal when the results are applied to a record
            add = ctx.repo.method(info, "add_to_record", inherited=False)
            if add and any(isinstance(n, ast.If) and "record.id" in txt(n.test) and "self.record_id" in txt(n.test)
                           and any(isinstance(s, ast.Raise) for s in n.body) for n in walk_local(add[1])):
                found = True
                form = "refused by add_to_record (record.id != self.record_id raises)"
        ctx.ob("R11.2", rel, fj, qual, "record guard", found,
               "results stored for another record are refused or discarded", form=form)


def r11_3(ctx: Ctx) -> None:
    func = ctx.fn(HD, "regenerate_previous_results", inline=True)
    cfg = CFG(func)
    fjs = [c for c in calls(func) if last_attr(c) == "from_json"]
    ok = len(fjs) == 1 and cfg.postdominates(cfg.n(fjs[0]), cfg.entry) is False and \
        all(cfg.n(fjs[0]) in cfg.dominators().get(cfg.n(r), set()) for r in walk_local(func)
            if isinstance(r, ast.Return) and txt(r.value) != "None")
    ctx.ob("R11.3", HD, fjs[0] if fjs else func, "regenerate_previous_results", "reaches from_json", ok,
           "every regenerated result comes from the class's from_json", form=txt(fjs[0]) if fjs else "")
    settings = 0
    for node in walk_local(func):
        if not isinstance(node, ast.If):
            continue
        from ..flow import inline_reaching
        stored = {txt(t) for n in walk_local(func) if isinstance(n, ast.Assign) and n.value in fjs for t in n.targets}
        test = txt(inline_reaching(cfg, node, node.test, keep=stored))
        if "options" not in test or not any(name in test for name in stored):
            continue
        settings += 1
        body = node.body
        raises = any(isinstance(s, ast.Raise) for s in body)
        returns_none = any(isinstance(s, ast.Return) and txt(s.value) == "None" for s in body)
        warns = any(isinstance(s, ast.Expr) and "logging.warning" in txt(s) for s in body)
        substitutes = any(isinstance(s, ast.Assign) and txt(s.targets[0]).startswith(tuple(f"{name}." for name in stored))
                          and "options." in txt(s.value) for s in body)
        ok = (raises or returns_none or warns) and not substitutes
        if ok and (raises or returns_none):
            # a refusing test has to be two-sided: stored != current (a subset / ordering test lets one direction through)
            resolved = inline_reaching(cfg, node, node.test, keep=stored)
            core = resolved.operand if isinstance(resolved, ast.UnaryOp) and isinstance(resolved.op, ast.Not) else resolved
            two_sided = isinstance(core, ast.Compare) and len(core.ops) == 1 and isinstance(core.ops[0], (ast.Eq, ast.NotEq))
            if not two_sided:
                ctx.ob("R11.3", HD, node, "regenerate_previous_results", f"setting test {test[:70]} [two-sided]", False,
                       "results saved under a different setting are refused whichever way the setting differs: the test is an "
                       "(in)equality of the stored and the current value", detail=f"`{txt(core)[:90]}` is not an equality test",
                       form=txt(core)[:120])
        ctx.ob("R11.3", HD, node, "regenerate_previous_results", f"setting test {test[:70]}", ok,
               "a stored setting that differs from the current option makes reuse fail, be discarded, or keeps the stored "
               "value with a warning - never silently substitutes the new option into old results",
               form=("raise" if raises else "return None" if returns_none else "warn and keep stored" if warns else "falls through"))
    if settings < 4:
        raise AnalysisError(f"regenerate_previous_results: expected at least 4 setting comparisons, found {settings}")
    hd_from = ctx.fn(HD, "HMMDetectionResults.from_json")
    nested = {txt(t) for n in walk_local(hd_from) if isinstance(n, ast.Assign) and isinstance(n.value, ast.Call)
              and last_attr(n.value) == "from_json" for t in n.targets}
    ok = any(isinstance(node, ast.Raise) and any((f"{name} is None", True) in lits for name in nested)
             for node, lits in _refusal_literals(hd_from))
    ctx.ob("R11.3", HD, hd_from, "HMMDetectionResults.from_json", "nested refusal propagates", ok,
           "when the nested rule results refuse their schema version the whole result is refused", form="")
    # main.run_module: regenerate first, run with the regenerated results
    run = ctx.fn(MAIN, "run_module")
    cfg = CFG(run)
    regen = [c for c in calls(run) if last_attr(c) == "regenerate_previous_results"]
    runs = [c for c in calls(run) if last_attr(c) == "run_on_record"]
    ok = len(regen) == 1 and len(runs) == 1 and txt(runs[0].args[1]) == "results" and \
        [txt(a) for a in regen[0].args] == ["previous_results", "record", "options"]
    ctx.ob("R11.3", MAIN, run, "run_module", "regenerate then run", ok,
           "saved results are regenerated against the same record and handed to the module's run", form="")


def r11_4(ctx: Ctx) -> None:
    """ TTA: the threshold stored in regenerated results is the threshold that gated the decisions """
    qual = "TTAResults.from_json"
    func = ctx.fn(TTA, qual)
    ctor = [c for c in calls(func) if call_name(c) == "TTAResults"]
    if len(ctor) != 1:
        raise AnalysisError("TTAResults.from_json: constructor call not found")
    thr = arg_of(ctor[0], 2, "threshold")
    prov_ctor = provenance(func, thr) if thr is not None else set()
    current = any(p.endswith("tta_threshold") for p in prov_ctor)
    stored = any("json" in p or "threshold]" in p for p in prov_ctor) or "json[" in txt(thr)
    # the decisions, read off the returns: what each return is conditioned on (tests resolved through locals), whatever
    # the nesting or merging of the `if`s
    from ..flow import inline_reaching, path_facts
    cfg = CFG(func)

    def conditions(ret: ast.Return) -> List[str]:
        out = []
        for expr, truth in path_facts(cfg, ret):
            anchor = expr if hasattr(expr, "_parent") else ret
            out.append(txt(inline_reaching(cfg, anchor, expr)).replace("'", '"'))
        return out
    rets = [r for r in walk_local(func) if isinstance(r, ast.Return)]
    gated = [(r, conditions(r)) for r in rets]
    gated = [(r, conds) for r, conds in gated if any("gc_content" in c for c in conds)]
    skips = [(r, conds) for r, conds in gated if r.value is not None and txt(r.value) != "None"]
    gate_current = bool(skips) and all(any("gc_content" in c and "tta_threshold" in c for c in conds)
                                       and not any("gc_content" in c and 'json["threshold"]' in c and "tta_threshold" not in c for c in conds)
                                       for _, conds in skips)
    ctx.ob("R11.4", TTA, ctor[0], qual, "recorded threshold", current and not stored and gate_current,
           "the regenerated results are gated by the current threshold and record that same threshold; recording the stored "
           "one would let results skipped under a high threshold look like a completed analysis later",
           form=f"constructor threshold <- {sorted(prov_ctor)}; {len(skips)} skipping return(s) gated by the current option: {gate_current}")
    reruns = [(r, conds) for r, conds in gated if r.value is None or txt(r.value) == "None"]
    ok = any(any('json["threshold"]' in c for c in conds) and any("tta_threshold" in c for c in conds) for _, conds in reruns)
    ctx.ob("R11.4", TTA, reruns[0][0] if reruns else func, qual, "skipped results are redone", ok,
           "results that were skipped under the stored threshold but would run under the current one are discarded (rerun)",
           form="; ".join(reruns[0][1])[:160] if reruns else "")


RECORD = "antismash/common/secmet/record.py"
INPUT_ONLY = {"_sources": "source features come from the input only", "_genes": "gene features come from the input only",
              "_cds_features": "genes are kept; their antiSMASH annotations are stripped per gene (feature.strip_antismash_annotations)"}


def r11_5(ctx: Ctx) -> None:
    """ reuse starts from the saved record with everything antiSMASH added removed: every feature list of the record that can
        hold antiSMASH-made features is emptied or filtered by `created_by_antismash` in strip_antismash_annotations -
        otherwise regenerated results add their features a second time """
    func = ctx.fn(RECORD, "Record.all_features")
    lists = [n.attr for n in ast.walk(func) if isinstance(n, ast.Attribute) and isinstance(n.value, ast.Name) and n.value.id == "self"
             and n.attr.startswith("_")]
    if len(lists) < 8:
        raise AnalysisError(f"Record.all_features: expected the chained feature lists, found {lists}")
    strip = ctx.fn(RECORD, "Record.strip_antismash_annotations")
    handled = set()
    for call in calls(strip):
        name = last_attr(call)
        if name.startswith("clear_") and isinstance(call.func, ast.Attribute) and txt(call.func.value) == "self":
            # what the clearing method empties: lists it calls .clear() on or re-binds, itself or through other clear_* methods
            seen, todo = set(), [name]
            while todo:
                cur = todo.pop()
                if cur in seen:
                    continue
                seen.add(cur)
                try:
                    target = ctx.fn(RECORD, f"Record.{cur}")
                except AnalysisError:
                    continue
                for node in walk_local(target):
                    if isinstance(node, ast.Call) and last_attr(node) == "clear" and txt(node.func.value).startswith("self._"):
                        handled.add(txt(node.func.value)[len("self."):])
                    if isinstance(node, ast.Assign) and txt(node.targets[0]).startswith("self._") and isinstance(node.value, (ast.List, ast.ListComp)):
                        handled.add(txt(node.targets[0])[len("self."):])
                    if isinstance(node, ast.Call) and last_attr(node).startswith("clear_") and txt(node.func.value) == "self":
                        todo.append(last_attr(node))
    for node in walk_local(strip):
        if isinstance(node, ast.Assign) and txt(node.targets[0]).startswith("self._") and "created_by_antismash" in txt(node.value):
            handled.add(txt(node.targets[0])[len("self."):])
    for lst in lists:
        ok = lst in handled or lst in INPUT_ONLY
        ctx.ob("R11.5", RECORD, strip, "Record.strip_antismash_annotations", f"{lst} stripped", ok,
               "every feature list that modules add to is emptied, or filtered by `created_by_antismash`, before saved results "
               "are regenerated and added again",
               detail="" if ok else "TTA codon markers (misc_features made by antiSMASH) are saved with the record, survive the strip "
               "and are added a second time by the regenerated TTA results: [3:6) appears twice after --reuse-results",
               form=INPUT_ONLY.get(lst, "emptied or filtered" if ok else "not touched"))


def _anc11(node: ast.AST):
    cur = getattr(node, "_parent", None)
    while cur is not None:
        yield cur
        cur = getattr(cur, "_parent", None)


def r11_6(ctx: Ctx) -> None:
    """ sibling agreement of the run-time and the reuse-time filter of hmmer hits: results saved under lenient thresholds
        and refiltered on reuse must be the results a fresh run with the stricter thresholds gives, so both filters keep
        a hit under the same comparisons with the same strictness """
    from ..flow import effective_compare
    hm = "antismash/common/hmmer.py"
    build = ctx.fn(hm, "build_hits")
    refilter = ctx.fn(hm, "HmmerResults.refilter")

    from ..flow import literals, path_facts
    swap = {"<": ">", "<=": ">=", ">": "<", ">=": "<="}

    def kept(func: ast.AST) -> Dict[str, str]:
        """ quantity -> operator (hit quantity on the left) under which a hit is kept: read off the conditions of the
            place where a hit is kept - the `if` of a comprehension, or the path to an append inside the loop over hits """
        facts: List[Tuple[ast.AST, bool]] = []
        for node in ast.walk(func):
            if isinstance(node, (ast.ListComp, ast.GeneratorExp)) and any("evalue" in txt(c) for g in node.generators for c in g.ifs):
                for g in node.generators:
                    for cond in g.ifs:
                        facts += literals(cond, True)
        if not facts:
            cfg = CFG(func)
            for call in calls(func):
                if last_attr(call) == "append" and enclosing_loops(call, stop=func):
                    stmt = next(a for a in _anc11(call) if isinstance(a, ast.stmt))
                    found = [(e, t) for e, t in path_facts(cfg, stmt) if "evalue" in txt(e) or "score" in txt(e)]
                    if any("evalue" in txt(e) for e, _ in found):
                        for e, t in found:
                            facts += literals(e, t)
        out: Dict[str, str] = {}
        for expr, truth in facts:
            cmp_ = effective_compare(expr, truth)
            if cmp_ is None or cmp_[1] not in swap:
                continue
            left, op, right = cmp_
            if isinstance(right, ast.Attribute) and isinstance(left, ast.Name):
                left, op, right = right, swap[op], left
            for quantity, names in (("score", ("score", "bitscore")), ("evalue", ("evalue",))):
                if isinstance(left, ast.Attribute) and left.attr in names and not txt(left).startswith("self.") \
                        and isinstance(right, ast.Name) and ("min_score" in right.id or "max_evalue" in right.id):
                    out[quantity] = op
        return out
    fresh = kept(build)
    reuse = kept(refilter)
    if set(fresh) != {"score", "evalue"} or set(reuse) != {"score", "evalue"}:
        raise AnalysisError(f"R11.6: threshold comparisons not found (run-time {fresh}, reuse {reuse})")
    for quantity in ("score", "evalue"):
        ctx.ob("R11.6", hm, refilter, "HmmerResults.refilter", f"{quantity} threshold as strict as at run time", fresh[quantity] == reuse[quantity],
               "the reuse-time filter keeps a hit under the same comparison as the run-time filter (both thresholds exclusive), "
               "so that refiltered results equal a fresh run with the stricter settings",
               detail="" if fresh[quantity] == reuse[quantity] else f"run time keeps `{quantity} {fresh[quantity]} threshold`, reuse keeps "
               f"`{quantity} {reuse[quantity]} threshold`: a hit exactly on the new threshold survives reuse but not a fresh run",
               form=f"run time {fresh[quantity]}, reuse {reuse[quantity]}")


def run(ctx: Ctx) -> None:
    ctx.rule("R11.5", "strip_antismash_annotations covers every feature list modules add to", floor=8)
    r11_5(ctx)
    ctx.rule("R11.1", "keys read by from_json are written by to_json", floor=25)
    ctx.rule("R11.2", "schema-version and record guards of module results", floor=8)
    ctx.rule("R11.3", "regeneration reaches from_json; setting mismatches are refused, discarded or warned", floor=6)
    ctx.rule("R11.4", "regenerated results record the setting that gated them", floor=2)
    r11_1(ctx)
    r11_2(ctx)
    r11_3(ctx)
    r11_4(ctx)
    ctx.rule("R11.6", "the reuse-time hit filter is as strict as the run-time one", floor=2)
    r11_6(ctx)
