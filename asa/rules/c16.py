""" C16 Sanitised record identifiers are unique, short and filesystem-safe """

from __future__ import annotations

import ast
from typing import Dict, List, Optional, Set, Tuple

from ..astutil import arg_of, call_name, calls, guards, kwarg, last_attr, stmt_key, txt, walk_local
from ..cfg import CFG
from ..flow import bound_from
from ..index import AnalysisError, dotted
from ..report import Ctx

PROP = "C16"
RP = "antismash/common/record_processing.py"
REC = "antismash/common/secmet/record.py"
CDS = "antismash/common/secmet/features/cds_feature.py"

EXPLANATION = (
    "Typestate over the id registry: in every function that carries the set of taken record ids, each write to "
    "<record>.id (R16.1) assigns a value proven free - produced by generate_unique_id with the registry, or guarded on "
    "every path from its definition to the write by a membership test against the registry - and is followed on every "
    "path to the exit or the next write by registry.add of that id; (R16.2) illegal characters are removed in a final "
    "stage after which the id is not rewritten, with a character set containing the file-name and GenBank-header "
    "characters; (R16.3) in the shortening region every assigned id is bounded by 16 through a length guard on the same "
    "expression, generate_unique_id(max_length=16) or an intrinsically bounded format; (R16.4) the original id is "
    "remembered before/when the id changes; (R16.5) Record.add_cds_feature raises or renames on duplicates and mutates "
    "the record only after all checks."
)
UNDECIDED = [
    "pairwise distinctness as a whole-list fact (follows from R16.1 when every writer obeys it - that is what R16.1 checks)",
    "behaviour of the regular expressions that find contig numbers",
    "record.name uniqueness (names are not identifiers)",
]
TRUSTED = ["CPython ast", "asa.cfg", "generate_unique_id returns a name not in the set it is given (its loop ends on `name not in existing_ids`)"]


def _id_writes(func: ast.AST, subject: Optional[str] = None) -> List[ast.Assign]:
    result = []
    for node in walk_local(func):
        if isinstance(node, ast.Assign):
            for target in node.targets:
                if isinstance(target, ast.Attribute) and target.attr == "id" and isinstance(target.value, ast.Name) \
                        and (subject is None or target.value.id == subject):
                    result.append(node)
    return result


def _is_generated(value: ast.AST, registry: str) -> bool:
    """ generate_unique_id(<...>, registry, ...) possibly subscripted [0] """
    if isinstance(value, ast.Subscript):
        value = value.value
    return isinstance(value, ast.Call) and call_name(value) == "generate_unique_id" and len(value.args) >= 2 \
        and txt(value.args[1]) == registry


def _membership_tests(cfg: CFG, func: ast.AST, subject_text: str, registry: str) -> List[Tuple[int, str]]:
    """ (test node, label of the edge on which `subject not in registry` holds) """
    edges = []
    for node in walk_local(func):
        if not isinstance(node, ast.If):
            continue
        test = node.test
        conj = test.values if isinstance(test, ast.BoolOp) and isinstance(test.op, ast.And) else [test]
        for part in conj:
            if isinstance(part, ast.Compare) and len(part.ops) == 1 and txt(part.comparators[0]) == registry \
                    and txt(part.left) == subject_text:
                if isinstance(part.ops[0], ast.NotIn):
                    edges.append((cfg.n(node), "T"))
                elif isinstance(part.ops[0], ast.In) and len(conj) == 1:
                    edges.append((cfg.n(node), "F"))
    return edges


def _check_function(ctx: Ctx, rel: str, qual: str, registry: str) -> None:
    func = ctx.fn(rel, qual)
    cfg = CFG(func)
    writes = _id_writes(func)
    if not writes:
        raise AnalysisError(f"{qual}: no write to <record>.id found")
    write_nodes = {cfg.n(w) for w in writes}
    adds = [c for c in calls(func) if txt(c.func) == f"{registry}.add"]
    for index, write in enumerate(writes):
        ctx.call_sites += 1
        subject = txt(write.targets[0])
        value = write.value
        wn = cfg.n(write)
        thing = f"write#{index} {stmt_key(write)}"
        # ---- pre: the value is free
        ok, why = False, ""
        if _is_generated(value, registry):
            ok, why = True, "value from generate_unique_id(..., registry)"
        elif isinstance(value, ast.Name):
            name = value.id
            defs = [d for d in cfg.reaching_defs(name, wn) if d >= 0]
            all_defs = set(cfg.def_nodes(name))
            verdicts = []
            for d in defs:
                dnode = cfg.nodes[d].ast
                dval = None
                if isinstance(dnode, ast.Assign):
                    dval = dnode.value
                if dval is not None and _is_generated(dval, registry):
                    verdicts.append((True, f"{getattr(dnode, 'lineno', 0)}: generated"))
                    continue
                # the defining expression itself was tested on the way
                if dval is not None and any(
                        pol and any(isinstance(p, ast.Compare) and isinstance(p.ops[0], ast.NotIn) and txt(p.left) == txt(dval)
                                    and txt(p.comparators[0]) == registry
                                    for p in (t.values if isinstance(t, ast.BoolOp) and isinstance(t.op, ast.And) else [t]))
                        for t, pol in guards(dnode, stop=func)):
                    verdicts.append((True, f"{getattr(dnode, 'lineno', 0)}: defined under `{txt(dval)[:40]} not in {registry}`"))
                    continue
                safe = _membership_tests(cfg, func, name, registry)
                # cut the safe edges: is the write still reachable from this definition (not through another definition)?
                others = all_defs - {d}
                still = wn in cfg.reach([d], avoid=others - {wn}, edges_excluded=safe)
                # but passing *through* a test by its unsafe edge is exactly what we want to detect; reach() with
                # edges_excluded removes only the safe edges, so `still` means an untested path exists
                verdicts.append((not still and bool(safe),
                                 f"{getattr(dnode, 'lineno', 0)}: " + ("membership-tested on every path" if not still and safe
                                                                       else "reaches the write without a registry test")))
            ok = bool(verdicts) and all(v for v, _ in verdicts)
            why = "; ".join(w for _, w in verdicts)
        else:
            text = txt(value)
            tests = []
            for t, pol in guards(write, stop=func):
                parts = t.values if isinstance(t, ast.BoolOp) and isinstance(t.op, ast.And) else [t]
                for p in parts:
                    if pol and isinstance(p, ast.Compare) and isinstance(p.ops[0], ast.NotIn) and txt(p.left) == text \
                            and txt(p.comparators[0]) == registry:
                        tests.append(txt(p))
            ok, why = bool(tests), (tests[0] if tests else "no registry test on the assigned expression")
        ctx.ob("R16.1", rel, write, qual, thing + " [free]", ok,
               "an id is assigned only if it is proven not to be taken", detail="" if ok else why, form=why)
        # ---- post: registered before exit / next write
        add_nodes = set()
        for add in adds:
            arg = txt(add.args[0]) if add.args else ""
            if arg == subject or (isinstance(value, ast.Name) and arg == value.id) or arg == txt(value):
                add_nodes.add(cfg.n(add))
        targets = [cfg.exit] + [n for n in write_nodes if n != wn]
        if wn in cfg.reach([wn]):
            targets.append(wn)   # the write sits in a loop: the next iteration's write counts as the next write
        missing = None
        for target in targets:
            if cfg.exists_path(wn, target, avoid=add_nodes | (set(targets) - {target})):
                missing = cfg.find_path(wn, target, avoid=add_nodes | (set(targets) - {target}))
                break
        ctx.ob("R16.1", rel, write, qual, thing + " [registered]", missing is None and bool(add_nodes),
               "a newly assigned id is added to the registry on every path before the function returns or assigns again",
               detail=f"unregistered path: {cfg.describe_path(missing)}" if missing else "",
               form=f"{len(add_nodes)} matching {registry}.add(...) site(s)")


def r16_1(ctx: Ctx) -> None:
    _check_function(ctx, RP, "fix_record_name_id", "all_record_ids")
    _check_function(ctx, RP, "pre_process_sequences", "all_record_ids")
    # the registry starts as the set of all ids and every record is passed through the fixer with it
    func = ctx.fn(RP, "pre_process_sequences")
    init = [txt(v) for v in bound_from(func, "all_record_ids")]
    ok = "{seq.id for seq in sequences}" in init
    ctx.ob("R16.1", RP, func, "pre_process_sequences", "registry initialised", ok,
           "the registry starts as the set of all input ids", form=str(init))
    fix = [c for c in calls(func) if call_name(c) == "fix_record_name_id"]
    ok = len(fix) == 1 and txt(fix[0].args[1]) == "all_record_ids"
    ctx.ob("R16.1", RP, fix[0] if fix else func, "pre_process_sequences", "registry shared", ok,
           "every record is fixed against the one shared registry", form=txt(fix[0]) if fix else "")
    gen = ctx.fn(RP, "generate_unique_id")
    loops = [n for n in walk_local(gen) if isinstance(n, ast.While)]
    ok = len(loops) == 1 and txt(loops[0].test) == "name in existing_ids"
    ctx.ob("R16.1", RP, gen, "generate_unique_id", "loop until free", ok,
           "generate_unique_id loops until the candidate is not in the given set", form=txt(loops[0].test) if loops else "")


def r16_2(ctx: Ctx) -> None:
    qual = "fix_record_name_id"
    func = ctx.fn(RP, qual)
    cfg = CFG(func)
    module = ctx.repo.mod(RP)
    sets = [v for v in bound_from(func, "illegal_chars")]
    chars: Set[str] = set()
    if len(sets) == 1 and isinstance(sets[0], ast.Call) and call_name(sets[0]) == "set" and isinstance(sets[0].args[0], ast.Constant):
        chars = set(sets[0].args[0].value)
    need = set('/ :;,()|"\'*?')
    ctx.ob("R16.2", RP, sets[0] if sets else func, qual, "illegal character set", need <= chars,
           "the removed characters include the ones unusable in file names and GenBank headers",
           detail=f"missing {sorted(need - chars)}" if need - chars else "", form="".join(sorted(chars)))
    # the stripping stage: replace(char, "") under `char in illegal_chars`
    strips = [c for c in calls(func) if last_attr(c) == "replace" and len(c.args) == 2
              and isinstance(c.args[1], ast.Constant) and c.args[1].value == ""
              and any("illegal_chars" in txt(t) and pol for t, pol in guards(c, stop=func))]
    ok = len(strips) >= 2
    ctx.ob("R16.2", RP, strips[0] if strips else func, qual, "strip stage", ok,
           "characters of the illegal set are removed from both id and name", form="; ".join(stmt_key(s) for s in strips))
    # the id written at the end derives from the stripped value, and no other id write follows the stage
    writes = _id_writes(func)
    stage_writes = [w for w in writes if any(
        isinstance(v, ast.Call) and last_attr(v) == "replace" for name in {n.id for n in ast.walk(w.value) if isinstance(n, ast.Name)}
        for v in bound_from(func, name)) or (isinstance(w.value, ast.Call) and last_attr(w.value) == "replace")]
    ok = bool(stage_writes)
    if ok:
        first_strip = min(cfg.n(s) for s in strips) if strips else None
        others = [w for w in writes if w not in stage_writes]
        late = [w for w in others if first_strip is not None and cfg.n(w) in cfg.reach([first_strip])]
        ok = not late
    ctx.ob("R16.2", RP, stage_writes[0] if stage_writes else func, qual, "stripping is last", ok,
           "the id is not rewritten by another stage once illegal characters have been removed", form="")
    # a stripped id may only lose characters or be a generated one: value provenance
    for w in stage_writes:
        val = w.value
        srcs = bound_from(func, val.id) if isinstance(val, ast.Name) else [val]
        ok = all((isinstance(v, ast.Call) and last_attr(v) == "replace") or txt(v) == "record.id"
                 or (isinstance(v, ast.Subscript) and _is_generated(v, "all_record_ids")) or _is_generated(v, "all_record_ids")
                 or (isinstance(v, ast.Name) and v.id == getattr(val, "id", None)) for v in srcs) or \
            any(isinstance(n, ast.Assign) and isinstance(n.targets[0], ast.Tuple) and _is_generated(n.value, "all_record_ids")
                for n in walk_local(func))
        ctx.ob("R16.2", RP, w, qual, f"stripped value {stmt_key(w)}", ok,
               "the final id is the stripped id or a generated replacement for it", form="; ".join(txt(v)[:50] for v in srcs))
    _ = module


def _bounded(func: ast.AST, write: ast.Assign, limit: int, depth: int = 0) -> Tuple[bool, str]:
    value = write.value
    if isinstance(value, ast.Name):
        verdicts = []
        for node in walk_local(func):
            targets = []
            if isinstance(node, ast.Assign):
                for t in node.targets:
                    targets += [e for e in (t.elts if isinstance(t, ast.Tuple) else [t])]
                if any(isinstance(t, ast.Name) and t.id == value.id for t in targets):
                    verdicts.append(_bounded_expr(func, node, node.value, limit))
        return (bool(verdicts) and all(v for v, _ in verdicts), "; ".join(w for _, w in verdicts))
    return _bounded_expr(func, write, value, limit)


def _bounded_expr(func: ast.AST, stmt: ast.AST, value: ast.AST, limit: int) -> Tuple[bool, str]:
    text = txt(value)
    call = value.value if isinstance(value, ast.Subscript) else value
    if isinstance(call, ast.Call) and call_name(call) == "generate_unique_id":
        ml = kwarg(call, "max_length")
        if ml is not None:
            if isinstance(ml, ast.Constant) and isinstance(ml.value, int) and 0 < ml.value <= limit:
                return True, f"generate_unique_id(max_length={ml.value})"
            if isinstance(ml, ast.IfExp) and isinstance(ml.orelse, ast.Constant) and ml.orelse.value == limit \
                    and txt(ml.test) in ("allow_long_names",):
                return True, f"generate_unique_id(max_length={limit} unless long names are allowed)"
        return False, f"{text[:50]}: no max_length <= {limit}"
    for t, pol in guards(stmt, stop=func):
        parts = t.values if isinstance(t, ast.BoolOp) and isinstance(t.op, ast.And) else [t]
        for p in parts:
            if pol and isinstance(p, ast.Compare) and len(p.ops) == 1 and isinstance(p.ops[0], (ast.LtE, ast.Lt)) \
                    and txt(p.left) == f"len({text})" and isinstance(p.comparators[0], ast.Constant) \
                    and p.comparators[0].value <= limit + (1 if isinstance(p.ops[0], ast.Lt) else 0):
                return True, f"guarded by {txt(p)}"
    return False, f"{text[:50]}: length not bounded by a guard"


def r16_3(ctx: Ctx) -> None:
    qual = "fix_record_name_id"
    func = ctx.fn(RP, qual)
    region = [n for n in walk_local(func) if isinstance(n, ast.If) and "len(record.id) > 16" in txt(n.test)
              and "allow_long_names" in txt(n.test)]
    if not region:
        raise AnalysisError("fix_record_name_id: shortening region `if len(record.id) > 16 and not allow_long_names` not found")
    writes = [w for w in _id_writes(func) if any(w is n for n in ast.walk(region[0]))]
    if not writes:
        raise AnalysisError("fix_record_name_id: no id write inside the shortening region")
    for index, write in enumerate(writes):
        ok, why = _bounded(func, write, 16)
        ctx.ob("R16.3", RP, write, qual, f"bounded write#{index} {stmt_key(write)}", ok,
               "every id assigned by the shortening path is at most 16 characters long", detail="" if ok else why, form=why)
    # the stripping stage can only shorten or generate with the same bound
    later = [w for w in _id_writes(func) if w not in writes]
    for index, write in enumerate(later):
        val = write.value
        srcs = bound_from(func, val.id) if isinstance(val, ast.Name) else [val]
        gens = [n.value for n in walk_local(func) if isinstance(n, ast.Assign) and isinstance(n.targets[0], ast.Tuple)
                and isinstance(val, ast.Name) and any(isinstance(e, ast.Name) and e.id == val.id for e in n.targets[0].elts)]
        ok = all(_bounded_expr(func, write, g, 16)[0] for g in gens) and all(
            (isinstance(v, ast.Call) and last_attr(v) == "replace") or txt(v) == "record.id" for v in srcs)
        ctx.ob("R16.3", RP, write, qual, f"later write#{index} {stmt_key(write)}", ok,
               "after shortening, the id only loses characters or is regenerated under the same bound",
               form="; ".join(txt(g)[:70] for g in gens))


def r16_4(ctx: Ctx) -> None:
    qual = "fix_record_name_id"
    func = ctx.fn(RP, qual)
    cfg = CFG(func)
    olds = [n for n in walk_local(func) if isinstance(n, ast.Assign) and txt(n.targets[0]) == "old_id" and txt(n.value) == "record.id"]
    writes = _id_writes(func)
    ok = len(olds) == 1 and all(cfg.dominates(cfg.n(olds[0]), cfg.n(w)) for w in writes)
    ctx.ob("R16.4", RP, olds[0] if olds else func, qual, "old id captured first", ok,
           "the incoming id is captured before any rewrite", form="")
    finals = [n for n in walk_local(func) if isinstance(n, ast.If) and "old_id != record.id" in txt(n.test)
              and any(isinstance(s, ast.Assign) and txt(s.targets[0]) == "record.original_id" and txt(s.value) == "old_id" for s in n.body)]
    ok = len(finals) == 1 and cfg.postdominates(cfg.n(finals[0]), cfg.entry) and \
        not any(cfg.n(w) in cfg.reach([cfg.n(finals[0])]) for w in writes)
    ctx.ob("R16.4", RP, finals[0] if finals else func, qual, "original id stored", ok,
           "on every normal path, after the last rewrite, a changed id stores the original (unless one is already stored)",
           form=txt(finals[0].test) if finals else "")
    pre = ctx.fn(RP, "pre_process_sequences")
    cfg = CFG(pre)
    for write in _id_writes(pre):
        stores = [n for n in walk_local(pre) if isinstance(n, ast.Assign) and txt(n.targets[0]).endswith(".original_id")
                  and txt(n.value) == txt(write.targets[0])]
        ok = bool(stores) and cfg.dominates(cfg.n(stores[0]), cfg.n(write)) and cfg.n(stores[0]) != cfg.n(write)
        ctx.ob("R16.4", RP, write, "pre_process_sequences", "duplicate remembers original", ok,
               "a duplicate id is remembered as the original id before being replaced", form="")


def r16_5(ctx: Ctx) -> None:
    qual = "Record.add_cds_feature"
    func = ctx.fn(REC, qual)
    cfg = CFG(func)
    mutations = []
    for node in walk_local(func):
        if isinstance(node, ast.Call) and txt(node.func) in ("self._cds_features.insert", "self._link_cds_to_parent"):
            mutations.append(node)
        if isinstance(node, ast.Assign) and txt(node.targets[0]).startswith(("self._cds_by_location[", "self._cds_by_name[",
                                                                             "self._cds_cache_dirty")):
            mutations.append(node)
    raises = [r for r in walk_local(func) if isinstance(r, ast.Raise)]
    ok = len(mutations) >= 4 and len(raises) >= 4
    first = min((cfg.n(m) for m in mutations), default=None)
    late = [r for r in raises if first is not None and cfg.n(r) in cfg.reach([first])]
    ctx.ob("R16.5", REC, func, qual, "checks before mutation", ok and not late,
           "the record is modified only after every check that can reject the gene", form=f"{len(raises)} raises, {len(mutations)} mutations")
    dup_loc = [n for n in walk_local(func) if isinstance(n, ast.If) and txt(n.test) == "location_key in self._cds_by_location"
               and any(isinstance(s, ast.Raise) for s in n.body)]
    ctx.ob("R16.5", REC, dup_loc[0] if dup_loc else func, qual, "duplicate location rejected", bool(dup_loc),
           "a second gene with the same location is rejected", form="")
    dup_name = [n for n in walk_local(func) if isinstance(n, ast.If) and txt(n.test) == "cds_feature.get_name() in self._cds_by_name"]
    ok = False
    if dup_name:
        node = dup_name[0]
        # every path through the arm either raises or renames the locus tag with the checksum
        tn = cfg.n(node)
        renames = [s for s in walk_local(node) if isinstance(s, ast.Assign) and txt(s.targets[0]) == "cds_feature.locus_tag"]
        ok = bool(renames) and "_location_checksum(cds_feature)" in "".join(txt(v) for v in bound_from(func, txt(renames[0].value)))
        starts = [dst for dst, lab in cfg.succ[tn] if lab == "T"]
        rn = cfg.n(renames[0]) if renames else -1
        # from the true arm, the first mutation is reachable only through the rename
        ok = ok and first is not None and all(first not in ({s} | cfg.reach([s], avoid=[rn])) for s in starts)
    ctx.ob("R16.5", REC, dup_name[0] if dup_name else func, qual, "duplicate name renamed or rejected", ok,
           "a gene whose name is taken is either rejected or renamed with its location checksum before being stored", form="")
    san = ctx.fn(CDS, "_sanitise_id_value")
    ok = 'name.replace(char, "_")' in txt(san).replace("'", '"') and "illegal_chars" in txt(san)
    ctx.ob("R16.5", CDS, san, "_sanitise_id_value", "gene id sanitised", ok,
           "characters that break external programs are replaced in gene identifiers", form="")


def run(ctx: Ctx) -> None:
    ctx.rule("R16.1", "typestate: ids are assigned only when free and registered afterwards", floor=11)
    ctx.rule("R16.2", "illegal characters are removed last, with the documented character set", floor=4)
    ctx.rule("R16.3", "ids assigned by the shortening path are at most 16 characters", floor=3)
    ctx.rule("R16.4", "the original id is remembered when the id changes", floor=3)
    ctx.rule("R16.5", "duplicate gene names/locations are rejected or renamed before the record is modified", floor=4)
    r16_1(ctx)
    r16_2(ctx)
    r16_3(ctx)
    r16_4(ctx)
    r16_5(ctx)
