""" C16 Sanitised record identifiers are unique, short and filesystem-safe """

from __future__ import annotations

import ast
from typing import Dict, List, Optional, Set, Tuple

from ..astutil import arg_of, call_name, calls, enclosing_loops, guards, kwarg, last_attr, stmt_key, txt, walk_local
from ..cfg import CFG
from ..flow import bound_from, effective_compare, facts_nnf, inline_reaching, literals, oriented, path_facts
from ..index import AnalysisError, dotted
from ..report import Ctx

PROP = "C16"
RP = "antismash/common/record_processing.py"
REC = "antismash/common/secmet/record.py"
CDS = "antismash/common/secmet/features/cds_feature.py"

EXPLANATION = (
    "Typestate over the id registry: in every function that carries the set of taken record ids, each write to "
    "<record>.id (R16.1) assigns a value proven free - produced by generate_unique_id with the registry, or guarded on "
    "every path from its definition to the write by a membership test against the registry - and is followed on every "
    "path to the exit or the next write by registry.add of that id; (R16.2) illegal characters are removed in a final "
    "stage after which the id is not rewritten, with a character set containing the file-name and GenBank-header "
    "characters; (R16.3) in the shortening region every assigned id is bounded by 16 through a length guard on the same "
    "expression, generate_unique_id(max_length=16) or an intrinsically bounded format; (R16.4) the original id is "
    "remembered before/when the id changes; (R16.5) Record.add_cds_feature raises or renames on duplicates and mutates "
    "the record only after all checks."
)
UNDECIDED = [
    "pairwise distinctness as a whole-list fact (follows from R16.1 when every writer obeys it - that is what R16.1 checks)",
    "behaviour of the regular expressions that find contig numbers",
    "record.name uniqueness (names are not identifiers)",
]
TRUSTED = ["CPython ast", "asa.cfg", "generate_unique_id returns a name not in the set it is given (its loop ends on `name not in existing_ids`)"]


def _id_writes(func: ast.AST, subject: Optional[str] = None) -> List[ast.Assign]:
    result = []
    for node in walk_local(func):
        if isinstance(node, ast.Assign):
            for target in node.targets:
                if isinstance(target, ast.Attribute) and target.attr == "id" and isinstance(target.value, ast.Name) \
                        and (subject is None or target.value.id == subject):
                    result.append(node)
    return result


def _aliases(func: ast.AST, registry: str) -> Set[str]:
    """ names that denote the registry set inside func: the name itself and plain aliases in either direction """
    names = {registry}
    changed = True
    while changed:
        changed = False
        for node in walk_local(func):
            if isinstance(node, (ast.Assign, ast.AnnAssign)) and node.value is not None:
                targets = node.targets if isinstance(node, ast.Assign) else [node.target]
                if len(targets) == 1 and isinstance(targets[0], ast.Name) and isinstance(node.value, ast.Name):
                    a, b = targets[0].id, node.value.id
                    if (a in names) != (b in names):
                        names |= {a, b}
                        changed = True
    return names


def _is_generated(value: ast.AST, registry: Set[str]) -> bool:
    """ generate_unique_id(<...>, registry, ...) possibly subscripted [0] """
    if isinstance(value, ast.Subscript):
        value = value.value
    return isinstance(value, ast.Call) and call_name(value) == "generate_unique_id" and len(value.args) >= 2 \
        and txt(value.args[1]) in registry


def _free_literal(expr: ast.AST, truth: bool, registry: Set[str]) -> Optional[str]:
    """ text of X when the literal says `X not in registry` """
    if isinstance(expr, ast.Compare) and len(expr.ops) == 1 and txt(expr.comparators[0]) in registry:
        if (isinstance(expr.ops[0], ast.NotIn) and truth) or (isinstance(expr.ops[0], ast.In) and not truth):
            return txt(expr.left)
    return None


def _through_locals(cfg: CFG, expr: ast.AST, truth: bool, anchor: ast.AST, keep: Set[str] = frozenset()):
    """ the literals of a fact after reading named parts through (`is_unused = x not in ids; if is_unused and ...`) """
    out = [(expr, truth)]
    if isinstance(expr, ast.Name):
        at = expr if hasattr(expr, "_parent") else anchor
        full = inline_reaching(cfg, at, expr, keep=keep, max_depth=0)
        if not isinstance(full, ast.Name):
            out += literals(full, truth)
    return out


def _free_at(cfg: CFG, node: ast.AST, registry: Set[str]) -> Set[str]:
    """ expressions proven absent from the registry on every path to node (stale facts dropped) """
    out = set()
    for fact, pol in path_facts(cfg, node, fresh_only=True):
        for expr, truth in _through_locals(cfg, fact, pol, node):
            text = _free_literal(expr, truth, registry)
            if text is not None:
                out.add(text)
    return out


def _membership_tests(cfg: CFG, func: ast.AST, subject_text: str, registry: Set[str]) -> List[Tuple[int, str]]:
    """ (test node, label of the edge on which `subject not in registry` holds) """
    edges = []
    for node in cfg.nodes:
        if node.kind != "test" or node.ast is None or not hasattr(node.ast, "test"):
            continue
        for label, truth in (("T", True), ("F", False)):
            for fact, fpol in literals(node.ast.test, truth):
                for expr, pol in _through_locals(cfg, fact, fpol, node.ast):
                    if _free_literal(expr, pol, registry) == subject_text and (node.id, label) not in edges:
                        edges.append((node.id, label))
    return edges


def _check_function(ctx: Ctx, rel: str, qual: str, registry_name: str, func: Optional[ast.AST] = None) -> None:
    func = func or ctx.fn(rel, qual, inline=True)
    cfg = CFG(func)
    registry = _aliases(func, registry_name)
    writes = _id_writes(func)
    if not writes:
        raise AnalysisError(f"{qual}: no write to <record>.id found")
    write_nodes = {cfg.n(w) for w in writes}
    adds = [c for c in calls(func) if isinstance(c.func, ast.Attribute) and c.func.attr == "add" and txt(c.func.value) in registry]
    for index, write in enumerate(writes):
        ctx.call_sites += 1
        subject = txt(write.targets[0])
        value = write.value
        wn = cfg.n(write)
        thing = f"write#{index} {stmt_key(write)}"
        # ---- pre: the value is free
        ok, why = False, ""
        if _is_generated(value, registry):
            ok, why = True, "value from generate_unique_id(..., registry)"
        elif isinstance(value, ast.Name):
            ok, why = _name_free(cfg, func, value.id, wn, registry, 0)
        else:
            text = txt(value)
            ok = text in _free_at(cfg, write, registry)
            why = f"{text} not in registry" if ok else "no registry test on the assigned expression"
        ctx.ob("R16.1", rel, write, qual, thing + " [free]", ok,
               "an id is assigned only if it is proven not to be taken", detail="" if ok else why, form=why)
        # ---- post: registered before exit / next write
        add_nodes = set()
        for add in adds:
            arg = txt(add.args[0]) if add.args else ""
            if arg == subject or (isinstance(value, ast.Name) and arg == value.id) or arg == txt(value):
                add_nodes.add(cfg.n(add))
        targets = [cfg.exit] + [n for n in write_nodes if n != wn]
        if wn in cfg.reach([wn]):
            targets.append(wn)   # the write sits in a loop: the next iteration's write counts as the next write
        missing = None
        for target in targets:
            if cfg.exists_path(wn, target, avoid=add_nodes | (set(targets) - {target})):
                missing = cfg.find_path(wn, target, avoid=add_nodes | (set(targets) - {target}))
                break
        ctx.ob("R16.1", rel, write, qual, thing + " [registered]", missing is None and bool(add_nodes),
               "a newly assigned id is added to the registry on every path before the function returns or assigns again",
               detail=f"unregistered path: {cfg.describe_path(missing)}" if missing else "",
               form=f"{len(add_nodes)} matching registry.add(...) site(s)")


def _name_free(cfg: CFG, func: ast.AST, name: str, at: int, registry: Set[str], depth: int) -> Tuple[bool, str]:
    """ every definition of `name` reaching node `at` holds a value proven free """
    defs = [d for d in cfg.reaching_defs(name, at) if d >= 0]
    all_defs = set(cfg.def_nodes(name))
    verdicts = []
    for d in defs:
        dnode = cfg.nodes[d].ast
        dval = dnode.value if isinstance(dnode, (ast.Assign, ast.AnnAssign)) else None
        line = getattr(dnode, "lineno", 0)
        if dval is not None and _is_generated(dval, registry):
            verdicts.append((True, f"{line}: generated"))
            continue
        # the defining expression itself was tested on the way
        if dval is not None and txt(dval) in _free_at(cfg, dnode, registry):
            verdicts.append((True, f"{line}: defined under `{txt(dval)[:40]} not in registry`"))
            continue
        safe = _membership_tests(cfg, func, name, registry)
        # cut the safe edges: is the write still reachable from this definition (not through another definition)?
        others = all_defs - {d}
        still = at in cfg.reach([d], avoid=others - {at}, edges_excluded=safe)
        if not still and safe:
            verdicts.append((True, f"{line}: membership-tested on every path"))
            continue
        # a plain copy of another local that is itself free at the copy
        if isinstance(dval, ast.Name) and depth < 3:
            sub_ok, sub_why = _name_free(cfg, func, dval.id, d, registry, depth + 1)
            verdicts.append((sub_ok, f"{line}: copy of {dval.id} ({sub_why})"))
            continue
        verdicts.append((False, f"{line}: reaches the write without a registry test"))
    return bool(verdicts) and all(v for v, _ in verdicts), "; ".join(w for _, w in verdicts)


def _registry_param(ctx: Ctx) -> str:
    fixer = ctx.fn(RP, "fix_record_name_id")
    if len(fixer.args.args) < 2:
        raise AnalysisError("fix_record_name_id: registry parameter not found")
    return fixer.args.args[1].arg


def r16_1(ctx: Ctx) -> None:
    reg_param = _registry_param(ctx)
    _check_function(ctx, RP, "fix_record_name_id", reg_param)
    # the registry starts as the set of all ids and every record is passed through the fixer with it
    func = ctx.fn(RP, "pre_process_sequences", inline=True)
    fix = [c for c in calls(func) if call_name(c) == "fix_record_name_id"]
    if len(fix) != 1 or len(fix[0].args) < 2 or not isinstance(fix[0].args[1], ast.Name):
        raise AnalysisError("pre_process_sequences: the call fix_record_name_id(record, <registry>, ...) was not found")
    registry = fix[0].args[1].id
    _check_function(ctx, RP, "pre_process_sequences", registry, func)
    param = func.args.args[0].arg
    inits = [v for name in _aliases(func, registry) for v in bound_from(func, name)]
    def _all_ids(v: ast.AST) -> bool:
        comp = v
        if isinstance(v, ast.Call) and call_name(v) in ("set", "frozenset") and len(v.args) == 1 and not v.keywords:
            comp = v.args[0]
        return isinstance(comp, (ast.SetComp, ast.GeneratorExp, ast.ListComp)) and (comp is not v or isinstance(v, ast.SetComp)) \
            and len(comp.generators) == 1 and txt(comp.generators[0].iter) == param \
            and not comp.generators[0].ifs and txt(comp.elt) == f"{txt(comp.generators[0].target)}.id"
    ok = any(_all_ids(v) for v in inits)
    ctx.ob("R16.1", RP, func, "pre_process_sequences", "registry initialised", ok,
           "the registry starts as the set of all input ids", form=str([txt(v)[:60] for v in inits]))
    loop = [lp for lp in enclosing_loops(fix[0], stop=func) if isinstance(lp, ast.For)]
    ok = bool(loop) and txt(loop[0].iter) == param and txt(fix[0].args[0]) == txt(loop[0].target)
    ctx.ob("R16.1", RP, fix[0], "pre_process_sequences", "registry shared", ok,
           "every record is fixed against the one shared registry", form=txt(fix[0]))
    gen = ctx.fn(RP, "generate_unique_id")
    gcfg = CFG(gen)
    existing = _aliases(gen, gen.args.args[1].arg) if len(gen.args.args) > 1 else set()
    loops = [n for n in walk_local(gen) if isinstance(n, ast.While)
             or (isinstance(n, ast.For) and any(isinstance(b, ast.Break) for b in walk_local(n)))]
    rets = [r for r in walk_local(gen) if isinstance(r, ast.Return) and r.value is not None]
    ok = len(loops) == 1 and bool(rets)
    form = ""
    for ret in rets if ok else []:
        first = ret.value.elts[0] if isinstance(ret.value, ast.Tuple) and ret.value.elts else ret.value
        # on every path to the return the returned candidate was last seen to be absent from the set: a (still fresh)
        # `candidate in existing` that was false, whether it is the loop's own test or the test of a break inside it
        free = []
        for expr, truth in path_facts(gcfg, ret, fresh_only=True, asserts=True):
            cmp_ = expr
            while isinstance(cmp_, ast.UnaryOp) and isinstance(cmp_.op, ast.Not):
                cmp_, truth = cmp_.operand, not truth
            if isinstance(cmp_, ast.Compare) and len(cmp_.ops) == 1 and txt(cmp_.comparators[0]) in existing \
                    and (isinstance(cmp_.ops[0], ast.In) and not truth or isinstance(cmp_.ops[0], ast.NotIn) and truth) \
                    and (any(a is loops[0] for a in _ancestors(cmp_)) or any(isinstance(a, ast.Assert) for a in _ancestors(cmp_))):
                free.append(cmp_)
        form = "; ".join(txt(f) for f in free)
        same = False
        for f in free:
            if txt(f.left) == txt(first):
                same = True
            else:
                at = next((a for a in [f] + list(_ancestors(f)) if isinstance(a, ast.stmt)), None)
                seen, given = inline_reaching(gcfg, at, f.left), inline_reaching(gcfg, ret, first)
                names = {n.id for n in ast.walk(seen) if isinstance(n, ast.Name)}
                same = same or (txt(seen) == txt(given) and at is not None
                                and all(gcfg.reaching_defs(n, gcfg.n(at)) == gcfg.reaching_defs(n, gcfg.n(ret)) for n in names))
        ok = ok and same
    ctx.ob("R16.1", RP, gen, "generate_unique_id", "loop until free", ok,
           "generate_unique_id loops until the candidate is not in the given set and returns that candidate", form=form)


def _ancestors(node: ast.AST):
    cur = getattr(node, "_parent", None)
    while cur is not None:
        yield cur
        cur = getattr(cur, "_parent", None)


def cfg_after_loop(cfg: CFG, loop: ast.AST) -> Set[int]:
    head = cfg.n(loop)
    starts = [dst for dst, lab in cfg.succ[head] if lab == "F"]
    return cfg.reach(starts, include_start=True, avoid=[head])


def _defines_only(stmt: ast.AST, name: str) -> bool:
    return isinstance(stmt, ast.Assign) and len(stmt.targets) == 1 and txt(stmt.targets[0]) == name


def _strip_of(expr: ast.AST, charset: str) -> Optional[str]:
    """ the string expression X when expr removes the characters of `charset` from X:
        X.replace(c, "") (judged with its guard by the caller) or "".join(c for c in X if c not in charset) """
    if isinstance(expr, ast.Call) and last_attr(expr) == "replace" and len(expr.args) == 2 \
            and isinstance(expr.args[1], ast.Constant) and expr.args[1].value == "":
        return txt(expr.func.value)  # type: ignore[attr-defined]
    if isinstance(expr, ast.Call) and last_attr(expr) == "join" and isinstance(expr.func, ast.Attribute) \
            and isinstance(expr.func.value, ast.Constant) and expr.func.value.value == "" and len(expr.args) == 1 \
            and isinstance(expr.args[0], (ast.GeneratorExp, ast.ListComp)) and len(expr.args[0].generators) == 1:
        gen = expr.args[0].generators[0]
        var = txt(gen.target)
        if txt(expr.args[0].elt) == var and len(gen.ifs) == 1:
            test = gen.ifs[0]
            if isinstance(test, ast.Compare) and len(test.ops) == 1 and isinstance(test.ops[0], ast.NotIn) \
                    and txt(test.left) == var and txt(test.comparators[0]) == charset:
                return txt(gen.iter)
    return None


def _replaces_illegal(func: ast.AST, repo=None, rel: str = "") -> bool:
    """ every character of a punctuation set is replaced by an underscore in the returned string: a loop/chain of
        `x = x.replace(char, "_")` over the characters of the set, or "".join("_" if c in set else c for c in x) """
    charsets = {n.targets[0].id for n in walk_local(func) if isinstance(n, ast.Assign) and isinstance(n.targets[0], ast.Name)
                and isinstance(n.value, ast.Call) and call_name(n.value) in ("set", "frozenset") and n.value.args
                and isinstance(n.value.args[0], ast.Constant) and isinstance(n.value.args[0].value, str)
                and set('/ :;,()|"\'*?') <= set(n.value.args[0].value)}
    if not charsets and repo is not None and rel:
        # the set may be a module-level constant
        module = repo.mod(rel)
        for n in walk_local(func):
            if isinstance(n, ast.Name) and isinstance(n.ctx, ast.Load):
                cnode = repo.module_const_node(module, n.id)
                if isinstance(cnode, ast.Call) and call_name(cnode) in ("set", "frozenset") and cnode.args \
                        and isinstance(cnode.args[0], ast.Constant) and isinstance(cnode.args[0].value, str) \
                        and set('/ :;,()|"\'*?') <= set(cnode.args[0].value):
                    charsets.add(n.id)
    if not charsets:
        return False
    cfg = CFG(func)
    rets = [r for r in walk_local(func) if isinstance(r, ast.Return) and r.value is not None
            and not (isinstance(r.value, ast.Constant) and r.value.value is None)]
    if not rets:
        return False
    checks = []
    for ret in rets:
        if isinstance(ret.value, ast.Name):
            defs = [cfg.nodes[d].ast for d in cfg.reaching_defs(ret.value.id, cfg.n(ret)) if d >= 0]
            joined = [n.value for n in defs if isinstance(n, ast.Assign) and isinstance(n.value, ast.Call) and last_attr(n.value) == "join"]
            if joined and len(joined) == len([n for n in defs if not (isinstance(n, ast.Assign) and call_name(n.value) == "str"
                                                                        if isinstance(getattr(n, "value", None), ast.Call) else False)]):
                checks += [(ret, inline_reaching(cfg, ret, v, keep=charsets), False) for v in joined]
                continue
        checks.append((ret, inline_reaching(cfg, ret, ret.value, keep=charsets), True))
    for ret, value, allow_loop in checks:
        fine = False
        if isinstance(value, ast.Call) and last_attr(value) == "join" and len(value.args) == 1 \
                and isinstance(value.args[0], (ast.GeneratorExp, ast.ListComp)) and len(value.args[0].generators) == 1 \
                and not value.args[0].generators[0].ifs and isinstance(value.args[0].elt, ast.IfExp):
            gen, elt = value.args[0].generators[0], value.args[0].elt
            var = txt(gen.target)
            cmp_ = effective_compare(elt.test)
            if cmp_ is not None and txt(cmp_[0]) == var and txt(cmp_[2]) in charsets:
                under, other = (elt.body, elt.orelse) if cmp_[1] == "in" else (elt.orelse, elt.body)
                fine = cmp_[1] in ("in", "not in") and isinstance(under, ast.Constant) and under.value == "_" and txt(other) == var
        elif isinstance(value, ast.Call) and last_attr(value) == "join" and len(value.args) == 1 \
                and isinstance(value.args[0], (ast.GeneratorExp, ast.ListComp)) and len(value.args[0].generators) == 1 \
                and not value.args[0].generators[0].ifs and isinstance(value.args[0].elt, ast.Call) \
                and isinstance(value.args[0].elt.func, ast.Name) and repo is not None:
            # per-character helper: h(char, charset) returning "_" for a character of the set and the character otherwise
            call = value.args[0].elt
            var = txt(value.args[0].generators[0].target)
            try:
                helper = repo.func(rel, call.func.id)
            except AnalysisError:
                helper = None
            if helper is not None and len(helper.args.args) == len(call.args) == 2 and txt(call.args[0]) == var \
                    and txt(call.args[1]) in charsets:
                c_param, s_param = (a.arg for a in helper.args.args)
                hcfg = CFG(helper)
                hrets = [r for r in walk_local(helper) if isinstance(r, ast.Return) and r.value is not None]
                good = bool(hrets)
                for r in hrets:
                    member = [t for e, t in path_facts(hcfg, r) if txt(e) == f"{c_param} in {s_param}"] + \
                        [not t for e, t in path_facts(hcfg, r) if txt(e) == f"{c_param} not in {s_param}"]
                    if isinstance(r.value, ast.IfExp):
                        test = effective_compare(r.value.test)
                        ok_if = test is not None and txt(test[0]) == c_param and txt(test[2]) == s_param and test[1] in ("in", "not in")
                        under, other = (r.value.body, r.value.orelse) if ok_if and test[1] == "in" else (r.value.orelse, r.value.body)
                        good = good and ok_if and isinstance(under, ast.Constant) and under.value == "_" and txt(other) == c_param
                    elif member == [True]:
                        good = good and isinstance(r.value, ast.Constant) and r.value.value == "_"
                    elif member == [False]:
                        good = good and txt(r.value) == c_param
                    else:
                        good = False
                fine = good
        elif isinstance(ret.value, ast.Name) and allow_loop:
            # replace loop: for char in <something over the set>: name = name.replace(char, "_")
            name = ret.value.id
            for loop in [n for n in walk_local(func) if isinstance(n, ast.For)]:
                var = txt(loop.target)
                over = any(isinstance(n, ast.Name) and n.id in charsets for n in ast.walk(loop.iter))
                repl = [st for st in loop.body if isinstance(st, ast.Assign) and txt(st.targets[0]) == name
                        and isinstance(st.value, ast.Call) and last_attr(st.value) == "replace" and txt(st.value.func.value) == name
                        and len(st.value.args) == 2 and txt(st.value.args[0]) == var
                        and isinstance(st.value.args[1], ast.Constant) and st.value.args[1].value == "_"]
                unconditional = [st for st in repl if not [g for g in guards(st, stop=loop)
                                                           if not (isinstance(g[0], ast.Compare) and txt(g[0].comparators[0]) in charsets)]]
                fine = fine or (over and bool(unconditional))
        if not fine:
            return False
    return True


def r16_2(ctx: Ctx) -> None:
    qual = "fix_record_name_id"
    func = ctx.fn(RP, qual)
    cfg = CFG(func)
    registry = _aliases(func, _registry_param(ctx))
    # the character set: a set("...") of punctuation bound to a local
    chars: Set[str] = set()
    charset_name = ""
    site: ast.AST = func
    for node in walk_local(func):
        if isinstance(node, ast.Assign) and len(node.targets) == 1 and isinstance(node.targets[0], ast.Name) \
                and isinstance(node.value, ast.Call) and call_name(node.value) in ("set", "frozenset") and node.value.args \
                and isinstance(node.value.args[0], ast.Constant) and isinstance(node.value.args[0].value, str):
            charset_name, chars, site = node.targets[0].id, set(node.value.args[0].value), node
    if not charset_name:
        # ... or a module-level constant that the function tests membership in
        from ..index import UNRESOLVED
        module = ctx.repo.mod(RP)
        for node in walk_local(func):
            if isinstance(node, ast.Compare) and len(node.ops) == 1 and isinstance(node.ops[0], (ast.In, ast.NotIn)) \
                    and isinstance(node.comparators[0], ast.Name):
                value = ctx.repo.const(module, node.comparators[0])
                if value is UNRESOLVED:
                    cnode = ctx.repo.module_const_node(module, node.comparators[0].id)
                    if isinstance(cnode, ast.Call) and call_name(cnode) in ("set", "frozenset") and cnode.args \
                            and isinstance(cnode.args[0], ast.Constant) and isinstance(cnode.args[0].value, str):
                        value = set(cnode.args[0].value)
                if value is not UNRESOLVED and isinstance(value, (set, frozenset, str, tuple, list)) and value \
                        and all(isinstance(c, str) and len(c) == 1 for c in value):
                    charset_name, chars, site = node.comparators[0].id, set(value), node
    need = set('/ :;,()|"\'*?')
    ctx.ob("R16.2", RP, site, qual, "illegal character set", bool(charset_name) and need <= chars,
           "the removed characters include the ones unusable in file names and GenBank headers",
           detail=f"missing {sorted(need - chars)}" if need - chars else "", form="".join(sorted(chars)))
    # the stripping stage: both the id and the name lose the characters of the set
    strips = []
    for call in calls(func):
        subject = _strip_of(call, charset_name)
        if subject is None:
            continue
        if last_attr(call) == "replace" and not any(
                truth and isinstance(e, ast.Compare) and isinstance(e.ops[0], ast.In) and txt(e.comparators[0]) == charset_name
                for e, truth in path_facts(cfg, call)):
            continue
        strips.append((call, subject))
    for call, subject in strips:
        par = getattr(call, "_parent", None)
        if last_attr(call) == "replace" and isinstance(par, ast.Assign) and enclosing_loops(call, stop=func):
            target = txt(par.targets[0])
            ctx.ob("R16.2", RP, par, qual, f"strip accumulates in {target}", target == subject,
                   "inside the loop over characters each removal is applied to the value accumulated so far "
                   "(`x = x.replace(c, '')`); applying it to the original string keeps only the last removal",
                   detail="" if target == subject else f"`{target}` is rebuilt from `{subject}` in every iteration",
                   form=stmt_key(par))
    subjects = set()
    for call, subject in strips:
        subjects.add(inline_text(cfg, call, subject))
        if subject.isidentifier():
            subjects |= {txt(v) for v in bound_from(func, subject) if v is not call}
    ok = any(".id" in x for x in subjects) and any(".name" in x for x in subjects)
    ctx.ob("R16.2", RP, strips[0][0] if strips else func, qual, "strip stage", ok,
           "characters of the illegal set are removed from both id and name", form="; ".join(sorted(subjects)))
    # the id written at the end derives from the stripped value, and no other id write follows the stage
    writes = _id_writes(func)
    strip_calls = [c for c, _ in strips]

    def derives_from_strip(name: str) -> bool:
        return any(v in strip_calls for v in _sources(func, name))
    stage_writes = [w for w in writes if w.value in strip_calls
                    or any(derives_from_strip(n.id) for n in ast.walk(w.value) if isinstance(n, ast.Name))]
    ok = bool(stage_writes)
    if ok:
        first_strip = min(cfg.n(c) for c in strip_calls)
        others = [w for w in writes if w not in stage_writes]
        late = [w for w in others if cfg.n(w) in cfg.reach([first_strip])]
        ok = not late
    ctx.ob("R16.2", RP, stage_writes[0] if stage_writes else func, qual, "stripping is last", ok,
           "the id is not rewritten by another stage once illegal characters have been removed", form="")
    # a stripped id may only lose characters or be a generated one: value provenance
    for w in stage_writes:
        val = w.value
        srcs = _sources(func, val.id) if isinstance(val, ast.Name) else [val]
        ok = all(v in strip_calls or txt(v).endswith(".id")
                 or (isinstance(v, ast.Subscript) and _is_generated(v, registry)) or _is_generated(v, registry)
                 or (isinstance(v, ast.Name) and v.id == getattr(val, "id", None)) for v in srcs) or \
            any(isinstance(n, ast.Assign) and isinstance(n.targets[0], ast.Tuple) and _is_generated(n.value, registry)
                for n in walk_local(func))
        ctx.ob("R16.2", RP, w, qual, f"stripped value {stmt_key(w)}", ok,
               "the final id is the stripped id or a generated replacement for it", form="; ".join(txt(v)[:50] for v in srcs))


def _sources(func: ast.AST, name: str) -> List[ast.AST]:
    """ the non-name expressions a local may hold, following plain copies (`a = b`) transitively """
    seen, out, todo = set(), [], [name]
    while todo:
        cur = todo.pop()
        if cur in seen:
            continue
        seen.add(cur)
        for value in bound_from(func, cur):
            if isinstance(value, ast.Name):
                todo.append(value.id)
            else:
                out.append(value)
    return out


def inline_text(cfg: CFG, at: ast.AST, text: str) -> str:
    try:
        expr = ast.parse(text, mode="eval").body
    except SyntaxError:
        return text
    return txt(inline_reaching(cfg, at, expr))


def _bounded(cfg: CFG, func: ast.AST, write: ast.Assign, limit: int, depth: int = 0) -> Tuple[bool, str]:
    value = write.value
    if isinstance(value, ast.Name):
        direct = _bounded_expr(cfg, func, write, value, limit)
        if direct[0]:
            return direct
        verdicts = []
        for d in cfg.reaching_defs(value.id, cfg.n(write)):
            node = cfg.nodes[d].ast if d >= 0 else None
            if not isinstance(node, ast.Assign):
                verdicts.append((False, f"{value.id}: not a plain assignment"))
                continue
            if isinstance(node.value, ast.Name) and depth < 3:
                direct = _bounded_expr(cfg, func, node, node.value, limit)
                verdicts.append(direct if direct[0] else _bounded(cfg, func, node, limit, depth + 1))
            else:
                verdicts.append(_bounded_expr(cfg, func, node, node.value, limit))
        return (bool(verdicts) and all(v for v, _ in verdicts), "; ".join(w for _, w in verdicts))
    return _bounded_expr(cfg, func, write, value, limit)


def _bounded_expr(cfg: CFG, func: ast.AST, stmt: ast.AST, value: ast.AST, limit: int) -> Tuple[bool, str]:
    text = txt(value)
    call = value.value if isinstance(value, ast.Subscript) else value
    if isinstance(call, ast.Call) and call_name(call) == "generate_unique_id":
        ml = kwarg(call, "max_length")
        if ml is not None:
            if isinstance(ml, ast.Constant) and isinstance(ml.value, int) and 0 < ml.value <= limit:
                return True, f"generate_unique_id(max_length={ml.value})"
            if isinstance(ml, ast.Name):
                # a local set on two arms: the bound on one, 'no limit' only where long names are allowed
                verdicts = []
                at_call = next((a for a in _ancestors(call) if isinstance(a, ast.stmt)), stmt)
                for d in cfg.reaching_defs(ml.id, cfg.n(at_call)):
                    node = cfg.nodes[d].ast if d >= 0 else None
                    val = node.value if isinstance(node, (ast.Assign, ast.AnnAssign)) else None
                    if isinstance(val, ast.IfExp):
                        ml = val
                        verdicts = None
                        break
                    try:
                        number = ast.literal_eval(val) if val is not None else None
                    except (ValueError, TypeError):
                        number = None
                    bounded_here = isinstance(number, int) and 0 < number <= limit
                    long_allowed = node is not None and any(t and "allow_long" in txt(e) for e, t in path_facts(cfg, node))
                    verdicts.append(bounded_here or long_allowed)
                if verdicts is not None:
                    if verdicts and all(verdicts):
                        return True, f"generate_unique_id(max_length={limit} unless long names are allowed)"
                    return False, f"{text[:50]}: no max_length <= {limit}"
            if isinstance(ml, ast.IfExp):
                arms = [ml.body, ml.orelse]
                bounded_arm = [a for a in arms if isinstance(a, ast.Constant) and isinstance(a.value, int) and 0 < a.value <= limit]
                if len(bounded_arm) == 1 and "allow_long" in txt(ml.test):
                    return True, f"generate_unique_id(max_length={limit} unless long names are allowed)"
        return False, f"{text[:50]}: no max_length <= {limit}"
    resolved = txt(inline_reaching(cfg, stmt, value))
    facts = []
    for fact, pol in path_facts(cfg, stmt, fresh_only=True):
        facts += _through_locals(cfg, fact, pol, stmt)
    for expr, truth in facts:
        cmp_ = effective_compare(expr, truth)
        cmp_ = oriented(cmp_, lambda e: isinstance(e, ast.Call) and call_name(e) == "len" and len(e.args) == 1) if cmp_ else None
        if cmp_ is None or not (isinstance(cmp_[2], ast.Constant) and isinstance(cmp_[2].value, int)):
            continue
        measured = cmp_[0].args[0]
        anchor = expr if hasattr(expr, "_parent") else stmt
        named = isinstance(measured, ast.NamedExpr) and isinstance(measured.target, ast.Name) and measured.target.id == text
        if not named and txt(measured) != text and txt(inline_reaching(cfg, anchor, measured)) != resolved:
            continue
        bound = cmp_[2].value
        if (cmp_[1] == "<=" and bound <= limit) or (cmp_[1] == "<" and bound <= limit + 1):
            return True, f"guarded by {'' if truth else 'not '}{txt(expr)}"
    return False, f"{text[:50]}: length not bounded by a guard"


def r16_3(ctx: Ctx) -> None:
    qual = "fix_record_name_id"
    func = ctx.fn(RP, qual)
    cfg = CFG(func)
    record = func.args.args[0].arg
    all_writes = _id_writes(func)
    # the shortening region: id writes that happen under the fact `len(<record>.id) > 16`
    writes = []
    for write in all_writes:
        for expr, truth in path_facts(cfg, write):
            if isinstance(expr, ast.Compare) and len(expr.ops) == 1 and txt(expr.left) == f"len({record}.id)" \
                    and isinstance(expr.comparators[0], ast.Constant) and \
                    ((truth and isinstance(expr.ops[0], ast.Gt) and expr.comparators[0].value == 16)
                     or (not truth and isinstance(expr.ops[0], ast.LtE) and expr.comparators[0].value == 16)):
                writes.append(write)
                break
    if not writes:
        raise AnalysisError("fix_record_name_id: no id write under `len(record.id) > 16` (the shortening region) found")
    for index, write in enumerate(writes):
        ok, why = _bounded(cfg, func, write, 16)
        ctx.ob("R16.3", RP, write, qual, f"bounded write#{index} {stmt_key(write)}", ok,
               "every id assigned by the shortening path is at most 16 characters long", detail="" if ok else why, form=why)
    # the stripping stage can only shorten or generate with the same bound
    later = [w for w in all_writes if w not in writes]
    charset = next((n.targets[0].id for n in walk_local(func) if isinstance(n, ast.Assign) and isinstance(n.targets[0], ast.Name)
                    and isinstance(n.value, ast.Call) and call_name(n.value) in ("set", "frozenset")), "")
    if not charset:
        charset = next((n.comparators[0].id for n in walk_local(func) if isinstance(n, ast.Compare) and len(n.ops) == 1
                        and isinstance(n.ops[0], (ast.In, ast.NotIn)) and isinstance(n.comparators[0], ast.Name)
                        and n.comparators[0].id.isupper()), "")
    for index, write in enumerate(later):
        val = write.value
        srcs = _sources(func, val.id) if isinstance(val, ast.Name) else [val]
        gens = [n.value for n in walk_local(func) if isinstance(n, ast.Assign) and isinstance(n.targets[0], ast.Tuple)
                and isinstance(val, ast.Name) and any(isinstance(e, ast.Name) and e.id == val.id for e in n.targets[0].elts)]
        ok = all(_bounded_expr(cfg, func, write, g, 16)[0] for g in gens) and all(
            _strip_of(v, charset) is not None or txt(v) == f"{record}.id" for v in srcs)
        ctx.ob("R16.3", RP, write, qual, f"later write#{index} {stmt_key(write)}", ok,
               "after shortening, the id only loses characters or is regenerated under the same bound",
               form="; ".join(txt(g)[:70] for g in gens))


def r16_4(ctx: Ctx) -> None:
    qual = "fix_record_name_id"
    func = ctx.fn(RP, qual)
    cfg = CFG(func)
    record = func.args.args[0].arg
    writes = _id_writes(func)
    olds = [n for n in walk_local(func) if isinstance(n, ast.Assign) and len(n.targets) == 1 and isinstance(n.targets[0], ast.Name)
            and txt(n.value) == f"{record}.id" and all(cfg.dominates(cfg.n(n), cfg.n(w)) for w in writes)]
    ok = len(olds) >= 1
    ctx.ob("R16.4", RP, olds[0] if olds else func, qual, "old id captured first", ok,
           "the incoming id is captured before any rewrite", form=stmt_key(olds[0]) if olds else "")
    old_names = {n.targets[0].id for n in olds}
    stores = [n for n in walk_local(func) if isinstance(n, ast.Assign) and txt(n.targets[0]) == f"{record}.original_id"
              and txt(n.value) in old_names]
    ok = len(stores) == 1
    form = ""
    if ok:
        store = stores[0]
        old = txt(store.value)
        form_nnf = facts_nnf(path_facts(cfg, store))
        lits = set(form_nnf[1])
        changed = {("lit", f"{old} == {record}.id", False), ("lit", f"{record}.id == {old}", False)} & lits
        unset = {("lit", f"{record}.original_id", False), ("lit", f"{record}.original_id is None", True)} & lits
        form = str(sorted(str(x) for x in lits))
        # reached on every normal path up to those two tests, and after the last id write
        tests = [n for n in cfg.nodes if n.kind == "test" and cfg.dominates(n.id, cfg.n(store)) and n.id != cfg.n(store)
                 and any(old in txt(e) for e, _ in literals(n.ast.test, True))]  # type: ignore[union-attr]
        first_test = tests[0].id if tests else cfg.n(store)
        ok = bool(changed) and bool(unset) and len(lits) == 2 and cfg.postdominates(first_test, cfg.entry) and \
            not any(cfg.n(w) in cfg.reach([first_test]) for w in writes)
    ctx.ob("R16.4", RP, stores[0] if stores else func, qual, "original id stored", ok,
           "on every normal path, after the last rewrite, a changed id stores the original (unless one is already stored)",
           form=form)
    pre = ctx.fn(RP, "pre_process_sequences", inline=True)
    cfg = CFG(pre)
    for write in _id_writes(pre):
        stores = [n for n in walk_local(pre) if isinstance(n, ast.Assign) and txt(n.targets[0]).endswith(".original_id")
                  and txt(n.value) == txt(write.targets[0])]
        ok = bool(stores) and cfg.dominates(cfg.n(stores[0]), cfg.n(write)) and cfg.n(stores[0]) != cfg.n(write)
        ctx.ob("R16.4", RP, write, "pre_process_sequences", "duplicate remembers original", ok,
               "a duplicate id is remembered as the original id before being replaced", form="")


def r16_5(ctx: Ctx) -> None:
    qual = "Record.add_cds_feature"
    func = ctx.fn(REC, qual)
    cfg = CFG(func)
    gene = func.args.args[1].arg
    mutations = []
    for node in walk_local(func):
        if isinstance(node, ast.Call) and txt(node.func) in ("self._cds_features.insert", "self._link_cds_to_parent"):
            mutations.append(node)
        if isinstance(node, ast.Assign) and txt(node.targets[0]).startswith(("self._cds_by_location[", "self._cds_by_name[",
                                                                             "self._cds_cache_dirty")):
            mutations.append(node)
    raises = [r for r in walk_local(func) if isinstance(r, ast.Raise)]
    ok = len(mutations) >= 4 and len(raises) >= 4
    first = min((cfg.n(m) for m in mutations), default=None)
    late = [r for r in raises if first is not None and cfg.n(r) in cfg.reach([first])]
    ctx.ob("R16.5", REC, func, qual, "checks before mutation", ok and not late,
           "the record is modified only after every check that can reject the gene", form=f"{len(raises)} raises, {len(mutations)} mutations")
    dup_loc = [r for r in raises if any(truth and isinstance(e, ast.Compare) and isinstance(e.ops[0], ast.In)
                                        and txt(e.comparators[0]) == "self._cds_by_location"
                                        for e, truth in path_facts(cfg, r))]
    ctx.ob("R16.5", REC, dup_loc[0] if dup_loc else func, qual, "duplicate location rejected", bool(dup_loc),
           "a second gene with the same location is rejected", form="")
    # the test `name in self._cds_by_name`: on its true edge every path raises or renames the locus tag with the checksum
    name_tests = []
    for node in cfg.nodes:
        if node.kind != "test" or node.ast is None or not hasattr(node.ast, "test"):
            continue
        for label, truth in (("T", True), ("F", False)):
            for expr, pol in literals(node.ast.test, truth):
                if isinstance(expr, ast.Compare) and len(expr.ops) == 1 and txt(expr.comparators[0]) == "self._cds_by_name" \
                        and ((isinstance(expr.ops[0], ast.In) and pol) or (isinstance(expr.ops[0], ast.NotIn) and not pol)) \
                        and txt(inline_reaching(cfg, expr, expr.left)) == f"{gene}.get_name()":
                    name_tests.append((node.id, label))
    ok = False
    if name_tests:
        tn, label = name_tests[0]
        renames = [s for s in walk_local(func) if isinstance(s, ast.Assign) and txt(s.targets[0]) == f"{gene}.locus_tag"]
        ok = bool(renames) and f"_location_checksum({gene})" in txt(inline_reaching(cfg, renames[0], renames[0].value))
        starts = [dst for dst, lab in cfg.succ[tn] if lab == label]
        rn = cfg.n(renames[0]) if renames else -1
        # from the taken-name edge, the first mutation is reachable only through the rename
        ok = ok and first is not None and all(first not in ({s} | cfg.reach([s], avoid=[rn])) for s in starts)
    ctx.ob("R16.5", REC, cfg.nodes[name_tests[0][0]].ast if name_tests else func, qual, "duplicate name renamed or rejected", ok,
           "a gene whose name is taken is either rejected or renamed with its location checksum before being stored", form="")
    san = ctx.fn(CDS, "_sanitise_id_value")
    ok = _replaces_illegal(san, ctx.repo, CDS)
    ctx.ob("R16.5", CDS, san, "_sanitise_id_value", "gene id sanitised", ok,
           "characters that break external programs are replaced in gene identifiers", form="")


def run(ctx: Ctx) -> None:
    ctx.rule("R16.1", "typestate: ids are assigned only when free and registered afterwards", floor=11)
    ctx.rule("R16.2", "illegal characters are removed last, with the documented character set", floor=4)
    ctx.rule("R16.3", "ids assigned by the shortening path are at most 16 characters", floor=3)
    ctx.rule("R16.4", "the original id is remembered when the id changes", floor=3)
    ctx.rule("R16.5", "duplicate gene names/locations are rejected or renamed before the record is modified", floor=4)
    r16_1(ctx)
    r16_2(ctx)
    r16_3(ctx)
    r16_4(ctx)
    r16_5(ctx)
