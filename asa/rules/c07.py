""" C07 Detection is invariant under origin rotation and rule order """

from __future__ import annotations

import ast
from typing import List

from ..astutil import call_name, calls, enclosing_loops, kwarg, last_attr, stmt_key, txt, walk_local
from ..cfg import CFG
from ..flow import bound_from, inline_reaching, iteration_independence
from ..index import AnalysisError, dotted
from ..report import Ctx
from . import c03

PROP = "C07"
CP = c03.CP
HD = "antismash/detection/hmm_detection/__init__.py"

EXPLANATION = (
    "Decides the rule-order clause and one structural necessary condition of the rotation clause. Rule order: "
    "(R07.1) per-rule non-interference of apply_cluster_rules by the loop-carried-definition rule (same analysis as "
    "R03.1); (R07.2) the outputs of the rule loop are partitioned by the rule's name and find_protoclusters rebuilds "
    "its working state for every rule; (R07.3) rule.superiors - the only sanctioned cross-rule channel - is read only "
    "by the two sanctioned functions; (R07.4) get_ruleset restricts rules with order-preserving filters only. "
    "Rotation: (R07.5) the sweep that joins protoclusters across the origin sorts by the start of the same "
    "cutoff-extended interval it compares (an extended core that wraps sorts to the front, which is what makes the "
    "first and last chain neighbours in the order for every position of the origin)."
    ' R07.6 also: the genes of a core are never re-derived by filtering the coordinate-sorted gene list.'
    " R07.9: on every path through get_ruleset the rule objects of the returned ruleset have been scaled by non-default "
    "multipliers at most once (construction scales in place and a copy shares the rule objects), so a rule's distances "
    "do not depend on whether the rules were limited."
)
UNDECIDED = [
    "rotation invariance as a whole (quantifies over coordinates of every gene, core and neighbourhood)",
    "equality of candidate clusters and regions under rotation",
]
TRUSTED = c03.TRUSTED


def r07_2(ctx: Ctx) -> None:
    func = ctx.fn(CP, "apply_cluster_rules")
    loop = c03.rule_loop(func)
    var = txt(loop.target)
    # accumulators: names defined before the outermost loop and mutated inside the rule loop
    outer = enclosing_loops(loop, stop=func)
    from ..flow import subscript_stores
    stores = [(site, subject) for site, subject in subscript_stores(func, loop)]
    if len(stores) < 4:
        raise AnalysisError("apply_cluster_rules: accumulator stores inside the rule loop not found")
    for index, (store, subject) in enumerate(stores):
        keys = []
        cur = subject
        while isinstance(cur, ast.Subscript):
            keys.append(txt(cur.slice))
            cur = cur.value
        root = txt(cur)
        created_inside = any(isinstance(n, (ast.Assign, ast.AnnAssign))
                             and any(isinstance(t, ast.Name) and t.id == root
                                     for t in (n.targets if isinstance(n, ast.Assign) else [n.target]))
                             for n in walk_local(loop))
        if created_inside:
            continue
        ok = f"{var}.name" in keys
        ctx.ob("R07.2", CP, store, "apply_cluster_rules", f"store#{index} into {root}[{']['.join(reversed(keys))}]", ok,
               "every store into an output accumulator inside the rule loop is indexed by the current rule's name, so a "
               "rule cannot write another rule's slot", form=stmt_key(store))
    _ = outer
    # find_protoclusters: working list re-created per rule
    fp = ctx.fn(CP, "find_protoclusters")
    cfg = CFG(fp)
    loops = [n for n in walk_local(fp) if isinstance(n, ast.For) and "cds_by_cluster_type" in txt(n.iter)]
    if not loops:
        raise AnalysisError("find_protoclusters: per-rule loop not found")
    rl = loops[0]
    ctors = [c for c in calls(rl) if call_name(c) == "Protocluster"]
    if not ctors:
        raise AnalysisError("find_protoclusters: Protocluster constructor not in the per-rule loop")
    problems, classes = iteration_independence(cfg, ctors[0], [rl], accumulators={"clusters"})
    bad = {p.name for p in problems}
    local = {n for node in cfg.nodes for n in cfg.defs_at(node.id)} | {a.arg for a in fp.args.args}
    for name, cls in sorted(classes.items()):
        if name in bad or name not in local:
            continue
        ctx.ob("R07.2", CP, ctors[0], "find_protoclusters", name, True,
               f"value '{name}' reaching the per-rule Protocluster construction does not carry state between rules",
               form=cls)
    for prob in problems:
        ctx.ob("R07.2", CP, prob.node, "find_protoclusters", prob.name, False,
               f"value '{prob.name}' reaching the per-rule Protocluster construction depends on an earlier rule "
               f"({prob.kind})", detail=prob.detail)


def r07_3(ctx: Ctx) -> None:
    readers: List[str] = []
    files = [rel for rel in ctx.repo.modules if rel.startswith(("antismash/common/hmm_rule_parser/",
                                                                "antismash/detection/hmm_detection/"))]
    if ctx.tier == "thorough":
        files = sorted(ctx.repo.modules)
    for rel in sorted(files):
        module = ctx.repo.modules[rel]
        ctx.repo.consulted.add(rel)
        from ..index import _walk_functions
        for qual, func in _walk_functions(module.tree, ""):
            if any(isinstance(n, ast.Attribute) and n.attr == "superiors" and isinstance(n.ctx, ast.Load)
                   and dotted(n) != "self.superiors" for n in walk_local(func)):
                readers.append(f"{rel}::{qual}")
    allowed = {f"{CP}::remove_redundant_protoclusters", f"{CP}::strip_inferior_domains",
               "antismash/common/hmm_rule_parser/rule_parser.py::Parser._parse_superiors"}
    # a private helper the reference tree did not have is an extraction: it reads on behalf of its callers
    from ..report import _reference_helpers
    attributed = set(readers)
    for reader in sorted(readers):
        rel, qual = reader.split("::")
        last = qual.split(".")[-1]
        outer_reader = f"{rel}::{qual.rsplit('.', 1)[0]}" if "." in qual else None
        if reader not in allowed and outer_reader in allowed and qual not in _reference_helpers().get("__nested__", {}).get(rel, []):
            # a function nested in a sanctioned reader (an extraction) reads on its behalf
            attributed.discard(reader)
            attributed.add(outer_reader)
            continue
        if reader in allowed or not last.startswith("_") or last.startswith("__") or qual in _reference_helpers().get(rel, []):
            continue
        prefix = qual.rsplit(".", 1)[0] + "." if "." in qual else ""
        callers = [f"{rel}::{q}" for q, f in _walk_functions(ctx.repo.modules[rel].tree, "")
                   if q != qual and any(last_attr(c) == last or call_name(c) == last for c in calls(f))
                   and (not prefix or q.startswith(prefix))]
        if callers and all(c in allowed for c in callers):
            attributed.discard(reader)
            attributed |= set(callers)
    readers = sorted(attributed)
    extra = sorted(set(readers) - allowed)
    ctx.ob("R07.3", CP, 0, "<package>", "readers of rule.superiors", not extra and len(set(readers) & allowed) == 3,
           "another rule's superiors are consulted only by the parser's closure and the two sanctioned cross-rule steps",
           detail=f"unexpected readers: {extra}" if extra else "", form=str(sorted(readers)))


def r07_4(ctx: Ctx) -> None:
    func = ctx.fn(HD, "get_ruleset")
    repl = [c for c in calls(func) if last_attr(c) == "copy_with_replacements"]
    forms: list = []

    def order_preserving(expr: ast.AST, seen: tuple = ()) -> bool:
        """ expr holds the ruleset's rules, restricted by order-preserving filters only """
        if isinstance(expr, ast.Attribute) and expr.attr == "rules":
            return True
        if isinstance(expr, ast.Name):
            if expr.id in seen:
                return True
            values = bound_from(func, expr.id)
            forms.extend(txt(v)[:60] for v in values)
            return bool(values) and all(order_preserving(v, seen + (expr.id,)) for v in values)
        if isinstance(expr, ast.Call) and call_name(expr) == "filter" and len(expr.args) == 2:
            return order_preserving(expr.args[1], seen)
        if isinstance(expr, ast.Call) and call_name(expr) in ("list", "tuple") and len(expr.args) == 1 and not expr.keywords:
            return order_preserving(expr.args[0], seen)
        if isinstance(expr, (ast.ListComp, ast.GeneratorExp)) and len(expr.generators) == 1:
            return order_preserving(expr.generators[0].iter, seen)
        return False
    handed = kwarg(repl[0], "rules") if len(repl) == 1 else None
    ok = handed is not None and order_preserving(handed)
    ctx.ob("R07.4", HD, func, "get_ruleset", "rule restriction", ok,
           "the rule subset is obtained from the full, file-ordered rule tuple by order-preserving filters only "
           "(no sorting, no set)", form="; ".join(forms)[:200])

    def materialised(expr: ast.AST, seen: tuple = ()) -> bool:
        if isinstance(expr, ast.Call) and call_name(expr) in ("list", "tuple"):
            return True
        if isinstance(expr, ast.ListComp):
            return True
        if isinstance(expr, ast.Name) and expr.id not in seen:
            values = bound_from(func, expr.id)
            return bool(values) and all(materialised(v, seen + (expr.id,)) for v in values)
        return False
    ok = handed is not None and materialised(handed)
    ctx.ob("R07.4", HD, repl[0] if repl else func, "get_ruleset", "rules handed on in order", ok,
           "the filtered rules are materialised in order (a list or tuple, not a one-shot iterator)",
           form=txt(repl[0])[:100] if repl else "")
    files = ctx.fn(HD, "_get_rule_files_for_strictness")
    fcfg = CFG(files)
    param = files.args.args[0].arg if files.args.args else "strictness"
    ok = False
    # the levels up to and including the requested one, in the order of the fixed tuple
    for node in ast.walk(files):
        if isinstance(node, ast.Subscript) and txt(node.value) == "_STRICTNESS_LEVELS" and isinstance(node.slice, ast.Slice) \
                and node.slice.lower is None and node.slice.step is None and node.slice.upper is not None:
            stmt = next((a for a in [node] + list(_ancestors(node)) if isinstance(a, ast.stmt)), None)
            upper = txt(inline_reaching(fcfg, stmt, node.slice.upper)) if stmt is not None else txt(node.slice.upper)
            if upper in (f"_STRICTNESS_LEVELS.index({param}) + 1", f"1 + _STRICTNESS_LEVELS.index({param})"):
                ok = True
    ok = ok and not any(call_name(c) in ("sorted", "set", "reversed", "frozenset") for c in calls(files))
    ctx.ob("R07.4", HD, files, "_get_rule_files_for_strictness", "file order", ok,
           "rule files are read in the fixed strictness order (superiors must be defined before their inferiors)", form="")


def _ancestors(node: ast.AST):
    cur = getattr(node, "_parent", None)
    while cur is not None:
        yield cur
        cur = getattr(cur, "_parent", None)


def r07_6(ctx: Ctx) -> None:
    """ edge genes of a core: the within-location lookup returns genes in the location's own (cyclic) order - for a
        core spanning the origin the pre-origin genes come first - so the first/last element are the core's edge genes.
        Re-sorting that list puts post-origin genes first and swaps the edges. """
    count = 0
    for qual in ("apply_extenders", "remove_redundant_protoclusters.get_first_and_last", "remove_redundant_protoclusters"):
        func = ctx.fn(CP, qual)
        indexed = {}
        for node in walk_local(func):
            if isinstance(node, ast.Subscript) and isinstance(node.value, ast.Name) and isinstance(node.ctx, ast.Load) \
                    and txt(node.slice) in ("0", "-1"):
                indexed.setdefault(node.value.id, node)
        for name, node in sorted(indexed.items()):
            srcs = [v for v in bound_from(func, name) if "get_cds_features_within_location" in txt(v)]
            if not srcs:
                # the genes of a location re-derived by filtering the record's coordinate-sorted gene list
                filtered = [v for v in bound_from(func, name) if isinstance(v, (ast.ListComp, ast.GeneratorExp, ast.Call))
                            and ("is_contained_by" in txt(v) or "location_contains_other" in txt(v))]
                if filtered:
                    count += 1
                    ctx.ob("R07.6", CP, node, qual, f"edge genes from {name}", False,
                           "the first/last gene of a core are taken from the lookup result in its own cyclic order; a filter over "
                           "the record's gene list is in plain coordinate order, so for a core spanning the origin its first and "
                           "last elements are the two genes next to the origin, not the core's edge genes",
                           detail=f"`{name}` = {txt(filtered[0])[:80]}", form=f"{name} = {txt(filtered[0])[:80]}")
                continue
            count += 1
            direct = all(isinstance(v, ast.Call) and last_attr(v) == "get_cds_features_within_location" for v in srcs)
            ctx.ob("R07.6", CP, node, qual, f"edge genes from {name}", direct,
                   "the first/last gene of a core are taken from the lookup result in its own cyclic order, not from a "
                   "re-sorted copy (sorting puts the post-origin genes of an origin-spanning core first)",
                   detail="" if direct else f"`{name}` = {txt(srcs[0])[:80]}", form=f"{name} = {txt(srcs[0])[:80]}")
    if count < 2:
        raise AnalysisError(f"expected at least 2 edge-gene uses of the within-location lookup, found {count}")


def r07_9(ctx: Ctx) -> None:
    """ "the protoclusters found for a rule do not depend on which other rules are in the ruleset": a Ruleset scales the
        cutoff and neighbourhood of its rule objects in place when it is constructed, and copy_with_replacements
        constructs another Ruleset over the same rule objects (dataclasses.replace runs __post_init__ again, with the
        multipliers handed over or inherited).  On every path through get_ruleset the rule objects of the ruleset that
        is returned have met non-default multipliers at most once - twice on the path that restricts the rules and once
        on the other makes a rule's distances depend on the selection. """
    qual = "get_ruleset"
    func = ctx.fn(HD, qual)
    # the constructor scales in place: confirm on the class itself, so that the rule follows the code
    post = ctx.fn(CP, "Ruleset.__post_init__")
    in_place = [n for n in walk_local(post) if isinstance(n, ast.Assign) and any(
        isinstance(t, ast.Attribute) and t.attr in ("cutoff", "neighbourhood") for t in n.targets) and "multipliers" in txt(n.value)]
    if not in_place:
        ctx.ob("R07.9", CP, post, "Ruleset.__post_init__", "rules are scaled on construction", True,
               "no in-place scaling on construction: copies cannot scale twice", form="no scaling statement found")
        return

    class State(dict):
        pass

    def build(value: ast.AST, state: dict):
        """ (times scaled, carries non-default multipliers) for a Ruleset-valued expression, None for anything else """
        if not isinstance(value, ast.Call):
            return state.get(txt(value)) if isinstance(value, ast.Name) else None
        name = call_name(value)
        if name.endswith("Ruleset.from_files") or name == "Ruleset" or name.endswith(".create_ruleset"):
            given = kwarg(value, "multipliers")
            carries = given is not None and not (isinstance(given, ast.Call) and call_name(given) == "Multipliers"
                                                 and not given.args and not given.keywords)
            return (1 if carries else 0, carries)
        if last_attr(value) == "copy_with_replacements" and isinstance(value.func, ast.Attribute):
            src = state.get(txt(value.func.value))
            if src is None:
                return None
            times, carried = src
            rules_arg = kwarg(value, "rules")
            fresh = rules_arg is not None and any(isinstance(n, ast.Call) and call_name(n).split(".")[-1] == "deepcopy"
                                                  for n in ast.walk(inline_reaching(CFG(func), value, rules_arg)))
            if fresh:
                times = 0
            given = kwarg(value, "multipliers")
            carries = carried if given is None else True
            return (times + (1 if carries else 0), carries)
        return None

    checked = [0]

    def walk(stmts, state: dict) -> dict:
        for st in stmts:
            if isinstance(st, (ast.Assign, ast.AnnAssign)) and getattr(st, "value", None) is not None:
                targets = st.targets if isinstance(st, ast.Assign) else [st.target]
                made = build(st.value, state)
                for t in targets:
                    if isinstance(t, ast.Name):
                        if made is not None:
                            state[t.id] = made
                            if isinstance(st.value, ast.Call):
                                checked[0] += 1
                                ctx.ob("R07.9", HD, st, qual, f"ruleset built at `{stmt_key(st)[:50]}`", made[0] <= 1,
                                       "the rule objects of a ruleset meet non-default multipliers at most once on every path "
                                       "(a Ruleset scales its rules in place when constructed; a copy shares the rule objects)",
                                       detail="" if made[0] <= 1 else "the copy is constructed over rules the first construction has "
                                       "already scaled, with the same multipliers inherited: under --taxon fungi a rule's neighbourhood "
                                       "is 1.5x with all rules and 2.25x when the rules are limited",
                                       form=f"scaled {made[0]}x on this path")
                        elif t.id in state and not isinstance(st.value, ast.Name):
                            state.pop(t.id)
            elif isinstance(st, ast.If):
                a = walk(st.body, dict(state))
                b = walk(st.orelse, dict(state))
                merged = {}
                for key in set(a) | set(b):
                    va, vb = a.get(key), b.get(key)
                    if va is None or vb is None:
                        merged[key] = va or vb
                    else:
                        merged[key] = (max(va[0], vb[0]), va[1] or vb[1])
                state = merged
            elif isinstance(st, (ast.For, ast.While, ast.With, ast.Try)):
                for field in ("body", "orelse", "finalbody"):
                    state = walk(getattr(st, field, []) or [], state)
        return state

    walk(func.body, {})
    if checked[0] < 1:
        raise AnalysisError(f"{qual}: no Ruleset construction recognised (from_files / copy_with_replacements)")


def run(ctx: Ctx) -> None:
    ctx.rule("R07.1", "loop-carried definition rule on the per-rule evaluation in apply_cluster_rules", floor=5)
    ctx.rule("R07.2", "rule-loop outputs are partitioned by rule name; per-rule working state is rebuilt", floor=6)
    ctx.rule("R07.3", "rule.superiors is the only cross-rule channel and is read by sanctioned functions only", floor=1)
    ctx.rule("R07.4", "rule selection preserves order", floor=3)
    ctx.rule("R07.5", "sorted-sweep consistency of the origin merge", floor=3)
    c03.r03_1(ctx, "R07.1")
    r07_2(ctx)
    r07_3(ctx)
    r07_4(ctx)
    ctx.rule("R07.6", "edge genes of a core come from the lookup in its own cyclic order", floor=2)
    r07_6(ctx)
    ctx.rule("R07.7", "the sorted sweep over circular intervals is closed by a last/first comparison", floor=1)
    c03.r03_7(ctx, "R07.7")
    ctx.rule("R07.8", "distances used by detection are wrap-aware", floor=4)
    c03.r03_6(ctx, "R07.8")
    ctx.rule("R07.9", "a ruleset's rule objects are scaled by the taxon multipliers at most once on every path", floor=1)
    r07_9(ctx)
    # R07.5 = R03.5 recorded under this property
    before = len(ctx.obs)
    c03.r03_5(ctx)
    for ob in ctx.obs[before:]:
        ob.rule = "R07.5"
