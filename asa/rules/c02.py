""" C02 Rule text is parsed by the documented grammar, precedence and aliases """

from __future__ import annotations

import ast
import re
from typing import Dict, List, Optional, Set, Tuple

from ..astutil import arg_of, call_name, calls, guards, kwarg, last_attr, stmt_key, txt, walk_local
from ..cfg import CFG
from ..flow import bound_from, inline_reaching
from ..index import UNRESOLVED, AnalysisError, dotted
from ..kernel import affine
from ..report import Ctx

PROP = "C02"
RP = "antismash/common/hmm_rule_parser/rule_parser.py"
CP = "antismash/common/hmm_rule_parser/cluster_prediction.py"

EXPLANATION = (
    "The parser is a hand-written recursive descent; its precedence is the layering of who-calls-whom between the "
    "methods that consume the OR, AND and NOT tokens. R02.1 discovers those roles from token consumption and checks "
    "the layering, that negation is consumed before the atom and handed to every condition constructor, and that "
    "recursion to the lowest-precedence level happens only between a consumed '(' and ')' (with cds entering with "
    "allow_cds=False). R02.2 checks agreement of the token enum, the tokeniser mapping, the keyword predicate and "
    "the grammar in the module docstring. R02.3 checks kilobase scaling, that each multiplier scales its own field, "
    "that scaling is applied once per construction path, and that text reconstruction inverts it. R02.4 checks "
    "every documented rejection is a raise that dominates acceptance. R02.5 checks the SUPERIORS closure. R02.6 "
    "checks that every consumed token (alias substitutions included) is recorded for the unknown-identifier check."
)
UNDECIDED = [
    "that every grammatical text parses to the tree the grammar denotes (needs generation from the grammar)",
    "alias splicing positions and line/column bookkeeping",
    "whitespace and comment irrelevance of the tokeniser's character loop",
    "meaning of the shipped rule files; reconstruct->parse round trip equality",
]
TRUSTED = ["CPython ast", "asa.cfg", "enum.IntEnum member values are the literal ints in the class body"]


def parser_methods(ctx: Ctx) -> Dict[str, ast.FunctionDef]:
    info = ctx.repo.cls(RP, "Parser")
    return {n.name: n for n in info.node.body if isinstance(n, ast.FunctionDef)}


def consumed_tokens(func: ast.AST) -> List[Tuple[str, ast.Call]]:
    result = []
    for call in calls(func):
        if call_name(call) == "self._consume" and call.args:
            name = dotted(call.args[0])
            if name and name.startswith("TokenTypes."):
                result.append((name.split(".")[1], call))
    return result


def self_calls(func: ast.AST) -> List[Tuple[str, ast.Call]]:
    return [(call.func.attr, call) for call in calls(func)  # type: ignore[attr-defined]
            if isinstance(call.func, ast.Attribute) and isinstance(call.func.value, ast.Name)
            and call.func.value.id == "self"]


def r02_1(ctx: Ctx) -> None:
    methods = parser_methods(ctx)
    consumers: Dict[str, List[str]] = {}
    for name, node in methods.items():
        for token, _ in consumed_tokens(node):
            consumers.setdefault(token, [])
            if name not in consumers[token]:
                consumers[token].append(name)

    def role(token: str) -> str:
        found = consumers.get(token, [])
        if len(found) != 1:
            raise AnalysisError(f"Parser: token {token} is consumed by {found}; cannot assign a precedence role")
        return found[0]
    f_and = role("AND")
    f_not = role("NOT")
    or_methods = consumers.get("OR", [])
    if len(or_methods) != 1:
        raise AnalysisError(f"Parser: OR consumed by {or_methods}")
    f_or = or_methods[0]
    atom_callers = [name for name, node in methods.items() if any(n == f_not for n, _ in self_calls(node))]
    if len(atom_callers) != 1:
        raise AnalysisError(f"Parser: negation parser {f_not} is called from {atom_callers}")
    f_atom = atom_callers[0]
    for name in (f_or, f_and, f_not, f_atom):
        ctx.functions.add(f"{RP}::Parser.{name}")
    parse_calls = lambda node: [(n, c) for n, c in self_calls(node) if n.startswith("_parse")]  # noqa: E731

    # (a) OR level takes operands from the atom or AND level only
    got = {n for n, _ in parse_calls(methods[f_or])}
    ctx.ob("R02.1", RP, methods[f_or], f"Parser.{f_or}", "or-level operands", got <= {f_atom, f_and} and f_atom in got,
           "'or' (lowest precedence) obtains its operands from the 'and' level or the atom level only",
           form=f"{f_or} calls {sorted(got)}")
    # (b) AND level takes operands from the atom level only, and loops while AND follows
    got = {n for n, _ in parse_calls(methods[f_and])}
    ctx.ob("R02.1", RP, methods[f_and], f"Parser.{f_and}", "and-level operands", got == {f_atom},
           "'and' obtains its operands from the atom level only, so it binds tighter than 'or'",
           form=f"{f_and} calls {sorted(got)}")
    loops = [n for n in walk_local(methods[f_and]) if isinstance(n, ast.While)]
    def continues_on_and(lp: ast.While) -> bool:
        """ the loop goes round again exactly on the strength of a test for a following AND: in its own test, in a flag
            the body sets from such a test, or in the test of a `break` """
        if "TokenTypes.AND" in txt(lp.test):
            return True
        if isinstance(lp.test, ast.Name):
            return any("TokenTypes.AND" in txt(n.value) for n in walk_local(lp)
                       if isinstance(n, ast.Assign) and any(isinstance(t, ast.Name) and t.id == lp.test.id for t in n.targets))
        if isinstance(lp.test, ast.Constant) and lp.test.value is True:
            return any(isinstance(n, ast.If) and "TokenTypes.AND" in txt(n.test) and any(isinstance(b, ast.Break) for b in walk_local(n))
                       for n in walk_local(lp))
        return False
    ok = any(continues_on_and(lp) and any(t == "AND" for t, _ in consumed_tokens(lp))
             and any(n == f_atom for n, _ in parse_calls(lp)) for lp in loops)
    ctx.ob("R02.1", RP, methods[f_and], f"Parser.{f_and}", "and-chain loop", ok,
           "a chain `a and b and c` is collected by looping while the next token is AND",
           form="; ".join(txt(lp.test) for lp in loops))
    ret = [r for r in walk_local(methods[f_and]) if isinstance(r, ast.Return)]
    ctx.ob("R02.1", RP, methods[f_and], f"Parser.{f_and}", "and-level result",
           len(ret) == 1 and isinstance(ret[0].value, ast.Call) and call_name(ret[0].value) == "AndCondition",
           "the and-level returns one AndCondition over the collected operands", form=txt(ret[0].value) if ret else "")
    # the lvalue handed to the and-level is the atom parsed last
    for name, call in parse_calls(methods[f_or]):
        if name == f_and:
            first = arg_of(call, 0, "lvalue")
            srcs = bound_from(methods[f_or], first.id) if isinstance(first, ast.Name) else []
            ok = bool(srcs) and all(isinstance(s, ast.Call) and call_name(s) == f"self.{f_atom}" for s in srcs)
            ctx.ob("R02.1", RP, call, f"Parser.{f_or}", "and-level lvalue", ok,
                   "the left operand handed to the and-level is the most recently parsed atom", form=txt(call))
    # (c) NOT is consumed before the atom and reaches every constructor
    atom = methods[f_atom]
    cfg = CFG(atom)
    not_calls = [c for n, c in self_calls(atom) if n == f_not]
    first_stmt = next((s for s in atom.body if not (isinstance(s, ast.Expr) and isinstance(s.value, ast.Constant))), None)
    neg_names = {t.id for s in [first_stmt] if isinstance(s, ast.Assign) and s.value in not_calls
                 for t in s.targets if isinstance(t, ast.Name)}
    ctx.ob("R02.1", RP, atom, f"Parser.{f_atom}", "negation first", len(neg_names) == 1,
           "the optional 'not' is consumed before anything else of the atom, so it binds tighter than and/or",
           form=stmt_key(first_stmt) if first_stmt is not None else "")
    neg = next(iter(neg_names), "negated")
    for index, r in enumerate(x for x in walk_local(atom) if isinstance(x, ast.Return)):
        val = r.value
        ok = isinstance(val, ast.Call) and any(
            (isinstance(a, ast.Name) and a.id == neg) for a in list(val.args) + [k.value for k in val.keywords])
        ctx.ob("R02.1", RP, r, f"Parser.{f_atom}", f"negation passed#{index}", ok,
               "the parsed negation flag is passed to the condition built for the atom", form=txt(val)[:120])
    ctx.ob("R02.1", RP, methods[f_not], f"Parser.{f_not}", "negation consumes NOT",
           any(t == "NOT" for t, _ in consumed_tokens(methods[f_not])) and "TokenTypes.NOT" in txt(methods[f_not]),
           "negation is recognised by the NOT token and consumes it", form="")
    # (d) recursion to the or-level only between '(' and ')'
    for name, node in methods.items():
        for callee, call in parse_calls(node):
            if callee != f_or:
                continue
            qual = f"Parser.{name}"
            ctx.functions.add(f"{RP}::{qual}")
            if name == "_parse_rule":
                ok = any(t == "CONDITIONS" for t, _ in consumed_tokens(node))
                ctx.ob("R02.1", RP, call, qual, "top-level conditions", ok,
                       "the top-level condition is parsed after the CONDITIONS marker", form=txt(call))
                continue
            g = CFG(node)
            opens = [g.n(c) for t, c in consumed_tokens(node) if t == "GROUP_OPEN"]
            closes = [g.n(c) for t, c in consumed_tokens(node) if t == "GROUP_CLOSE"]
            target = g.n(call)
            before = any(g.dominates(o, target) and o != target for o in opens)
            after = any(g.postdominates(c, target) and c != target for c in closes)
            ctx.ob("R02.1", RP, call, qual, "group recursion", before and after,
                   "recursion to the or-level happens only after consuming '(' and is followed by consuming ')' on every "
                   "normal path", form=f"{txt(call)}; '(' dominates: {before}; ')' post-dominates: {after}")
            grp = kwarg(call, "is_group") or arg_of(call, 1)
            ctx.ob("R02.1", RP, call, qual, "group flag", isinstance(grp, ast.Constant) and grp.value is True,
                   "the recursive call is told it is inside a group (so it stops at ')')", form=txt(call))
            if any(t == "CDS" for t, _ in consumed_tokens(node)):
                allow = kwarg(call, "allow_cds") or arg_of(call, 0)
                ctx.ob("R02.1", RP, call, qual, "cds nesting", isinstance(allow, ast.Constant) and allow.value is False,
                       "inside cds(...) the inner formula is parsed with allow_cds=False (no nested cds/minimum)",
                       form=txt(call))
            else:
                allow = kwarg(call, "allow_cds") or arg_of(call, 0)
                ctx.ob("R02.1", RP, call, qual, "group keeps cds flag", isinstance(allow, ast.Name) and allow.id == "allow_cds",
                       "a plain group forwards the caller's allow_cds", form=txt(call))
    # atom level: cds/minimum only when allowed
    from ..flow import fact_texts as _facts
    acfg = CFG(atom)
    for node in [c for c in calls(atom) if last_attr(c) in ("_parse_minimum", "_parse_cds")]:
        if True:
            ok = "allow_cds" in _facts(acfg, node)
            ctx.ob("R02.1", RP, node, f"Parser.{f_atom}", f"allow_cds guard {last_attr(node)}", ok,
                   "cds(...) and minimum(...) atoms are accepted only where allowed", form=txt(node))
    _ = cfg


def token_enum(ctx: Ctx) -> Dict[str, int]:
    info = ctx.repo.cls(RP, "TokenTypes")
    members = {}
    for node in info.node.body:
        if isinstance(node, ast.Assign) and len(node.targets) == 1 and isinstance(node.targets[0], ast.Name) \
                and isinstance(node.value, ast.Constant) and isinstance(node.value.value, int):
            members[node.targets[0].id] = node.value.value
    if len(members) < 20:
        raise AnalysisError("TokenTypes: enum members not found")
    return members


def r02_2(ctx: Ctx) -> None:
    module = ctx.repo.mod(RP)
    members = token_enum(ctx)
    tok = ctx.repo.cls(RP, "Tokeniser")
    found = ctx.repo.class_attr_node(tok, "mapping")
    if found is None or not isinstance(found[1], ast.Dict):
        raise AnalysisError("Tokeniser.mapping literal not found")
    mapping: Dict[str, str] = {}
    dup_keys = []
    for key, val in zip(found[1].keys, found[1].values):
        if not isinstance(key, ast.Constant) or not dotted(val) or not dotted(val).startswith("TokenTypes."):
            raise AnalysisError(f"Tokeniser.mapping entry not literal: {txt(key)}: {txt(val)}")
        if key.value in mapping:
            dup_keys.append(key.value)
        mapping[key.value] = dotted(val).split(".")[1]
    variable = {"IDENTIFIER", "INT", "TEXT"}
    values = list(mapping.values())
    ctx.ob("R02.2", RP, found[1], "Tokeniser", "mapping covers enum",
           set(values) == set(members) - variable and not dup_keys,
           "every terminal token type has a spelling in the tokeniser mapping and every mapping value is a token type",
           form=f"unmapped={sorted(set(members) - variable - set(values))} unknown={sorted(set(values) - set(members))}")
    ctx.ob("R02.2", RP, found[1], "Tokeniser", "mapping injective", len(values) == len(set(values)),
           "no two spellings map to the same token type", form=f"{len(values)} entries, {len(set(values))} types")
    ctx.ob("R02.2", RP, info_node(ctx, "TokenTypes"), "TokenTypes", "enum values distinct",
           len(set(members.values())) == len(members), "token types have distinct values",
           form=f"{len(members)} members")
    # keyword predicate resolved from the integer values
    kw_func = ctx.fn(RP, "TokenTypes.is_a_rule_keyword")
    rets = [r for r in walk_local(kw_func) if isinstance(r, ast.Return)]
    keywords: Optional[Set[str]] = None
    if len(rets) == 1:
        expr = rets[0].value
        try:
            keywords = set()
            for name, value in members.items():
                env = {f"self.{m}": v for m, v in members.items()}
                env["self.value"] = value
                env["self"] = value
                from ..kernel import evaluate
                if evaluate(expr, env):
                    keywords.add(name)
        except AnalysisError as err:
            ctx.cannot("R02.2", RP, rets[0], "TokenTypes.is_a_rule_keyword", "predicate", str(err))
            keywords = None
    if keywords is not None:
        upper = {mapping[k] for k in mapping if k.isupper()}
        ctx.ob("R02.2", RP, rets[0], "TokenTypes.is_a_rule_keyword", "keyword set", keywords == upper,
               "the tokens classified as rule-structure keywords are exactly the upper-case section markers",
               form=f"predicate={sorted(keywords)} markers={sorted(upper)}")
        doc = ast.get_docstring(module.tree) or ""
        markers = set(re.findall(r"^\s*([A-Z_]+)_MARKER\s*=\s*[\"']([A-Z]+)[\"']", doc, re.M))
        doc_names = {spelling for _, spelling in markers}
        ctx.ob("R02.2", RP, 1, "<module docstring>", "grammar markers",
               doc_names == {k for k in mapping if k.isupper()},
               "the *_MARKER terminals of the documented grammar are exactly the tokeniser's section markers",
               form=f"doc={sorted(doc_names)} mapping={sorted(k for k in mapping if k.isupper())}")
        labels = dict(re.findall(r"^\s*([A-Z_]+)_LABEL\s*=\s*'([a-z]+)'", doc, re.M))
        ops = set(re.findall(r"'(and|or|not)'", doc))
        lower = {k for k in mapping if k.isalpha() and k.islower()}
        ctx.ob("R02.2", RP, 1, "<module docstring>", "grammar labels and operators",
               set(labels.values()) | ops == lower,
               "the documented function labels and operators are exactly the tokeniser's lower-case words",
               form=f"doc={sorted(set(labels.values()) | ops)} mapping={sorted(lower)}")
    singles = [k for k in mapping if len(k) == 1]
    ctx.ob("R02.2", RP, found[1], "Tokeniser", "single-character tokens",
           all(not k.isalnum() and k not in "-_" for k in singles) and len(singles) >= 6,
           "single-character token spellings are punctuation that cannot occur inside identifiers",
           form=str(sorted(singles)))
    # classify falls back to INT / IDENTIFIER / TEXT only when the mapping has no entry
    classify = ctx.fn(RP, "TokenTypes.classify")
    from ..flow import nnf_literals, resolved_facts
    ccfg = CFG(classify)
    word = classify.args.args[1].arg
    lookup = f"Tokeniser.mapping.get({word})"
    fallbacks = [r for r in walk_local(classify) if isinstance(r, (ast.Return, ast.Assign)) and r.value is not None
                 and txt(r.value) in ("cls.INT", "cls.IDENTIFIER", "cls.TEXT")]
    member = f"{word} in Tokeniser.mapping"
    subscript = f"Tokeniser.mapping[{word}]"
    ok = len(fallbacks) == 3 and all(
        {(f"{lookup} is None", True), (f"{lookup} is not None", False), (lookup, False), (member, False)}
        & nnf_literals(resolved_facts(ccfg, r)) for r in fallbacks)
    mapped = [r for r in walk_local(classify) if isinstance(r, ast.Return) and r.value is not None and r not in fallbacks
              and (txt(inline_reaching(ccfg, r, r.value)) == lookup
                   or any(txt(v) == lookup for n in ast.walk(r.value) if isinstance(n, ast.Name) for v in bound_from(classify, n.id))
                   or (txt(inline_reaching(ccfg, r, r.value)) == subscript
                       and (member, True) in nnf_literals(resolved_facts(ccfg, r))))]
    ok = ok and bool(mapped)
    ctx.ob("R02.2", RP, classify, "TokenTypes.classify", "mapping first", ok,
           "a word is classified by the mapping first; only unmapped words become INT / IDENTIFIER / TEXT", form="")


def _ancestors_of(node: ast.AST, stop: ast.AST):
    cur = getattr(node, "_parent", None)
    while cur is not None and cur is not stop:
        yield cur
        cur = getattr(cur, "_parent", None)


def info_node(ctx: Ctx, name: str) -> ast.AST:
    return ctx.repo.cls(RP, name).node


def r02_3(ctx: Ctx) -> None:
    methods = parser_methods(ctx)
    rule = methods["_parse_rule"]
    ctx.functions.add(f"{RP}::Parser._parse_rule")
    for field in ("cutoff", "neighbourhood"):
        vals = bound_from(rule, field)
        ok = len(vals) == 1
        form = ""
        if ok:
            aff = affine(vals[0])
            form = str(aff)
            ok = aff.const == 0 and list(aff.terms.values()) == [1000] and "_consume_int" in next(iter(aff.terms))
            marker = field.upper()
            # the int is consumed right after its own marker
            seq = [t for t, _ in consumed_tokens(rule)]
            stmts = [s for s in walk_local(rule) if isinstance(s, (ast.Expr, ast.Assign))]
            order = [txt(s) for s in stmts if "_consume" in txt(s)]
            idx = next((i for i, s in enumerate(order) if f"TokenTypes.{marker}" in s), -1)
            ok = ok and idx >= 0 and idx + 1 < len(order) and order[idx + 1].startswith(f"{field} =")
            _ = seq
        ctx.ob("R02.3", RP, vals[0] if vals else rule, "Parser._parse_rule", f"{field} in kilobases", ok,
               f"{field} is the integer after the {field.upper()} marker times 1000", form=form)
    for call in calls(rule):
        if call_name(call) == "DetectionRule":
            detect = ctx.repo.cls(RP, "DetectionRule")
            init = ctx.repo.method(detect, "__init__", inherited=False)
            names = [a.arg for a in init[1].args.args[1:]] if init else []
            ok = all(isinstance(a, ast.Name) and i < len(names) and (a.id == names[i] or (names[i] == "name" and a.id == "rule_name"))
                     for i, a in enumerate(call.args)) and all(
                isinstance(k.value, ast.Name) and k.value.id == k.arg for k in call.keywords)
            ctx.ob("R02.3", RP, call, "Parser._parse_rule", "DetectionRule(...) roles", ok,
                   "every parsed section reaches the DetectionRule parameter of the same name",
                   form=txt(call)[:160])
    # multipliers: each scales its own field, at every scaling site
    sites = []
    for rel, qual in ((RP, "Parser.__init__"), (CP, "Ruleset.__post_init__")):
        func = ctx.fn(rel, qual, inline=True)
        for node in walk_local(func):
            if isinstance(node, ast.Assign) and len(node.targets) == 1 and isinstance(node.targets[0], ast.Attribute) \
                    and node.targets[0].attr in ("cutoff", "neighbourhood") and "multipliers" in txt(node.value):
                field = node.targets[0].attr
                owner = txt(node.targets[0].value)
                val = node.value
                inner = val.args[0] if isinstance(val, ast.Call) and call_name(val) == "int" and len(val.args) == 1 else None
                ok = isinstance(inner, ast.BinOp) and isinstance(inner.op, ast.Mult) and \
                    {txt(inner.left), txt(inner.right)} & {f"{owner}.{field}"} and \
                    any(txt(side).endswith(f"multipliers.{field}") for side in (inner.left, inner.right))
                sites.append((rel, qual))
                ctx.ob("R02.3", rel, node, qual, f"scale {field}", bool(ok),
                       f"rule.{field} is scaled by multipliers.{field} (its own multiplier)", form=stmt_key(node))
    if len(sites) < 4:
        raise AnalysisError(f"expected 4 multiplier scaling statements, found {len(sites)}")
    # each rule is scaled once: the parser scales the rule it has just parsed, never a collection that also holds
    # rules handed in from earlier texts (those were scaled by the parser that produced them)
    init = ctx.fn(RP, "Parser.__init__")
    for node in walk_local(init):
        if isinstance(node, ast.Assign) and len(node.targets) == 1 and isinstance(node.targets[0], ast.Attribute) \
                and node.targets[0].attr in ("cutoff", "neighbourhood") and "multipliers" in txt(node.value):
            subject = txt(node.targets[0].value)
            srcs = bound_from(init, subject)
            loops = [lp for lp in [a for a in _ancestors_of(node, init)] if isinstance(lp, ast.For) and txt(lp.target) == subject]
            fresh = bool(srcs) and all(isinstance(v, ast.Call) and call_name(v) == "self._parse_rule" for v in srcs) and not loops
            ctx.ob("R02.3", RP, node, "Parser.__init__", f"scale once {node.targets[0].attr}", fresh,
                   "the parser scales exactly the rule it has just parsed (rules from earlier texts arrive already scaled)",
                   detail="" if fresh else f"`{subject}` is not the freshly parsed rule: "
                                           + (f"loop over {txt(loops[0].iter)}" if loops else f"bound from {[txt(v)[:40] for v in srcs]}"),
                   form=stmt_key(node))
    # scaling applied once per construction path
    scalers = {"create_rules", "Parser", "rule_parser.Parser", "cls", "Ruleset", "from_files", "Ruleset.from_files",
               "copy_with_replacements"}
    for module, qual, func in ctx.repo.all_functions():
        if not module.rel.startswith(("antismash/common/hmm_rule_parser", "antismash/detection/hmm_detection")):
            continue
        passing = []
        for call in calls(func):
            name = call_name(call)
            if name.split(".")[-1] not in {s.split(".")[-1] for s in scalers}:
                continue
            mult = kwarg(call, "multipliers")
            if mult is None and name.split(".")[-1] == "create_rules":
                mult = arg_of(call, 3)
            if mult is None or (isinstance(mult, ast.Call) and not mult.args and not mult.keywords):
                continue
            passing.append(call)
        if not passing:
            continue
        ctx.call_sites += len(passing)
        double = False
        detail = ""
        for first in passing:
            stmt = first
            while not isinstance(stmt, ast.stmt):
                stmt = getattr(stmt, "_parent")
            produced = {t.id for t in getattr(stmt, "targets", []) if isinstance(t, ast.Name)}
            for second in passing:
                if second is first:
                    continue
                used = {n.id for n in ast.walk(second) if isinstance(n, ast.Name)}
                if produced & used:
                    double = True
                    detail = f"{txt(first)[:80]} feeds {txt(second)[:80]}"
        ctx.ob("R02.3", module.rel, passing[0], qual, "multipliers applied once", not double,
               "rules scaled by one multiplier-taking constructor are not handed, with the same multipliers, to a second "
               "one (each of Parser and Ruleset scales the rules it receives)", detail=detail,
               form="; ".join(txt(c)[:70] for c in passing))
    # reconstruction inverts the scaling and emits markers in grammar order
    for qual in ("DetectionRule.reconstruct_rule_text", "DetectionRule.__str__"):
        func = ctx.fn(RP, qual)
        pieces: List[str] = []
        for node in walk_local(func):
            if isinstance(node, ast.Return) and node.value is not None:
                for sub in ast.walk(node.value):
                    if isinstance(sub, ast.JoinedStr):
                        for val in sub.values:
                            pieces.append(val.value if isinstance(val, ast.Constant) else "{" + txt(val.value) + "}")  # type: ignore
        text = "".join(str(p) for p in pieces)
        ok = "{self.cutoff // 1000}" in text and "{self.neighbourhood // 1000}" in text
        if qual.endswith("reconstruct_rule_text"):
            order = [m for m in re.findall(r"(RULE|CATEGORY|CUTOFF|NEIGHBOURHOOD|CONDITIONS)", text)]
            ok = ok and order == ["RULE", "CATEGORY", "CUTOFF", "NEIGHBOURHOOD", "CONDITIONS"] and \
                "CUTOFF {self.cutoff // 1000}" in text and "NEIGHBOURHOOD {self.neighbourhood // 1000}" in text and \
                "RULE {self.name}" in text and "CATEGORY {self.category}" in text and "CONDITIONS {condition_text}" in text
        ctx.ob("R02.3", RP, func, qual, "inverse scaling", ok,
               "text regeneration divides the stored bases by 1000 on the same fields, markers in grammar order",
               form=text[:200])


REJECTIONS = [
    # (function, alternatives `regex:T|F` over the literals on the path to a raise (raw and with locals resolved;
    #  negated comparisons are folded: `a not in b` is `a in b`:F, `a != b` is `a == b`:F), description)
    ("Parser.__init__", [r"find_condition_identifiers\(self\._consumed_tokens\) - self\.signature_names:T"],
     "identifiers without a signature are rejected"),
    ("Parser.__init__", [r"\w+\.name in self\.rules_by_name:T"], "a second rule with an existing name is rejected"),
    ("Parser.__init__", [r"\w+ in self\.aliases:T"], "a second alias with an existing name is rejected"),
    ("Parser._verify_alias_name", [r"\w+ in self\.signature_names:T"], "an alias named like a signature is rejected"),
    ("Parser._verify_alias_name", [r"\w+ in self\.rules_by_name:T"], "an alias named like a rule is rejected"),
    ("Parser._verify_alias_name", [r"\w+ in self\.valid_categories:T"], "an alias named like a category is rejected"),
    ("Parser._verify_alias_name", [r"TokenTypes\.classify\(\w+\) == TokenTypes\.IDENTIFIER:F"], "an alias name must be an identifier"),
    ("Parser._consume", [r"self\.current_token\.type == expected:F", r"expected == self\.current_token\.type:F"],
     "a token of an unexpected type is rejected"),
    ("Parser._consume", [r"self\.current_token is None:T", r"self\.current_token:F"], "running out of tokens is rejected"),
    ("Parser._parse_rule", [r"\w+ in self\.valid_categories:F"], "an unknown category is rejected"),
    ("Parser._parse_rule", [r"self\.current_token\.type in _STARTERS:F"], "trailing symbols after a rule are rejected"),
    ("Parser._parse_superiors", [r"\w+ in self\.rules_by_name:F", r"self\.rules_by_name\.get\(\w+\) is None:T"],
     "a superior that is not yet defined is rejected"),
    ("Parser._parse_superiors", [r"len\((.+)\) == len\(set\(\1\)\):F", r"len\(set\((.+)\)\) == len\(\1\):F"],
     "duplicate superiors are rejected"),
    ("Parser._parse_conditions", [r"self\.current_token\.type == TokenTypes\.GROUP_CLOSE:F",
                                  r"TokenTypes\.GROUP_CLOSE == self\.current_token\.type:F"], "an unbalanced group is rejected"),
    ("Parser._parse_conditions", [r"self\.current_token is None:T", r"self\.current_token:F"], "missing conditions are rejected"),
    ("Parser._parse_single_condition", [r"self\.current_token is None:T", r"self\.current_token:F"], "a rule ending in 'not' is rejected"),
    ("Parser._parse_cds", [r"^conditions:F", r"len\(conditions\) == 0:T"], "an empty cds() is rejected"),
    ("Conditions.__init__", [r"\w+ in unique_operands:T", r"\w+ in \w+:T"], "a repeated operand is rejected"),
    ("MinimumCondition.__init__", [r"len\(self\.options\) == len\(options\):F", r"len\(options\) == len\(self\.options\):F"],
     "repeated minimum() options are rejected"),
    ("MinimumCondition.__init__", [r"count < 1:T", r"count >= 1:F", r"1 > count:T", r"count <= 0:T"],
     "minimum() with a count below 1 is rejected"),
    ("ScoreCondition.__init__", [r"score < 0:T", r"score >= 0:F", r"0 > score:T"], "a negative minscore is rejected"),
    ("DetectionRule.__init__", [r"conditions\.contains_positive_condition\(\):F"], "conditions without a positive requirement are rejected"),
    ("DetectionRule.__init__", [r"extenders\.contains_positive_condition\(\):F"], "extenders without a positive requirement are rejected"),
]


def _raise_literals(ctx: Ctx, qual: str):
    """ [(raise statement, {(literal text, truth)} raw and resolved)] for every raise of the function """
    from ..flow import facts_nnf, nnf_literals, path_facts, resolved_facts
    func = ctx.fn(RP, qual, inline=True)
    cfg = CFG(func)
    out = []
    for node in walk_local(func):
        if not isinstance(node, ast.Raise):
            continue
        lits = nnf_literals(facts_nnf(path_facts(cfg, node))) | nnf_literals(resolved_facts(cfg, node, ctx.repo, RP))
        for level in (0, 1):
            lits |= nnf_literals(resolved_facts(cfg, node, ctx.repo, RP, max_depth=level))
        swallowed = any(isinstance(a, ast.Try) and a.handlers and any(node is n for b in a.body for n in ast.walk(b))
                        for a in walk_local(func))
        out.append((node, lits, swallowed))
    return func, cfg, out


def _find_rejection(raises, alternatives):
    for node, lits, swallowed in raises:
        for alt in alternatives:
            pattern, _, pol = alt.rpartition(":")
            for text, truth in lits:
                if truth == (pol == "T") and re.search(pattern, text.replace('"', "'")):
                    return node, text, swallowed
    return None


def r02_4(ctx: Ctx) -> None:
    from ..flow import deciding_test, facts_nnf, nnf_literals, path_facts
    cache = {}
    for qual, alternatives, what in REJECTIONS:
        if qual not in cache:
            cache[qual] = _raise_literals(ctx, qual)
        func, cfg, raises = cache[qual]
        hit = _find_rejection(raises, alternatives)
        thing = alternatives[0].rpartition(":")[0].replace("\\", "")
        if hit is None:
            ctx.ob("R02.4", RP, func, qual, thing, False, what, detail="no raise conditioned on this test found")
            continue
        node, text, swallowed = hit
        ctx.ob("R02.4", RP, node, qual, thing, not swallowed, what, form=f"raise under `{text}`")
    # acceptance is dominated by the checks: the rule is stored only after the duplicate-name check
    init, cfg, raises = cache["Parser.__init__"]
    stores = [n for n in walk_local(init) if isinstance(n, ast.Assign) and isinstance(n.targets[0], ast.Subscript)
              and txt(n.targets[0].value) == "self.rules_by_name" and txt(n.targets[0].slice).endswith(".name")]
    ok = bool(stores)
    for store in stores:
        lits = nnf_literals(facts_nnf(path_facts(cfg, store)))
        ok = ok and any(re.fullmatch(r"\w+\.name in self\.rules_by_name", text) and not truth for text, truth in lits)
    ctx.ob("R02.4", RP, stores[0] if stores else init, "Parser.__init__", "store after duplicate check", ok,
           "a rule is registered only after the duplicate-name rejection", form="")
    # the unknown-identifier check is on every normal path out of __init__
    unknown = _find_rejection(raises, REJECTIONS[0][1])
    ok = False
    if unknown is not None:
        decided = deciding_test(cfg, unknown[0])
        ok = decided is not None and cfg.postdominates(decided[0], cfg.entry)
    ctx.ob("R02.4", RP, unknown[0] if unknown else init, "Parser.__init__", "unknown identifiers on all paths", ok,
           "every normal completion of parsing passes the unknown-identifier check (the rejected set is the identifiers of "
           "all consumed condition tokens minus the known signatures)", form=unknown[1] if unknown else "")


def r02_5(ctx: Ctx) -> None:
    from ..flow import inline_reaching
    qual = "Parser._parse_superiors"
    func = ctx.fn(RP, qual)
    cfg = CFG(func)
    rets = [r for r in walk_local(func) if isinstance(r, ast.Return) and r.value is not None]
    direct = {t.id for n in walk_local(func) if isinstance(n, ast.Assign) and isinstance(n.value, ast.Call)
              and last_attr(n.value) == "_parse_comma_separated_ids" for t in n.targets if isinstance(t, ast.Name)}
    ok = False
    form = ""
    if len(rets) == 1 and len(direct) == 1:
        named = direct.pop()
        loops = [n for n in walk_local(func) if isinstance(n, ast.For) and isinstance(n.target, ast.Name)
                 and named in {x.id for x in ast.walk(inline_reaching(cfg, n, n.iter, keep={named})) if isinstance(x, ast.Name)}]
        for loop in loops:
            var = loop.target.id
            for upd in [c for c in calls(loop) if last_attr(c) in ("update", "extend") and len(c.args) == 1]:
                source = txt(inline_reaching(cfg, upd, upd.args[0], keep={var}))
                if source not in (f"self.rules_by_name[{var}].superiors", f"self.rules_by_name.get({var}).superiors"):
                    continue
                acc = txt(upd.func.value)  # type: ignore[attr-defined]
                result = inline_reaching(cfg, rets[0], rets[0].value, keep={acc, named})
                names = {x.id for x in ast.walk(result) if isinstance(x, ast.Name)}
                joins = any(isinstance(x, ast.BinOp) and isinstance(x.op, ast.BitOr) for x in ast.walk(result)) or \
                    any(isinstance(x, ast.Call) and last_attr(x) == "union" for x in ast.walk(result))
                ok = {acc, named} <= names and joins
                form = f"for {var} in {txt(loop.iter)}: {txt(upd)}; return {txt(result)}"
    ctx.ob("R02.5", RP, rets[0] if rets else func, qual, "transitive closure", ok,
           "the returned superiors are the named ones united with each named superior's own (already closed) superiors",
           form=form)
    # stored on the rule: DetectionRule(superiors=superiors) from this method's result
    rule = ctx.fn(RP, "Parser._parse_rule")
    srcs = [txt(v) for v in bound_from(rule, "superiors")]
    ctx.ob("R02.5", RP, rule, "Parser._parse_rule", "superiors source", "self._parse_superiors()" in srcs,
           "the rule's superiors come from the closing parser", form=str(srcs))


def r02_6(ctx: Ctx) -> None:
    qual = "Parser._consume"
    func = ctx.fn(RP, qual)
    cfg = CFG(func)
    records = [c for c in calls(func) if last_attr(c) == "append" and "_consumed_tokens" in txt(c.func)]
    if not records:
        ctx.ob("R02.6", RP, func, qual, "record consumed token", False,
               "every consumed token is recorded for the unknown-identifier check", detail="no append to _consumed_tokens")
        return
    rec = cfg.n(records[0])
    rets = [r for r in walk_local(func) if isinstance(r, ast.Return)]
    for index, r in enumerate(rets):
        ok = not cfg.exists_path(cfg.entry, cfg.n(r), avoid=[rec])
        path = cfg.find_path(cfg.entry, cfg.n(r), avoid=[rec]) if not ok else None
        ctx.ob("R02.6", RP, r, qual, f"return#{index}", ok,
               "every path that returns a consumed token first records it in _consumed_tokens (tokens substituted "
               "from aliases included), so identifiers inside aliases are checked against the signatures",
               detail=f"path avoiding the record: {cfg.describe_path(path)}" if path else "",
               form=txt(records[0]))
    from ..flow import inline_reaching as _reach
    ok = txt(_reach(cfg, records[0], records[0].args[0])) == "self.current_token"
    ctx.ob("R02.6", RP, records[0], qual, "recorded value", ok, "the token recorded is the token being consumed",
           form=txt(records[0]))
    # alias substitution splices the alias tokens in front of the remaining tokens
    from ..flow import facts_nnf, inline_reaching, nnf_literals, path_facts
    splice = [n for n in walk_local(func) if isinstance(n, ast.Assign) and txt(n.targets[0]) == "self.tokens"]
    ok = len(splice) == 1
    if ok:
        value = splice[0].value
        # iter(self.aliases[<next token>.identifier] + list(self.tokens)) where <next token> is what current_token becomes
        ok = isinstance(value, ast.Call) and call_name(value) == "iter" and len(value.args) == 1 \
            and isinstance(value.args[0], ast.BinOp) and isinstance(value.args[0].op, ast.Add) \
            and txt(value.args[0].right) == "list(self.tokens)" and isinstance(value.args[0].left, ast.Subscript) \
            and txt(value.args[0].left.value) == "self.aliases" and txt(value.args[0].left.slice).endswith(".identifier")
        token = txt(value.args[0].left.slice)[:-len(".identifier")] if ok else ""
        lits = nnf_literals(facts_nnf(path_facts(cfg, splice[0])))
        for expr, truth in path_facts(cfg, splice[0]):
            lits |= nnf_literals(facts_nnf([(inline_reaching(cfg, expr, expr, max_depth=0), truth)]))
        ok = ok and (f"{token}.identifier in self.aliases", True) in lits
        # the token tested and spliced is the one just fetched from the stream
        if ok and token != "self.current_token":
            fetched = [txt(v) for v in bound_from(func, token)]
            ok = any(v.startswith("next(self.tokens") or v == "self.current_token" for v in fetched)
    ctx.ob("R02.6", RP, splice[0] if splice else func, qual, "alias splice", ok,
           "an alias name is replaced by its tokens, spliced before the rest of the stream (textual substitution)",
           form=stmt_key(splice[0]) if splice else "")
    # find_condition_identifiers: identifiers between CONDITIONS and the next keyword
    fci = ctx.fn(RP, "find_condition_identifiers")
    text = txt(fci)
    opens = [n for n in walk_local(fci) if isinstance(n, ast.Compare) and len(n.ops) == 1 and txt(n.left).endswith(".type")
             and isinstance(n.ops[0], (ast.Eq, ast.In)) and "TokenTypes.CONDITIONS" in txt(n.comparators[0])]
    closes = [c for c in calls(fci) if last_attr(c) == "is_a_rule_keyword"]
    takes = [n for n in walk_local(fci) if isinstance(n, ast.Compare) and "TokenTypes.IDENTIFIER" in txt(n)]
    # the section test comes first, so that a section-opening keyword is not taken for a closing one
    from ..cfg import CFG as _CFG
    fcfg = _CFG(fci)
    flags = {t.id for n in walk_local(fci) if isinstance(n, ast.Assign) and isinstance(n.value, ast.Constant) and n.value.value is False
             for t in n.targets if isinstance(t, ast.Name)}
    # the flag is raised for a section-opening token: `flag = True` under the section test, or `flag = <section test>`
    raised = False
    for n in walk_local(fci):
        if isinstance(n, ast.Assign) and isinstance(n.targets[0], ast.Name) and n.targets[0].id in flags:
            if isinstance(n.value, ast.Constant) and n.value.value is True:
                from ..flow import inline_reaching as _reach2
                raised = raised or any(t and any(e is o or txt(e) == txt(o) or txt(o) in txt(_reach2(fcfg, n, e)) for o in opens)
                                       for e, t in path_facts(fcfg, n))
            elif any(txt(n.value) == txt(o) for o in opens):
                raised = True
    ok = bool(opens) and bool(closes) and bool(takes) and raised
    _ = text
    ctx.ob("R02.6", RP, fci, "find_condition_identifiers", "scan", ok,
           "identifiers are collected from the CONDITIONS marker up to the next rule keyword", form="")


def r02_7(ctx: Ctx) -> None:
    """ printer / grammar agreement on negation: the grammar has `[not] operand` with operand an identifier, a (group), cds(),
        minimum() or minscore() - never another `not`.  A printer that prefixes "not " to the text of a sub-condition without
        a group must know that the sub-condition does not itself print a leading "not" """
    from ..cfg import CFG
    from ..flow import path_facts
    qual = "Conditions.__str__"
    func = ctx.fn(RP, qual)
    cfg = CFG(func)
    prefixes = {t.id for n in walk_local(func) if isinstance(n, ast.Assign) and isinstance(n.value, ast.IfExp)
                and isinstance(n.value.body, ast.Constant) and str(n.value.body.value).startswith("not")
                for t in n.targets if isinstance(t, ast.Name)}
    bare = []
    for ret in [r for r in walk_local(func) if isinstance(r, ast.Return) and isinstance(r.value, ast.JoinedStr)]:
        vals = ret.value.values
        if len(vals) >= 2 and isinstance(vals[0], ast.FormattedValue) and txt(vals[0].value) in prefixes \
                and isinstance(vals[1], ast.FormattedValue):
            bare.append((ret, vals[1].value))
    if not bare:
        ctx.ob("R02.7", RP, func, qual, "negation prefix never doubles", True,
               "no sub-condition is printed directly behind the negation prefix", form="", vacuous=True)
        return
    for index, (ret, sub) in enumerate(bare):
        from ..flow import inline_reaching
        sub_text = txt(inline_reaching(cfg, ret, sub))
        names = {txt(sub), sub_text}
        safe = False
        for expr, truth in path_facts(cfg, ret):
            text = txt(expr)
            if not truth and isinstance(expr, ast.BoolOp) and isinstance(expr.op, ast.And) and "self.negated" in text \
                    and any(f"{n}.negated" in text for n in names):
                safe = True
            if not truth and (text == "self.negated" or any(text == f"{n}.negated" for n in names)):
                safe = True
        ctx.ob("R02.7", RP, ret, qual, f"negation prefix never doubles#{index}", safe,
               "a sub-condition is printed directly behind the negation prefix only if it is not negated itself: the grammar has "
               "no `not not`, so the regenerated text would not parse",
               detail="" if safe else "`b and not (not a)` is regenerated as `b and not not a`, which the parser rejects",
               form=txt(ret.value))


def r02_8(ctx: Ctx) -> None:
    """ the unknown-profile check reads identifiers from every section that holds profile names """
    qual = "find_condition_identifiers"
    func = ctx.fn(RP, qual)
    opened = set()
    for node in walk_local(func):
        if isinstance(node, ast.Compare) and len(node.ops) == 1 and txt(node.left).endswith(".type"):
            comp = node.comparators[0]
            elts = comp.elts if isinstance(comp, (ast.Tuple, ast.List, ast.Set)) else [comp]
            for elt in elts:
                if txt(elt).startswith("TokenTypes."):
                    opened.add(txt(elt).split(".", 1)[1])
    inputs = {"EXTENDERS": "`... CONDITIONS a EXTENDERS cds(b and zzz)` with zzz not a signature is accepted",
              "RELATED": "`... RELATED zzz ...` with zzz not a signature is accepted"}
    for section in ("CONDITIONS", "EXTENDERS", "RELATED"):
        ok = section in opened
        ctx.ob("R02.8", RP, func, qual, f"identifiers of {section} are checked", ok,
               "profile names are collected for the unknown-profile check from every section that refers to profiles",
               detail="" if ok else inputs.get(section, ""), form=f"sections scanned: {sorted(opened & {'CONDITIONS', 'EXTENDERS', 'RELATED'})}")


def run(ctx: Ctx) -> None:
    ctx.rule("R02.8", "unknown-profile check covers conditions, extenders and related profiles", floor=3)
    r02_8(ctx)
    ctx.rule("R02.7", "regenerated negations stay inside the grammar", floor=1)
    r02_7(ctx)
    ctx.rule("R02.1", "precedence is the layering of the recursive descent; negation and groups", floor=14)
    ctx.rule("R02.2", "token enum, tokeniser mapping, keyword predicate and documented grammar agree", floor=7)
    ctx.rule("R02.3", "kilobase scaling, multiplier roles, single application, inverse on reconstruction", floor=10)
    ctx.rule("R02.4", "every documented rejection is a raise that cannot be bypassed", floor=20)
    ctx.rule("R02.5", "SUPERIORS are closed transitively", floor=2)
    ctx.rule("R02.6", "every consumed token is recorded; aliases are spliced textually", floor=5)
    r02_1(ctx)
    r02_2(ctx)
    r02_3(ctx)
    r02_4(ctx)
    r02_5(ctx)
    r02_6(ctx)
