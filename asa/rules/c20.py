""" C20 A failed or refused write never damages existing results """

from __future__ import annotations

import ast
from typing import List, Optional, Set

from ..astutil import arg_of, call_name, calls, enclosing_loops, guards, kwarg, last_attr, stmt_key, txt, walk_local
from ..cfg import CFG
from ..flow import bound_from
from ..index import AnalysisError, dotted
from ..report import Ctx

PROP = "C20"
SER = "antismash/common/serialiser.py"
MAIN = "antismash/main.py"

EXPLANATION = (
    "C20 is an ordering property, decided on the statement CFG of the writers: (R20.1) in write_to_file and "
    "dump_records every path to the statement that opens the target for writing has completed the JSON encoding "
    "(json.dumps of the full structure) of exactly the value written afterwards, nothing that can raise a conversion "
    "error (to_json / dumps / dump) is reachable after the open, and a conversion TypeError is re-raised; (R20.2) in "
    "prepare_output_directory every destructive call is dominated by the refusal test (directory has entries other "
    "than the ignored ones and the input is not a results file) whose true arm raises, and _ignore_patterns exempts "
    "only the input copy directory and the log file; (R20.3) in _run_antismash the output directory is prepared "
    "before anything is written and the results JSON is written before records are annotated and other outputs created."
)
UNDECIDED = [
    "atomicity of the final handle.write itself (a crash during the write truncates the file: a crash-point property)",
    "which exceptions the JSON encoder can raise besides TypeError",
]
TRUSTED = ["CPython ast", "asa.cfg (explicit raise / try edges)", "open(path, 'w') truncates at open time"]

CONVERTERS = {"to_json", "dumps", "dump", "record_to_json", "feature_to_json", "gather_record_areas", "to_biopython"}
DESTRUCTIVE = {"os.remove", "os.unlink", "shutil.rmtree", "os.rename", "os.replace", "os.rmdir", "shutil.move",
               "os.removedirs", "shutil.copy", "shutil.copyfile", "shutil.copytree"}


def _write_opens(func: ast.AST) -> List[ast.Call]:
    result = []
    for call in calls(func):
        if call_name(call) in ("open", "io.open", "gzip.open", "codecs.open"):
            mode = arg_of(call, 1, "mode")
            if isinstance(mode, ast.Constant) and isinstance(mode.value, str) and any(c in mode.value for c in "wax+"):
                result.append(call)
    return result


def r20_1(ctx: Ctx) -> None:
    for qual in ("AntismashResults.write_to_file", "dump_records"):
        func = ctx.fn(SER, qual, inline=True)
        cfg = CFG(func)
        opens = _write_opens(func)
        if not opens:
            ctx.cannot("R20.1", SER, func, qual, "open for writing", "no open(<target>, 'w') found")
            continue
        encodes = [c for c in calls(func) if call_name(c) in ("json.dumps", "dumps")]
        writes = [c for c in calls(func) if last_attr(c) == "write" and isinstance(c.func, ast.Attribute)]
        for index, opn in enumerate(opens):
            ctx.call_sites += 1
            node = cfg.n(opn)
            # (a) encoding completed on every path to the open
            ok = bool(encodes) and any(cfg.dominates(cfg.n(e), node) and cfg.n(e) != node for e in encodes)
            path = None
            if not ok and encodes:
                path = cfg.find_path(cfg.entry, node, avoid=[cfg.n(e) for e in encodes])
            ctx.ob("R20.1", SER, opn, qual, f"open#{index}: encoding precedes", ok,
                   "every path to the statement that truncates the target has already JSON-encoded the results",
                   detail=f"path: {cfg.describe_path(path)}" if path else "", form=txt(opn))
            # (b) nothing that can fail converting is reachable after the open
            after = cfg.reach([node]) | ({node} if isinstance(cfg.nodes[node].ast, (ast.With,)) else set())
            bad = []
            for nid in sorted(after):
                for expr in cfg.header_expr_nodes(nid):
                    for c in [x for x in [expr] + list(walk_local(expr)) if isinstance(x, ast.Call)]:
                        if last_attr(c) in CONVERTERS and c is not opn:
                            bad.append(f"{txt(c)[:60]}@{getattr(c, 'lineno', 0)}")
            if isinstance(cfg.nodes[node].ast, ast.With):
                for c in calls(cfg.nodes[node].ast):
                    if last_attr(c) in CONVERTERS:
                        bad.append(f"{txt(c)[:60]}@{getattr(c, 'lineno', 0)}")
            ctx.ob("R20.1", SER, opn, qual, f"open#{index}: no conversion after", not bad,
                   "after the target has been opened for writing nothing that can raise a conversion error is executed",
                   detail="; ".join(sorted(set(bad))), form=txt(opn))
        # (c) what is written is the encoded string (or constant text)
        ok = bool(writes)
        forms = []
        for wr in writes:
            arg = wr.args[0] if wr.args else None
            if isinstance(arg, ast.Constant) and isinstance(arg.value, str):
                continue
            good = False
            if isinstance(arg, ast.Name):
                # through plain renamings (an inlined helper returns its local)
                srcs, seen_names = [], set()
                todo = [arg.id]
                while todo:
                    name = todo.pop()
                    if name in seen_names:
                        continue
                    seen_names.add(name)
                    for v in bound_from(func, name):
                        if isinstance(v, ast.Name):
                            todo.append(v.id)
                        else:
                            srcs.append(v)
                good = len(srcs) >= 1 and all(isinstance(v, ast.Call) and call_name(v) in ("json.dumps", "dumps") for v in srcs)
                forms.append(f"{txt(wr)} <- {'; '.join(txt(v)[:50] for v in srcs)}")
            ok = ok and good
        ctx.ob("R20.1", SER, writes[0] if writes else func, qual, "written value", ok,
               "what is written after the open is the string produced by the completed encoding", form=" | ".join(forms))
        # (d) conversion errors are reported, not swallowed
        handlers = [h for n in walk_local(func) if isinstance(n, ast.Try) for h in n.handlers]
        for index, handler in enumerate(handlers):
            hn = cfg.n(handler)
            swallowed = cfg.exit in cfg.reach([hn])
            ctx.ob("R20.1", SER, handler, qual, f"handler#{index} re-raises", not swallowed,
                   "an error raised while converting is re-raised on every path through its handler", form=txt(handler.type))
        ctx.ob("R20.1", SER, func, qual, "conversion guarded", bool(handlers) and bool(encodes) and
               any(any(e is x for x in ast.walk(t)) for t in [n for n in walk_local(func) if isinstance(n, ast.Try)]
                   for e in encodes),
               "the encoding runs inside the try whose handler reports the failure", form="")


def r20_2(ctx: Ctx) -> None:
    from ..flow import exact_condition, inline_reaching, nnf, nnf_atoms, nnf_equiv, nnf_not, nnf_or, path_facts, resolved_facts
    qual = "prepare_output_directory"
    func = ctx.fn(MAIN, qual, inline=True)
    cfg = CFG(func)
    raises = [n for n in walk_local(func) if isinstance(n, ast.Raise)]
    refusal = None
    refusal_form = None
    for node in raises:
        form = resolved_facts(cfg, node, ctx.repo, MAIN)
        if any("_ignore_patterns" in atom for atom in nnf_atoms(form)):
            refusal, refusal_form = node, form
    collected = None
    if refusal is None:
        # the foreign entries may be gathered first: a list filled under `_ignore_patterns(x)` for x over the directory's
        # entries, and the refusal conditioned on that list being non-empty
        for node in raises:
            for expr, truth in path_facts(cfg, node):
                if not (truth and isinstance(expr, ast.Name)):
                    continue
                fills = [c for c in calls(func) if last_attr(c) == "append" and txt(c.func.value) == expr.id
                         and any(t and "_ignore_patterns" in txt(e) for e, t in path_facts(cfg, c))]
                loops = [lp for c in fills for lp in enclosing_loops(c, stop=func) if isinstance(lp, ast.For)]
                if fills and loops:
                    refusal = node
                    collected = (expr.id, txt(inline_reaching(cfg, loops[0], loops[0].iter)))
                    refusal_form = resolved_facts(cfg, node, ctx.repo, MAIN)
    if refusal is None:
        ctx.ob("R20.2", MAIN, func, qual, "refusal test", False,
               "a non-empty output directory (other than ignored entries) is refused unless results are being reused",
               detail="no raise conditioned on `_ignore_patterns` found")
        return
    # the refusal condition as a formula over four kinds of atoms: J (the input is a results file), L (that file lies in
    # this very directory), F (the directory holds a foreign entry), D (it exists / is a directory - context)
    def _kind(text: str) -> str:
        text = text.replace('"', "'")
        if text == "input_file.endswith('.json')":
            return "J"
        if "input_file" in text and ("dirname" in text or "commonpath" in text or "samefile" in text or ".parent" in text) \
                and "name" in text.replace("dirname", "").replace("basename", ""):
            return "L"
        if "_ignore_patterns" in text or (collected is not None and text == collected[0]):
            return "F"
        if "os.path.exists(name)" in text or "os.path.isdir(name)" in text:
            return "D"
        return "?"

    def _canon(form):
        if form[0] == "lit":
            kind = _kind(form[1])
            return ("lit", kind if kind != "?" else form[1], form[2])
        return (form[0], frozenset(_canon(sub) for sub in form[1]))
    canon = _canon(refusal_form)
    parts = [p for p in canon[1] if not (p[0] == "lit" and p[1] == "D")] if canon[0] == "and" else [canon]
    got = ("and", frozenset(parts))
    want = ("and", frozenset([("or", frozenset([("lit", "J", False), ("lit", "L", False)])), ("lit", "F", True)]))
    try:
        ok, cex = nnf_equiv(got, want)
    except ValueError:
        ok, cex = False, None
    old_shape = nnf_equiv(got, ("and", frozenset([("lit", "J", False), ("lit", "F", True)])))[0] if not ok else False
    ctx.ob("R20.2", MAIN, refusal, qual, "refusal test", ok,
           "a directory holding any entry not on the ignore list is refused, unless the results being reused are the ones it "
           "holds: the input is a results file *and* lies in this directory",
           detail="" if ok else ("every results file exempts every directory: `--reuse-results prev/genome.json --output-dir other/` "
                                 "accepts an unrelated non-empty other/ and deletes its *.region???.gbk files" if old_shape
                                 else f"differs from the specification at {cex}"),
           form=str(got)[:200])
    other = [lit for lit in {l for l in refusal_form[1] if l[0] == "lit"} if "_ignore_patterns" in lit[1] and lit[2] is True]
    if collected is not None:
        other = [lit for lit in {l for l in refusal_form[1] if l[0] == "lit"} if lit[1] == collected[0] and lit[2] is True]
    # what the refusal looks at is the complete content of the directory
    listing = other[0][1].replace('"', "'") if other else ""
    if collected is not None:
        listing = collected[1].replace('"', "'")
    complete = ("os.listdir(name)" in listing or "os.scandir(name)" in listing) and "glob.glob(" not in listing
    if "glob.glob(" in listing:
        complete = "glob.escape(name)" in listing and "include_hidden=True" in listing
    ctx.ob("R20.2", MAIN, refusal, qual, "directory content enumerated completely", complete,
           "the emptiness test sees every entry of the directory: a glob pattern built from the directory's name is a pattern "
           "itself (`results[1]` matches nothing), and `*` does not match hidden files",
           detail="" if complete else "an existing output directory named `results[1]` holding notes.txt and a.region001.gbk is accepted, "
           "and so is a directory holding only `.notes`", form=listing[:160])
    writes = _write_opens(func)
    destructive = [c for c in calls(func) if call_name(c) in DESTRUCTIVE or c in writes]
    if not destructive:
        ctx.ob("R20.2", MAIN, func, qual, "destructive calls", True, "no destructive call in the function", vacuous=True)
    # the test node deciding the refusal: the innermost test whose cut disconnects the raise
    guard_ids = [n.id for n in cfg.nodes if n.kind == "test" and cfg.dominates(n.id, cfg.n(refusal)) and n.id != cfg.n(refusal)]
    rn = guard_ids[-1] if guard_ids else cfg.n(refusal)
    for cand in guard_ids:
        if all(cfg.dominates(other_id, cand) for other_id in guard_ids):
            rn = cand
    raising_label = "T" if cfg.n(refusal) in cfg.reach([rn], labels_excluded=["F"]) and \
        cfg.n(refusal) not in cfg.reach([rn], labels_excluded=["T"]) else "F"
    # edges that establish the stated exemption (results are being reused) may go round the refusal test
    from ..flow import literals
    exempt = []
    for cand in cfg.nodes:
        if cand.kind != "test" or cand.ast is None or not hasattr(cand.ast, "test") or cand.id == rn:
            continue
        for label, polarity in (("T", True), ("F", False)):
            established = set()
            todo = list(literals(cand.ast.test, polarity))
            while todo:
                expr, truth = todo.pop()
                resolved = inline_reaching(cfg, cand.ast, expr)
                if isinstance(resolved, (ast.BoolOp, ast.UnaryOp)) and resolved is not expr and txt(resolved) != txt(expr):
                    todo += literals(resolved, truth)
                    continue
                if truth:
                    established.add(_kind(txt(resolved)))
            if {"J", "L"} <= established:
                exempt.append((cand.id, label))
    for index, call in enumerate(destructive):
        ctx.call_sites += 1
        via_raise = cfg.n(call) in cfg.reach([rn], labels_excluded=["F" if raising_label == "T" else "T"])
        bypass = cfg.n(call) in cfg.reach([cfg.entry], avoid=[rn], edges_excluded=exempt)
        ok = not bypass and not via_raise and cfg.n(call) in cfg.reach([cfg.entry])
        ctx.ob("R20.2", MAIN, call, qual, f"destructive#{index} {call_name(call)}", ok,
               "every call that deletes or overwrites something in the directory runs only after the refusal test passed",
               form=txt(call)[:80])
    # exists/isdir guards
    ok = False
    for node in raises:
        form = resolved_facts(cfg, node, ctx.repo, MAIN)
        if ("lit", "os.path.isdir(name)", False) in form[1]:
            ok = True
    ctx.ob("R20.2", MAIN, func, qual, "not a directory refused", ok, "an existing non-directory target is refused", form="")
    ign = ctx.fn(MAIN, "_ignore_patterns")
    icfg = CFG(ign)
    rets = [r for r in walk_local(ign) if isinstance(r, ast.Return)]
    yes, no, unknown = [], [], []
    for ret in rets:
        try:
            form = exact_condition(icfg, ret)
        except ValueError as err:
            ctx.cannot("R20.2", MAIN, ign, "_ignore_patterns", "ignored entries", str(err))
            return
        if isinstance(ret.value, ast.Constant) and ret.value.value is True:
            yes.append(form)
        elif isinstance(ret.value, ast.Constant) and ret.value.value is False:
            no.append(form)
        elif ret.value is not None and not isinstance(ret.value, ast.Constant):
            # a returned boolean expression: the entry counts on this path exactly when the expression is true
            value = inline_reaching(icfg, ret, ret.value)
            yes.append(("and", frozenset([form, nnf(value, True)])))
            no.append(("and", frozenset([form, nnf(value, False)])))
        else:
            unknown.append(ret)
    if unknown or not yes or not no:
        ctx.cannot("R20.2", MAIN, ign, "_ignore_patterns", "ignored entries",
                   "the filter does not return constant True / False on every path")
        return
    def canon(form):
        if form[0] == "lit":
            text = form[1].replace('"', "'")
            if "entry.endswith('/input')" == text:
                return ("lit", "is the input copy's name", form[2])
            if text == "os.path.isdir(entry)":
                return ("lit", "is a directory", form[2])
            if "logfile" in text and "os.path.abspath(entry)" in text and text.count("==") == 1:
                return ("lit", "is the log file", form[2])
            if text in ("config.logfile", "bool(config.logfile)", "get_config().logfile"):
                return ("lit", "a log file is configured", form[2])
            if text in ("config.logfile == ''", "'' == config.logfile"):
                return ("lit", "a log file is configured", not form[2])
            return form
        return (form[0], frozenset(canon(sub) for sub in form[1]))
    yes = [canon(f) for f in yes]
    no = [canon(f) for f in no]
    a = ("lit", "is the input copy's name", True)
    b = ("lit", "is a directory", True)
    c = ("lit", "is the log file", True)
    # the option's default is the empty string, and abspath("") is the current directory: the exemption applies only when
    # a log file is configured (checked against the option table: default of --logfile)
    default_empty = True
    try:
        args_mod = ctx.repo.mod("antismash/config/args.py")
        for call in [n for n in ast.walk(args_mod.tree) if isinstance(n, ast.Call) and n.args
                     and isinstance(n.args[0], ast.Constant) and n.args[0].value == "--logfile"]:
            default = kwarg(call, "default")
            default_empty = isinstance(default, ast.Constant) and default.value in ("", None) or default is None
    except AnalysisError:
        pass
    if default_empty:
        c = ("and", frozenset([c, ("lit", "a log file is configured", True)]))
    counted = ("and", frozenset([("or", frozenset([nnf_not(a), nnf_not(b)])), nnf_not(c)]))
    try:
        same_yes, cex1 = nnf_equiv(nnf_or(yes), counted)
        same_no, cex2 = nnf_equiv(nnf_or(no), nnf_not(counted))
    except ValueError as err:
        ctx.cannot("R20.2", MAIN, ign, "_ignore_patterns", "ignored entries", str(err))
        return
    ctx.ob("R20.2", MAIN, ign, "_ignore_patterns", "ignored entries", same_yes and same_no,
           "only the input copy directory and the log file are exempt from the emptiness check; everything else counts "
           "(decided by truth table over the tests on every return path)",
           detail="" if same_yes and same_no else f"differs for {cex1 or cex2}",
           form=f"counts iff {sorted(str(f) for f in yes)}"[:300])
    _ = nnf


def r20_3(ctx: Ctx) -> None:
    qual = "_run_antismash"
    func = ctx.fn(MAIN, qual)
    cfg = CFG(func)

    def one(name: str) -> ast.Call:
        found = [c for c in calls(func) if call_name(c).split(".")[-1] == name]
        if len(found) != 1:
            raise AnalysisError(f"_run_antismash: expected one call of {name}, found {len(found)}")
        return found[0]
    prep, write, annot, outs = one("prepare_output_directory"), one("write_to_file"), one("annotate_records"), one("write_outputs")
    for name, call in (("write_to_file", write), ("annotate_records", annot), ("write_outputs", outs)):
        ok = cfg.dominates(cfg.n(prep), cfg.n(call))
        ctx.ob("R20.3", MAIN, call, qual, f"prepare before {name}", ok,
               "the output directory is checked/prepared before anything is written", form="")
    for name, call in (("annotate_records", annot), ("write_outputs", outs)):
        ok = cfg.dominates(cfg.n(write), cfg.n(call))
        ctx.ob("R20.3", MAIN, call, qual, f"results JSON before {name}", ok,
               "the results JSON is written before records are annotated and other outputs are created", form="")
    # the directory step may delete region files on the strength of the input's name alone (the reuse exemption): the
    # input must have been read - and a sequence file that merely ends in .json rejected - before it runs
    read = one("read_data")
    ctx.ob("R20.3", MAIN, prep, qual, "input read before the directory is touched", cfg.dominates(cfg.n(read), cfg.n(prep))
           and cfg.n(read) != cfg.n(prep),
           "the input is parsed (and an unusable one refused) before the output directory is prepared, which deletes old "
           "region files when the input looks like reused results", form="")
    # other writers of profiling data etc. also come after the preparation
    others = [c for c in calls(func) if call_name(c).startswith("write_") and c not in (outs,)]
    for call in others:
        ctx.ob("R20.3", MAIN, call, qual, f"prepare before {call_name(call)}", cfg.dominates(cfg.n(prep), cfg.n(call)),
               "the output directory is checked/prepared before anything is written", form="")


def _write_mode(call: ast.Call) -> bool:
    mode = arg_of(call, 1, "mode")
    if mode is None:
        return False
    if isinstance(mode, ast.Constant) and isinstance(mode.value, str):
        return any(ch in mode.value for ch in "wax+")
    return True  # a computed mode may be a write mode


def r20_4(ctx: Ctx) -> None:
    """ callers hand write_to_file the *name* of the results file, so that the file is opened (and truncated) only
        after the conversion succeeded; a caller that opens the target for writing itself truncates it first """
    from ..flow import inline_reaching
    files = [MAIN] if ctx.tier == "quick" else sorted(ctx.repo.modules)
    count = 0
    for rel in files:
        for qual, func in ctx.repo.functions(rel):
            sites = [c for c in calls(func) if last_attr(c) == "write_to_file" and isinstance(c.func, ast.Attribute)
                     and len(c.args) + len(c.keywords) == 1]
            if not sites:
                continue
            ctx.repo.consulted.add(rel)
            cfg = CFG(func)
            opens = [c for c in calls(func) if call_name(c) == "open" and _write_mode(c)]
            for site in sites:
                count += 1
                arg = site.args[0] if site.args else site.keywords[0].value
                resolved = inline_reaching(cfg, site, arg)
                problems = []
                for op in opens:
                    path = txt(inline_reaching(cfg, op, op.args[0])) if op.args else ""
                    handle_names = set()
                    par = getattr(op, "_parent", None)
                    if isinstance(par, ast.withitem) and par.optional_vars is not None:
                        handle_names = {n.id for n in ast.walk(par.optional_vars) if isinstance(n, ast.Name)}
                    if isinstance(par, ast.Assign):
                        handle_names = {t.id for t in par.targets if isinstance(t, ast.Name)}
                    same_target = path == txt(resolved) or (isinstance(arg, ast.Name) and arg.id in handle_names) \
                        or resolved is op or txt(resolved) == txt(op)
                    before = cfg.n(op) == cfg.n(site) or cfg.n(site) in cfg.reach([cfg.n(op)])
                    if same_target and before:
                        problems.append(f"line {op.lineno}: {txt(op)[:70]}")
                ctx.ob("R20.4", rel, site, qual, f"write_to_file({txt(arg)[:40]})", not problems,
                       "the results file is opened for writing only inside write_to_file, after the conversion: no caller opens "
                       "the same target in a write mode before (or around) the call",
                       detail="target opened for writing before the conversion: " + "; ".join(problems) if problems else "",
                       form=f"argument resolves to {txt(resolved)[:80]}; write-mode opens in function: {len(opens)}")
    if count < 1:
        raise AnalysisError("no caller of AntismashResults.write_to_file found")


def run(ctx: Ctx) -> None:
    ctx.rule("R20.1", "encode fully, then open for writing; nothing convertible after the open; errors re-raised", floor=10)
    ctx.rule("R20.2", "destructive calls are dominated by the refusal test; ignore list", floor=4)
    ctx.rule("R20.3", "prepare the directory first; results JSON before annotation and other outputs", floor=5)
    r20_1(ctx)
    r20_2(ctx)
    r20_3(ctx)
    ctx.rule("R20.4", "callers never open the results target for writing before write_to_file converts", floor=1)
    r20_4(ctx)
