""" C03 Protoclusters are the maximal cutoff-chains of a rule's anchoring genes

    Decides structural necessary conditions only (see DESIGN.md section 5).
"""

from __future__ import annotations

import ast
from typing import List, Optional

from ..astutil import arg_of, call_name, calls, enclosing_loops, guards, kwarg, last_attr, stmt_key, txt, walk_local
from ..cfg import CFG
from ..flow import iteration_independence, provenance
from ..index import AnalysisError, dotted
from ..kernel import OutsideFragment, decide, parse, rename
from ..report import Ctx

PROP = "C03"
CP = "antismash/common/hmm_rule_parser/cluster_prediction.py"

EXPLANATION = (
    "Static rules over cluster_prediction.py: (R03.1) per-rule non-interference of apply_cluster_rules by the "
    "loop-carried-definition rule on a statement CFG - every value in the backward data slice of the per-rule "
    "evaluation `rule.detect(...)` is assigned on every path of the current iteration or comes from a cache keyed "
    "by a single expression whose miss-arm depends on the loop variable only through that key; (R03.2) the "
    "'closer than cutoff' comparisons are strict, decided by enumeration of all orderings of their operands; "
    "(R03.3) role consistency of cutoff/neighbourhood/product/core at every Protocluster constructor and "
    "extension call; (R03.4) protoclusters are dropped only in the function that reads rule.superiors. "
    "These are necessary conditions of C03; maximality/exactness of chains, hull minimality and clipping values "
    "quantify over layouts and are not decided."
    ' R03.4 also: extenders grow cores before the uniting merge runs (grown afterwards, two cores of one rule can overlap).'
    ' R03.8: every (protocluster, reach) pair the origin merge stores or carries on holds the reach of that very protocluster (taken together from the swept list, or recomputed from its core after a merge).'
)
UNDECIDED = [
    "maximality and exactness of the cutoff chains for all gene layouts",
    "core = smallest covering span; clipping/wrapping coordinate values",
    "extender admission semantics",
    "superior coverage relation itself (only who may drop is decided)",
]
TRUSTED = ["CPython ast", "asa.cfg statement CFG (explicit raise/try edges; implicit exceptions outside try ignored)",
           "integer-difference-logic small-model bound used by asa.kernel.decide"]


def rule_loop(func: ast.FunctionDef) -> ast.For:
    """ the loop over the parameter annotated Iterable[...DetectionRule] """
    candidates = []
    for arg in func.args.args:
        if arg.annotation is not None and "DetectionRule" in txt(arg.annotation) \
                and any(k in txt(arg.annotation) for k in ("Iterable", "List", "list", "Sequence", "tuple", "Tuple")):
            candidates.append(arg.arg)
    for node in walk_local(func):
        if isinstance(node, ast.For) and isinstance(node.iter, ast.Name) and node.iter.id in candidates:
            return node
    raise AnalysisError(f"{CP}::{func.name}: no loop over an Iterable[DetectionRule] parameter")


def r03_1(ctx: Ctx, rule_id: str = "R03.1") -> None:
    func = ctx.fn(CP, "apply_cluster_rules")
    loop = rule_loop(func)
    if not isinstance(loop.target, ast.Name):
        raise AnalysisError("rule loop target is not a simple name")
    var = loop.target.id
    cfg = CFG(func)
    evals = [c for stmt in loop.body for c in calls(stmt)
             if isinstance(c.func, ast.Attribute) and isinstance(c.func.value, ast.Name)
             and c.func.value.id == var and c.func.attr == "detect"]
    if not evals:
        raise AnalysisError("no per-rule evaluation `<rule>.detect(...)` inside the rule loop")
    for call in evals:
        ctx.call_sites += 1
        loops = [loop] + [lp for lp in enclosing_loops(loop)]
        problems, classes = iteration_independence(cfg, call, loops)
        bad = {p.name for p in problems}
        local = set(cfg.defs_at(0)) | {a.arg for a in func.args.args} | \
            {n for node in cfg.nodes for n in cfg.defs_at(node.id)}
        for name, cls in sorted(classes.items()):
            if name in bad or name not in local:
                continue
            ctx.ob(rule_id, CP, call, "apply_cluster_rules", name, True,
                   f"value '{name}' reaching {txt(call.func)}(...) does not carry state between iterations",
                   form=cls)
        for prob in problems:
            ctx.ob(rule_id, CP, prob.node, "apply_cluster_rules", prob.name, False,
                   f"value '{prob.name}' reaching the per-rule evaluation {txt(call.func)}(...) depends on "
                   f"an earlier iteration ({prob.kind})", detail=prob.detail)


def _cutoff_like(func: ast.AST, expr: ast.AST, role: str) -> bool:
    prov = provenance(func, expr)
    return any(p.split(".")[-1] == role for p in prov)


def _anc(node: ast.AST, stop: ast.AST):
    cur = getattr(node, "_parent", None)
    while cur is not None and cur is not stop:
        yield cur
        cur = getattr(cur, "_parent", None)


def r03_2(ctx: Ctx) -> None:
    func = ctx.fn(CP, "find_protoclusters")
    # wrap merge: the statement that joins the last core into the first one must run exactly when distance < cutoff
    from ..flow import path_facts
    cfg = CFG(func)
    merges = [n for n in walk_local(func) if isinstance(n, ast.Assign) and isinstance(n.value, ast.Call)
              and last_attr(n.value) == "connect_locations" and "last" in txt(n.value) and "first" in txt(n.value)
              and not any(isinstance(a, (ast.For, ast.While)) and "cds_features" in txt(getattr(a, "iter", getattr(a, "test", None)))
                          for a in _anc(n, func))]
    found = 0
    for merge in merges:
        lits = [(e, t) for e, t in path_facts(cfg, merge) if any("distance" in last_attr(c) for c in calls(e))]
        if not lits:
            continue
        found += 1
        ctx.call_sites += 1
        expr, truth = lits[0]
        dist_calls = [c for c in calls(expr) if "distance" in last_attr(c)]
        mapping = {txt(dist_calls[0]): "D"}
        for n in ast.walk(expr):
            if isinstance(n, ast.Name) and _cutoff_like(func, n, "cutoff"):
                mapping[n.id] = "C"
            if isinstance(n, ast.Attribute) and n.attr == "cutoff" and dotted(n):
                mapping[dotted(n)] = "C"
        renamed = rename(expr, mapping)
        effective = renamed if truth else ast.UnaryOp(op=ast.Not(), operand=renamed)
        try:
            ok, cex, n = decide(effective, parse("D < C"))
            ctx.ob("R03.2", CP, merge, "find_protoclusters", "wrap-merge distance test", ok,
                   "first/last cores are merged across the origin iff distance < cutoff (strict)",
                   detail=f"counterexample {cex}" if cex else f"{n} orderings enumerated", form=txt(effective))
        except OutsideFragment as err:
            ctx.cannot("R03.2", CP, merge, "find_protoclusters", "wrap-merge distance test", str(err))
    if not found:
        raise AnalysisError("find_protoclusters: no distance-vs-cutoff test guards the first/last wrap merge")
    # chain step: overlap test against the previous core extended by exactly the cutoff
    steps = 0
    for call in calls(func):
        if last_attr(call) != "_extend_area_location":
            continue
        dist = arg_of(call, 1, "distance")
        if dist is None:
            continue
        target = None
        stmt = call
        while not isinstance(stmt, ast.stmt):
            stmt = getattr(stmt, "_parent")
        if not isinstance(stmt, ast.Assign):
            continue
        prov = provenance(func, dist)
        roles = {p.split(".")[-1] for p in prov if p.split(".")[-1] in ("cutoff", "neighbourhood")}
        # is the result used in an overlap test?
        tgt_names = {n.id for t in stmt.targets for n in ast.walk(t) if isinstance(n, ast.Name)}
        used_in_overlap = False
        for other in walk_local(func):
            if isinstance(other, ast.If):
                for c in calls(other.test):
                    if "overlap" in last_attr(c) and tgt_names & {n.id for n in ast.walk(c) if isinstance(n, ast.Name)}:
                        used_in_overlap = True
        if used_in_overlap:
            steps += 1
            ctx.call_sites += 1
            ok = roles == {"cutoff"} and "+" not in txt(dist) and "*" not in txt(dist) and "-" not in txt(dist)
            ctx.ob("R03.2", CP, call, "find_protoclusters", "chain-step extension", ok,
                   "the chain step tests overlap with the previous core extended by exactly the rule's cutoff",
                   form=f"{txt(call)}  distance provenance={sorted(prov)}")
    if not steps:
        raise AnalysisError("find_protoclusters: chain step (overlap with cutoff-extended previous core) not found")


ROLE_OF_KW = {"cutoff": "cutoff", "neighbourhood_range": "neighbourhood"}


def r03_3(ctx: Ctx) -> None:
    for qual in ("find_protoclusters", "apply_extenders", "merge_over_origin.merge_pair"):
        func = ctx.fn(CP, qual)
        ctor = [c for c in calls(func) if call_name(c) == "Protocluster"]
        if not ctor:
            raise AnalysisError(f"{qual}: no Protocluster(...) constructor call")
        for call in ctor:
            ctx.call_sites += 1
            for kw, role in ROLE_OF_KW.items():
                val = kwarg(call, kw)
                if val is None:
                    ctx.cannot("R03.3", CP, call, qual, f"Protocluster({kw}=)", "keyword not passed by name")
                    continue
                prov = provenance(func, val)
                roles = {p.split(".")[-1] for p in prov} & {"cutoff", "neighbourhood", "neighbourhood_range"}
                want = {role} if role == "cutoff" else {"neighbourhood", "neighbourhood_range"}
                ok = bool(roles) and roles <= want and isinstance(val, (ast.Name, ast.Attribute))
                ctx.ob("R03.3", CP, call, qual, f"Protocluster({kw}=)", ok,
                       f"Protocluster {kw} receives the rule's {role}", form=f"{kw}={txt(val)} <- {sorted(prov)}")
            # core vs surrounding: surrounding is derived from core extended by neighbourhood
            core = arg_of(call, 0, "core_location")
            surround = kwarg(call, "surrounding_location")
            if core is None or surround is None:
                ctx.cannot("R03.3", CP, call, qual, "Protocluster(core, surrounding_location=)", "argument shape")
                continue
            sprov = provenance(func, surround)
            ext_calls = []
            for name in {n.id for n in ast.walk(surround) if isinstance(n, ast.Name)}:
                for node in walk_local(func):
                    if isinstance(node, ast.Assign) and any(isinstance(t, ast.Name) and t.id == name for t in node.targets):
                        ext_calls += [c for c in calls(node.value)
                                      if last_attr(c) in ("_extend_area_location", "extend_location")]
            ok = False
            form = ""
            for ext in ext_calls:
                dist = arg_of(ext, 1, "distance")
                base = arg_of(ext, 0, "location")
                if dist is None or base is None:
                    continue
                droles = {p.split(".")[-1] for p in provenance(func, dist)} & \
                    {"cutoff", "neighbourhood", "neighbourhood_range"}
                same_core = txt(base) == txt(core) or bool(
                    {p for p in provenance(func, base)} & {p for p in provenance(func, core)} - {"record"})
                form = f"surrounding={txt(ext)}; core={txt(core)}"
                if droles and droles <= {"neighbourhood", "neighbourhood_range"} and same_core \
                        and isinstance(dist, (ast.Name, ast.Attribute)):
                    ok = True
            ctx.ob("R03.3", CP, call, qual, "Protocluster(surrounding_location=)", ok,
                   "surrounding location is the same core extended by the rule's neighbourhood",
                   form=form or f"surrounding={txt(surround)} <- {sorted(sprov)}")
            # product is the rule's name
            product = kwarg(call, "product")
            if product is not None:
                prov = provenance(func, product)
                okp = any(p.endswith(".name") or p.endswith(".product") or p == "cluster_type" for p in prov)
                if qual == "find_protoclusters":
                    # cluster_type must be the key that selected the rule
                    okp = okp and any(isinstance(n, ast.Subscript) and txt(n.slice) == txt(product)
                                      for n in walk_local(func)) or any(p.endswith(".name") for p in prov)
                ctx.ob("R03.3", CP, call, qual, "Protocluster(product=)", okp,
                       "product is the name of the rule whose distances are used", form=f"product={txt(product)}")


def r03_4(ctx: Ctx) -> None:
    """ who may drop: among the post-processing steps called by find_protoclusters,
        only functions reading `.superiors` may return fewer clusters for a reason
        other than merging """
    func = ctx.fn(CP, "find_protoclusters")
    module = ctx.repo.mod(CP)
    readers = []
    for qual, node in ctx.repo.functions(CP):
        if "." in qual:
            continue
        if any(isinstance(n, ast.Attribute) and n.attr == "superiors" for n in ast.walk(node)):
            readers.append(qual)
    ctx.ob("R03.4", CP, func, "find_protoclusters", "superiors readers",
           set(readers) == {"remove_redundant_protoclusters", "strip_inferior_domains"},
           "rule.superiors is read only by the two sanctioned cross-rule functions",
           form=f"readers={sorted(readers)}")
    # in remove_redundant_protoclusters a cluster is skipped only under is_redundant, which is set
    # only inside the loop over superiors' clusters
    rr = ctx.fn(CP, "remove_redundant_protoclusters")
    # the result list: the local that is returned and appended to
    returned = {txt(r.value) for r in walk_local(rr) if isinstance(r, ast.Return) and isinstance(r.value, ast.Name)}
    appends = [c for c in calls(rr) if last_attr(c) == "append" and isinstance(c.func, ast.Attribute)
               and txt(c.func.value) in returned]
    if not appends:
        raise AnalysisError("remove_redundant_protoclusters: result append not found")
    from ..flow import path_facts
    rcfg = CFG(rr)
    for app in appends:
        loops_of_app = enclosing_loops(app, stop=rr)
        gs = [(e, t) for e, t in path_facts(rcfg, app)
              if loops_of_app and any(a is loops_of_app[0] for a in _anc(e, rr))]
        # the flag: a bare name tested false on the way to the append
        names = {e.id for e, t in gs if isinstance(e, ast.Name) and not t}
        ok = len(names) == 1 and len(gs) == 1
        flag = sorted(names)[0] if names else ""
        # every assignment flag = True lies inside a loop over `.superiors`
        for node in walk_local(rr):
            if isinstance(node, ast.Assign) and any(isinstance(t, ast.Name) and t.id == flag for t in node.targets) \
                    and isinstance(node.value, ast.Constant) and node.value.value is True:
                loops = enclosing_loops(node, stop=rr)
                in_sup = any(isinstance(lp, ast.For) and "superiors" in txt(lp.iter) for lp in loops)
                ok = ok and in_sup
                ctx.ob("R03.4", CP, node, "remove_redundant_protoclusters", stmt_key(node) + f"@{len(loops)}", in_sup,
                       "a protocluster is marked redundant only while iterating its rule's superiors",
                       form=" > ".join(txt(lp.iter) for lp in reversed(loops)))
        ctx.ob("R03.4", CP, app, "remove_redundant_protoclusters", "kept unless redundant", ok,
               "every cluster not marked redundant is kept", form=f"guards={[(txt(t), pol) for t, pol in gs]}")
    # gene order (`<`) decides 'before / after' only for cores that do not cross the origin
    orders = [n for n in walk_local(rr) if isinstance(n, ast.Compare) and len(n.ops) == 1 and isinstance(n.ops[0], (ast.Lt, ast.Gt))
              and all(isinstance(x, ast.Name) for x in (n.left, n.comparators[0]))]
    for index, cmp_ in enumerate(orders):
        stmt = next(a for a in _anc(cmp_, rr) if isinstance(a, ast.stmt))
        facts = {(txt(e), t) for e, t in path_facts(rcfg, stmt)}
        guarded = any(not t and text.count(".crosses_origin()") >= 2 and " or " in text for text, t in facts) or \
            sum(1 for text, t in facts if not t and text.endswith(".crosses_origin()")) >= 2
        ctx.ob("R03.4", CP, cmp_, "remove_redundant_protoclusters", f"gene order only for cores within the record#{index}", guarded,
               "the first/last genes of two cores are compared by position only when neither core crosses the origin (the first "
               "gene of a crossing core lies *after* its last one)",
               detail="" if guarded else "ring of 20000: S1[9000:9300) pS, S2[10000:10300) pS+pI, I2[11000:11300) pI, Inf SUPERIORS Sup, "
               "cutoff 1500 - with the origin at 9600 or 10650 both Sup{S1,S2} and Inf{S2,I2} are reported, elsewhere only Sup",
               form=txt(cmp_))
    # the pipeline in find_protoclusters: only these three post-processing calls rebind `clusters`
    rebinding = []
    for node in walk_local(func):
        if isinstance(node, ast.Assign) and any(isinstance(t, ast.Name) and t.id == "clusters" for t in node.targets) \
                and isinstance(node.value, ast.Call):
            rebinding.append(call_name(node.value))
    want = ["apply_extenders", "merge_over_origin", "remove_redundant_protoclusters"]
    ok = sorted(rebinding) == sorted(want) and rebinding.index("apply_extenders") < rebinding.index("remove_redundant_protoclusters")
    ctx.ob("R03.4", CP, func, "find_protoclusters", "post-processing pipeline", ok,
           "clusters are rebound only by the extenders, the origin merge and the superiors removal, and cores are extended "
           "before they are compared with their superiors", form=" -> ".join(rebinding))
    whole = sorted(rebinding) == sorted(want) and rebinding.index("merge_over_origin") < rebinding.index("remove_redundant_protoclusters")
    ctx.ob("R03.4", CP, func, "find_protoclusters", "halves joined before superiors removal", whole,
           "protoclusters that the origin splits in two are joined before they are compared with their superiors: a half on its "
           "own may be covered by a superior (and dropped) while the whole chain is not, or the other way round",
           detail="" if whole else "ring of 20000, cutoff 1500: g0[104:325) pS+pI, g1[2825:3022) pI, g2[4422:4606) pS+pI ... - with the "
           "origin moved between g1 and g2 the Inf chain {g1, g2} is judged as {g1} and {g2}: {g2} is dropped, {g1} is reported, "
           "while on the unrotated record the whole chain is dropped", form=" -> ".join(rebinding))
    grown_first = sorted(rebinding) == sorted(want) and rebinding.index("apply_extenders") < rebinding.index("merge_over_origin")
    ctx.ob("R03.4", CP, func, "find_protoclusters", "cores grown before they are united", grown_first,
           "the origin merge is the only step that unites protoclusters of one rule whose cores overlap or lie within the "
           "cutoff; extenders grow each core on its own, so they run before it - grown afterwards, two cores of one rule can "
           "come to overlap and an anchoring gene then lies in two cores",
           detail="" if grown_first else "rule R (cutoff 1000) EXTENDERS x: anchors a1, a2 more than a cutoff apart with extender "
           "genes between them, each within the cutoff of the last: two protoclusters of R with overlapping cores are reported "
           "instead of one", form=" -> ".join(rebinding))
    _ = module


def r03_5(ctx: Ctx) -> None:
    """ sorted-sweep consistency in merge_over_origin: the list is swept comparing each
        element with the running previous *extended* interval, so it has to be sorted by
        the start of that same interval (tuple slot), otherwise neighbours in the order
        are not neighbours on the genome (first/last chains across the origin) """
    qual = "merge_over_origin"
    func = ctx.fn(CP, qual)
    sorts = [c for c in calls(func) if last_attr(c) == "sort" and kwarg(c, "key") is not None]
    sweeps = [n for n in walk_local(func) if isinstance(n, ast.For) and isinstance(n.iter, ast.Subscript)
              and isinstance(n.iter.slice, ast.Slice) and txt(n.iter.slice.lower) == "1" and n.iter.slice.upper is None
              and any(call_name(c) == "locations_overlap" for c in calls(n))]
    overlaps = [c for sweep in sweeps for c in calls(sweep) if call_name(c) == "locations_overlap"]
    if len(sorts) != 1 or len(sweeps) != 1 or len(overlaps) != 1:
        raise AnalysisError(f"{qual}: expected one keyed sort and one sweep with one overlap test "
                            f"(found {len(sorts)}, {len(sweeps)}, {len(overlaps)})")
    key = kwarg(sorts[0], "key")
    test = overlaps[0]
    # which tuple slot holds the running previous interval used by the overlap test?
    slots = {}
    for node in walk_local(func):
        if isinstance(node, ast.Assign) and len(node.targets) == 1 and isinstance(node.targets[0], ast.Tuple) \
                and isinstance(node.value, ast.Subscript):
            for index, elt in enumerate(node.targets[0].elts):
                if isinstance(elt, ast.Name):
                    slots.setdefault(elt.id, set()).add(index)
    prev_args = [a.id for a in test.args if isinstance(a, ast.Name) and a.id in slots]
    if len(prev_args) != 1 or len(slots[prev_args[0]]) != 1:
        ctx.cannot("R03.5", CP, test, qual, "sweep test", f"cannot identify the running interval in {txt(test)}")
        return
    slot = next(iter(slots[prev_args[0]]))
    from ..flow import key_function
    resolved_key = key_function(ctx.repo, CP, func, key)
    if resolved_key is None:
        ctx.cannot("R03.5", CP, sorts[0], qual, "sort key", f"sort key is not a one-argument lambda or function: {txt(key)}")
        return
    param, key_body = resolved_key
    want = f"{param}[{slot}].start"
    ctx.ob("R03.5", CP, sorts[0], qual, "sort key vs sweep interval", txt(key_body) == want,
           f"the sweep compares each core with the running previous cutoff-extended interval (tuple slot {slot}, "
           f"`{prev_args[0]}`), so the list must be sorted by the start of that slot",
           form=f"key: {txt(key_body)}; sweep test: {txt(test)}")
    # the extended interval is the core extended by the cluster's own cutoff
    for call in calls(func):
        if last_attr(call) == "extend_location":
            base, dist = arg_of(call, 0, "location"), arg_of(call, 1, "distance")
            par = getattr(call, "_parent", None)
            if isinstance(par, ast.Tuple) and len(par.elts) == 2 and par.elts[1] is call:
                ok = base is not None and txt(base).endswith(".core_location") and dist is not None \
                    and txt(dist).endswith(".cutoff")
                ctx.ob("R03.5", CP, call, qual, f"extended interval {stmt_key(call)}", ok,
                       "the interval paired with a protocluster in the sweep is its core extended by the cutoff",
                       form=txt(par))


def r03_7(ctx: Ctx, rule: str = "R03.7") -> None:
    """ the cutoff-extended cores lie on a circle: an interval that crosses the origin sorts first (its start is 0) while
        its pre-origin part reaches the clusters that sort last; a sweep over neighbours in sorted order has to be closed
        by comparing the last element with the first """
    qual = "merge_over_origin"
    func = ctx.fn(CP, qual)
    sweeps = [n for n in walk_local(func) if isinstance(n, ast.For) and isinstance(n.iter, ast.Subscript)
              and isinstance(n.iter.slice, ast.Slice) and txt(n.iter.slice.lower) == "1" and n.iter.slice.upper is None
              and any(call_name(c) == "locations_overlap" for c in calls(n))]
    if len(sweeps) != 1:
        raise AnalysisError(f"{qual}: the sorted sweep was not found")
    sweep = sweeps[0]
    # the accumulator of the sweep: the list whose last element is replaced / appended to inside it
    accs = {txt(c.func.value) for c in calls(sweep) if last_attr(c) == "append" and isinstance(c.func, ast.Attribute)}
    accs |= {txt(t.value) for n in walk_local(sweep) if isinstance(n, ast.Assign) for t in n.targets
             if isinstance(t, ast.Subscript) and txt(t.slice) == "-1"}
    if len(accs) != 1:
        ctx.cannot(rule, CP, sweep, qual, "closing comparison", f"cannot identify the sweep's accumulator: {sorted(accs)}")
        return
    acc = accs.pop()
    origin_of = {}
    for node in walk_local(func):
        if isinstance(node, ast.Assign) and isinstance(node.value, ast.Subscript) and txt(node.value.value) == acc \
                and txt(node.value.slice) in ("0", "-1"):
            for target in node.targets:
                for name in [n.id for n in ast.walk(target) if isinstance(n, ast.Name)]:
                    origin_of[name] = txt(node.value.slice)
    closing = []
    for call in calls(func):
        if call_name(call) != "locations_overlap" or any(call is c for c in calls(sweep)):
            continue
        ends = set()
        for arg in call.args:
            for node in ast.walk(arg):
                if isinstance(node, ast.Name) and node.id in origin_of:
                    ends.add(origin_of[node.id])
                if isinstance(node, ast.Subscript) and txt(node.value) == acc and txt(node.slice) in ("0", "-1"):
                    ends.add(txt(node.slice))
        if ends == {"0", "-1"}:
            closing.append(call)
    # "after the sweep" is a matter of control flow, not of line numbers (an inlined predicate keeps its own lines)
    scfg = CFG(func)
    reached = scfg.reach([scfg.n(sweep)])
    after = []
    for c in closing:
        stmt = next((a for a in _anc(c, func) if isinstance(a, ast.stmt)), None)
        try:
            if stmt is not None and scfg.n(stmt) in reached and not any(a is sweep for a in _anc(c, func)):
                after.append(c)
        except KeyError:
            continue
    ctx.ob(rule, CP, after[0] if after else sweep, qual, "closing comparison", bool(after),
           "after the sweep over the sorted, cutoff-extended cores the last group is compared with the first (and merged), "
           "because an extended core that crosses the origin sorts first while reaching the clusters that sort last",
           detail="" if after else "no overlap test between the first and the last element of the swept list: an anchoring gene "
                                   "that itself spans the origin is never joined with a cluster just before the origin",
           form=txt(after[0])[:120] if after else "")


def r03_8(ctx: Ctx, rule: str = "R03.8") -> None:
    """ the sweep of merge_over_origin keeps (protocluster, reach) pairs, the reach being that protocluster's core
        extended by the cutoff.  Every pair it stores or carries to the next comparison is *of one object*: both halves
        come from the same element of the swept list, or the reach is computed from the stored protocluster's own core.
        After a merge the later cluster's reach is not the pair's reach (the earlier core may reach further forward when
        both come from origin-spanning genes). """
    from ..flow import inline_reaching
    qual = "merge_over_origin"
    func = ctx.fn(CP, qual)
    cfg = CFG(func)
    pairs = []   # (statement, first expr, second expr)
    for node in walk_local(func):
        if isinstance(node, ast.Assign) and isinstance(node.value, ast.Tuple) and len(node.value.elts) == 2:
            target = node.targets[0]
            if isinstance(target, ast.Subscript) or (isinstance(target, ast.Tuple) and len(target.elts) == 2):
                pairs.append((node, node.value.elts[0], node.value.elts[1]))
        if isinstance(node, ast.Expr) and isinstance(node.value, ast.Call) and last_attr(node.value) == "append" \
                and node.value.args and isinstance(node.value.args[0], ast.Tuple) and len(node.value.args[0].elts) == 2:
            pairs.append((node, node.value.args[0].elts[0], node.value.args[0].elts[1]))
    count = 0
    for stmt, first, second in pairs:
        if not isinstance(first, ast.Name):
            continue
        try:
            at = cfg.n(stmt)
        except KeyError:
            continue
        # names that hold the same object as `first` here (plain copies: `prev_cluster = merged`)
        same = {first.id}
        todo = [first.id]
        while todo:
            cur = todo.pop()
            for d in cfg.reaching_defs(cur, at):
                node = cfg.nodes[d].ast if d >= 0 else None
                if isinstance(node, ast.Assign) and len(node.targets) == 1 and isinstance(node.targets[0], ast.Name) \
                        and isinstance(node.value, ast.Name) and node.value.id not in same \
                        and len(cfg.reaching_defs(cur, at)) == 1:
                    same.add(node.value.id)
                    todo.append(node.value.id)
        resolved = inline_reaching(cfg, stmt, second, keep=same)
        text = txt(resolved)
        from_core = any(f"{name}.core_location" in text for name in same) and \
            ("extend_location" in text or "_extend_area_location" in text)
        same_origin = False
        if isinstance(second, ast.Name):
            d1, d2 = cfg.reaching_defs(first.id, at), cfg.reaching_defs(second.id, at)
            # bound together: by one tuple-unpacking statement (a loop target or `a, b = lst[i]`)
            def joint(d: int) -> bool:
                node = cfg.nodes[d].ast if d >= 0 else None
                target = node.target if isinstance(node, ast.For) else node.targets[0] if isinstance(node, ast.Assign) else None
                return isinstance(target, ast.Tuple) and {first.id, second.id} <= {e.id for e in target.elts if isinstance(e, ast.Name)}
            same_origin = bool(d1) and d1 == d2 and all(joint(d) for d in d1)
        if not (from_core or same_origin or isinstance(second, ast.Name) or "extend" in text):
            continue   # not a (protocluster, reach) pair
        count += 1
        ok = from_core or same_origin
        ctx.ob(rule, CP, stmt, qual, f"pair ({first.id}, {txt(second)[:30]}) is of one protocluster", ok,
               "a stored (protocluster, reach) pair holds the reach of that very protocluster: taken together from the swept list, "
               "or recomputed from its core after a merge",
               detail="" if ok else f"`{first.id}` was rebound (a merge) after `{txt(second)}` was taken from the list: the merged "
               "protocluster is paired with the reach of its later member only - ring of 10000, cutoff 100: genes 9000->500 and 9990->10 "
               "merge, and a gene at 550..600 (within the cutoff of 500) is left on its own once another cluster follows",
               form=f"{txt(first)} <- defs {sorted(cfg.reaching_defs(first.id, at))}; reach {text[:70]}")
    if count < 2:
        raise AnalysisError(f"{qual}: the (protocluster, reach) pairs of the sweep were not found")


WRAP_SCOPE = ["antismash/common/hmm_rule_parser/cluster_prediction.py", "antismash/common/hmm_rule_parser/rule_parser.py",
              "antismash/common/utils.py", "antismash/detection/hmm_detection/__init__.py",
              "antismash/common/secmet/features/candidate_cluster/formation.py"]
WRAP_OWNERS = ("antismash/common/secmet/locations.py", "antismash/common/secmet/record.py")


def r03_6(ctx: Ctx, rule: str = "R03.6") -> None:
    """ who may measure a distance linearly: the location API has a wrap point that defaults to None; detection on a
        circular record has to go through the record (which supplies its length) or pass the wrap point itself """
    from ..flow import inline_reaching, path_facts
    files = WRAP_SCOPE if ctx.tier == "quick" else [rel for rel in sorted(ctx.repo.modules) if rel not in WRAP_OWNERS]
    count = 0
    for rel in files:
        if rel not in ctx.repo.modules:
            continue
        for qual, func in ctx.repo.functions(rel):
            sites = [c for c in walk_local(func) if isinstance(c, ast.Call) and (
                last_attr(c) in ("get_distance_to", "get_distance_between_locations", "get_distance_between_features"))]
            if not sites:
                continue
            ctx.repo.consulted.add(rel)
            cfg = CFG(func)
            for call in sites:
                count += 1
                name = last_attr(call)
                via_record = isinstance(call.func, ast.Attribute) and name in ("get_distance_between_locations",
                                                                               "get_distance_between_features")
                wrap = kwarg(call, "wrap_point")
                positional = len(call.args) >= (3 if isinstance(call.func, ast.Name) else 2) and name != "get_distance_between_features"
                def read_through(expr: ast.AST) -> str:
                    # a local copy of the flag (`origin = self.circular_origin`) is the flag
                    anchor = expr if hasattr(expr, "_parent") else call
                    return txt(inline_reaching(cfg, anchor, expr, max_depth=1))
                linear_context = any(not t and ("circular" in txt(e) or "wrap" in txt(e) or "circular" in read_through(e)
                                                or "wrap" in read_through(e)) for e, t in path_facts(cfg, call))
                ok = via_record or wrap is not None or positional or linear_context
                how = "through the record" if via_record else "wrap point passed" if (wrap is not None or positional) else \
                    "only reached when not circular" if linear_context else "linear distance"
                ctx.ob(rule, rel, call, qual, f"distance {txt(call)[:70]}", ok,
                       "a distance between locations used by detection is measured around the origin on circular records: "
                       "through the record's own distance methods, with an explicit wrap point, or only where the context is "
                       "known not to be circular", detail="" if ok else "the location API defaults to no wrap point: genes on "
                       "opposite sides of the origin are never within the cutoff", form=how)
    if count < 4:
        raise AnalysisError(f"expected at least 4 distance measurements in the detection code, found {count}")


def run(ctx: Ctx) -> None:
    ctx.rule("R03.1", "loop-carried definition rule on the per-rule evaluation in apply_cluster_rules", floor=5)
    ctx.rule("R03.2", "'closer than cutoff' sites are strict and use exactly the cutoff", floor=2)
    ctx.rule("R03.3", "role consistency of cutoff / neighbourhood / product / core at Protocluster constructors", floor=9)
    ctx.rule("R03.4", "protoclusters are dropped only by the superiors step", floor=4)
    r03_1(ctx)
    r03_2(ctx)
    r03_3(ctx)
    r03_4(ctx)
    ctx.rule("R03.5", "sorted-sweep consistency of the origin merge", floor=3)
    r03_5(ctx)
    ctx.rule("R03.6", "distances used by detection are wrap-aware", floor=4)
    r03_6(ctx)
    ctx.rule("R03.7", "the sorted sweep over circular intervals is closed by a last/first comparison", floor=1)
    r03_7(ctx)
    ctx.rule("R03.8", "(protocluster, reach) pairs of the origin merge are of one protocluster", floor=2)
    r03_8(ctx)
