""" C10 Annotated records survive GenBank and JSON round trips unchanged """

from __future__ import annotations

import ast
from typing import Dict, List, Optional, Set, Tuple

from ..astutil import arg_of, call_name, calls, enclosing_loops, guards, kwarg, last_attr, stmt_key, txt, walk_local
from ..cfg import CFG
from ..flow import bound_from, inline_reaching
from ..index import UNRESOLVED, AnalysisError, ClassInfo, _walk_functions, dotted
from ..report import Ctx
from .jsonkeys import read_keys, written_keys

PROP = "C10"
REC = "antismash/common/secmet/record.py"
SER = "antismash/common/serialiser.py"
SECMET = "antismash/common/secmet/"

EXPLANATION = (
    "R10.1 per feature class (through the MRO): every qualifier that from_biopython reads without a default or a "
    "presence test is written by the class's to_biopython chain. R10.2 completeness: every feature list some "
    "Record.add_* stores into is chained in all_features (so it is written out), and every branch of "
    "add_biopython_feature dispatches a resolved feature type to the from_biopython of the class owning that type. "
    "R10.3 dependency order on reload: classes whose from_biopython resolves references through record.get_*() are "
    "postponed, after the classes they refer to. R10.4 the serialiser's function pairs read only keys they write. "
    "R10.5 a list of location parts sorted by coordinate is put back into strand order before a multi-part location "
    "is built from it. R10.6 lists of member numbers are written in member-list order and read back without ordering "
    "or de-duplicating the number strings before they are converted (number strings do not sort numerically). "
    "R10.7 location strings are read back with their compound operator. R10.8 (typed) an optional number decides "
    "whether a qualifier is written by `is not None`, never by truthiness (zero is a value)."
)
UNDECIDED = [
    "equality of the re-read record with the original; the fixed-point claim",
    "number swaps between equal-coordinate candidate clusters on reload",
    "value-level parsing of qualifiers (floats, booleans, lists)",
]
TRUSTED = ["CPython ast", "class MRO and constant resolution of asa.index", "asa.cfg"]


def _written_quals(func: ast.AST) -> Dict[str, bool]:
    keys: Dict[str, bool] = {}
    for node in walk_local(func):
        cond = bool(guards(node, stop=func))
        if isinstance(node, ast.Assign):
            for target in node.targets:
                if isinstance(target, ast.Subscript) and isinstance(target.slice, ast.Constant) and isinstance(target.slice.value, str):
                    keys[target.slice.value] = keys.get(target.slice.value, False) or not cond
                elif isinstance(target, ast.Subscript) and isinstance(target.slice, ast.Name):
                    # a table-driven writer: `for key, value, ... in [("k1", ...), ("k2", ...)]: quals[key] = ...`
                    for loop in [a for a in _anc(node, func) if isinstance(a, ast.For)]:
                        targets = loop.target.elts if isinstance(loop.target, ast.Tuple) else [loop.target]
                        names = [t.id if isinstance(t, ast.Name) else None for t in targets]
                        if target.slice.id not in names:
                            continue
                        column = names.index(target.slice.id)
                        table = loop.iter
                        if isinstance(table, ast.Name):
                            values = bound_from(func, table.id)
                            table = values[0] if len(values) == 1 else table
                        if isinstance(table, (ast.List, ast.Tuple)):
                            for row in table.elts:
                                cell = row.elts[column] if isinstance(row, ast.Tuple) and column < len(row.elts) else row
                                if isinstance(cell, ast.Constant) and isinstance(cell.value, str):
                                    keys[cell.value] = keys.get(cell.value, False)   # written under the loop's own test
        if isinstance(node, ast.Dict):
            for key in node.keys:
                if isinstance(key, ast.Constant) and isinstance(key.value, str):
                    keys[key.value] = keys.get(key.value, False) or not cond
    return keys


def _read_quals(func: ast.AST) -> Dict[str, Tuple[bool, ast.AST]]:
    """ key -> (mandatory?, node); mandatory = subscript / pop without default, not under a presence or value test """
    keys: Dict[str, Tuple[bool, ast.AST]] = {}
    for node in walk_local(func):
        key = None
        mandatory = False
        if isinstance(node, ast.Subscript) and isinstance(node.ctx, ast.Load) and isinstance(node.slice, ast.Constant) \
                and isinstance(node.slice.value, str) and ("leftovers" in txt(node.value) or "qualifiers" in txt(node.value)):
            key, mandatory = node.slice.value, True
        elif isinstance(node, ast.Call) and isinstance(node.func, ast.Attribute) and node.func.attr in ("pop", "get") \
                and ("leftovers" in txt(node.func.value) or "qualifiers" in txt(node.func.value)) \
                and node.args and isinstance(node.args[0], ast.Constant) and isinstance(node.args[0].value, str):
            key = node.args[0].value
            mandatory = node.func.attr == "pop" and len(node.args) == 1
        if key is None:
            continue
        if mandatory:
            gs = guards(node, stop=func)
            # inside try/except KeyError the absence is handled explicitly
            handled = any(isinstance(a, ast.Try) and any(h.type is not None and "KeyError" in txt(h.type) for h in a.handlers)
                          for a in _anc(node, func))
            if gs or handled:
                mandatory = not any(pol is not None for _, pol in gs) and not handled
        prev = keys.get(key)
        keys[key] = (mandatory or (prev[0] if prev else False), node)
    return keys


def _anc(node: ast.AST, stop: ast.AST):
    cur = getattr(node, "_parent", None)
    while cur is not None and cur is not stop:
        yield cur
        cur = getattr(cur, "_parent", None)


def r10_1(ctx: Ctx) -> None:
    classes = [c for c in ctx.repo.subclasses("Feature") if c.module.rel.startswith(SECMET)]
    count = 0
    for info in sorted(classes, key=lambda c: c.qual):
        fb = ctx.repo.method(info, "from_biopython", inherited=False)
        if not fb:
            continue
        rel = info.module.rel
        ctx.repo.consulted.add(rel)
        written: Dict[str, bool] = {}
        for cls in ctx.repo.mro(info):
            m = ctx.repo.method(cls, "to_biopython", inherited=False)
            if m:
                for key, uncond in _written_quals(m[1]).items():
                    written[key] = written.get(key, False) or uncond
                # helper methods of qualifier objects: to_biopython_qualifiers() - open-ended
        qual = f"{info.name}.from_biopython"
        ctx.functions.add(f"{rel}::{qual}")
        reads = _read_quals(fb[1])
        for key, (mandatory, node) in sorted(reads.items()):
            if not mandatory:
                continue
            count += 1
            ok = key in written or key in ("locus_tag", "translation", "note", "tool")
            ctx.ob("R10.1", rel, node, qual, f"qualifier '{key}'", ok,
                   "a qualifier that reload requires is written by the class's to_biopython chain",
                   detail="" if ok else f"'{key}' is required on reload but not written by {info.name}.to_biopython or its ancestors",
                   form=f"written {'always' if written.get(key) else 'conditionally' if key in written else 'by the base feature'}")
    if count < 12:
        raise AnalysisError(f"R10.1: expected at least 12 mandatory qualifier reads, found {count}")


def r10_2(ctx: Ctx) -> None:
    record = ctx.repo.cls(REC, "Record")
    stored: Dict[str, str] = {}
    for node in record.node.body:
        if isinstance(node, ast.FunctionDef) and node.name.startswith("add_"):
            for call in calls(node):
                if isinstance(call.func, ast.Attribute) and call.func.attr in ("append", "insert") and \
                        txt(call.func.value).startswith("self._") and isinstance(call.func.value, ast.Attribute):
                    stored[call.func.value.attr] = node.name
    chain = ctx.fn(REC, "Record.all_features")
    chained = set()
    for call in calls(chain):
        if call_name(call) == "itertools.chain":
            chained = {a.attr for a in call.args if isinstance(a, ast.Attribute)}
    feature_lists = {k for k in stored if not k.endswith(("_by_name", "_by_tool", "_by_cds_name", "_by_location"))}
    ctx.ob("R10.2", REC, chain, "Record.all_features", "all stored feature lists are written out", feature_lists <= chained,
           "every list that an add_* method stores features into is part of all_features (and hence of to_biopython)",
           detail=f"not chained: {sorted(feature_lists - chained)}" if feature_lists - chained else "",
           form=f"stored={sorted(feature_lists)}")
    tb = ctx.fn(REC, "Record.to_biopython")
    tcfg = CFG(tb)
    ok = False
    # a loop or comprehension over sorted(self.all_features) that converts its variable
    for node in ast.walk(tb):
        iters = []
        if isinstance(node, ast.For):
            iters.append((node.target, node.iter, node.body))
        elif isinstance(node, (ast.ListComp, ast.GeneratorExp)):
            iters += [(gen.target, gen.iter, [node.elt] + [later.iter for later in node.generators[i + 1:]])
                      for i, gen in enumerate(node.generators)]
        for target, it, body in iters:
            stmt = next((a for a in [node] + list(_ancestors(node)) if isinstance(a, ast.stmt)), None)
            resolved = inline_reaching(tcfg, stmt, it) if stmt is not None else it
            if isinstance(resolved, ast.Call) and call_name(resolved) == "sorted" and resolved.args \
                    and txt(resolved.args[0]) == "self.all_features" and not resolved.keywords \
                    and any(isinstance(c, ast.Call) and last_attr(c) == "to_biopython" and txt(c.func.value) == txt(target)
                            for b in body for c in ast.walk(b)):
                ok = True
    ctx.ob("R10.2", REC, tb, "Record.to_biopython", "features converted in sorted order", ok,
           "the record writes every feature of all_features, in sorted order", form="")
    # dispatch
    func = ctx.fn(REC, "Record.add_biopython_feature")
    module = ctx.repo.mod(REC)
    node: Optional[ast.AST] = next((s for s in func.body if isinstance(s, ast.If)), None)
    branches = 0
    while isinstance(node, ast.If):
        test = node.test
        if isinstance(test, ast.Compare) and txt(test.left) == "feature.type":
            comp = test.comparators[0]
            value = ctx.repo.const(module, comp)
            owner = dotted(comp).split(".")[0] if dotted(comp) and "." in dotted(comp) else None
            built = [call_name(c).split(".")[0] for c in calls(node) if last_attr(c) == "from_biopython"
                     and any(c is x for s in node.body for x in ast.walk(s))]
            branches += 1
            if owner:
                ok = value is not UNRESOLVED and bool(value) and (not built or owner in built or (owner == "CDSMotif" and "Prepeptide" in built))
                ctx.ob("R10.2", REC, node, "Record.add_biopython_feature", f"dispatch {txt(comp)}", ok,
                       "a feature type is dispatched to the class owning that (non-empty) type",
                       form=f"{txt(comp)} = {value!r} -> {built}")
            else:
                ok = isinstance(value, str) and bool(value)
                ctx.ob("R10.2", REC, node, "Record.add_biopython_feature", f"dispatch {txt(comp)}", ok,
                       "literal feature type", form=f"{value!r}", vacuous=True)
        node = node.orelse[0] if len(node.orelse) == 1 and isinstance(node.orelse[0], ast.If) else None
    if branches < 10:
        raise AnalysisError(f"add_biopython_feature: expected at least 10 dispatch branches, found {branches}")


def r10_3(ctx: Ctx) -> None:
    func = ctx.fn(REC, "Record.from_biopython")
    kinds: List[str] = []
    for loop in [n for n in walk_local(func) if isinstance(n, ast.For) and isinstance(n.iter, (ast.List, ast.Tuple))]:
        if any("postponed_features" in txt(s) for s in loop.body):
            kinds = [txt(e) for e in loop.iter.elts]
    if not kinds:
        # the list of classes may be a named local feeding a comprehension / constructor: a literal of feature classes
        feature_classes = {c.name for c in ctx.repo.subclasses("Feature")}
        for node in walk_local(func):
            if isinstance(node, (ast.List, ast.Tuple)) and len(node.elts) >= 2 and all(isinstance(e, ast.Name) for e in node.elts) \
                    and all(e.id in feature_classes for e in node.elts):
                kinds = [e.id for e in node.elts]
                break
    if not kinds:
        raise AnalysisError("Record.from_biopython: postponed feature kinds not found")
    needs: Dict[str, Set[str]] = {}
    getters = {"get_protoclusters": "Protocluster", "get_candidate_clusters": "CandidateCluster", "get_subregions": "SubRegion",
               "get_domain_by_name": "Domain", "get_regions": "Region", "get_cds_by_name": "CDSFeature"}
    classes = [c for c in ctx.repo.subclasses("Feature") if c.module.rel.startswith(SECMET)]
    for info in classes:
        fb = ctx.repo.method(info, "from_biopython", inherited=False)
        if not fb:
            continue
        used = {getters[last_attr(c)] for c in calls(fb[1]) if last_attr(c) in getters and txt(c.func).startswith("record.")}
        if used:
            needs[info.name] = used
    for name, used in sorted(needs.items()):
        base = name
        info = next(c for c in classes if c.name == name)
        in_postponed = any(ctx.repo.is_subclass(info, k) or k == name for k in kinds)
        ctx.ob("R10.3", REC, func, "Record.from_biopython", f"{name} postponed", in_postponed,
               "a class whose reload resolves references through the record is rebuilt after the plain features",
               form=f"{name} needs {sorted(used)}; postponed kinds {kinds}")
        for dep in used:
            if dep in kinds and name in kinds:
                ok = kinds.index(dep) < kinds.index(name)
                ctx.ob("R10.3", REC, func, "Record.from_biopython", f"{dep} before {name}", ok,
                       "postponed kinds are rebuilt in dependency order", form=str(kinds))
        _ = base
    # the postponed kinds live in an insertion-ordered mapping that is walked as it is (never sorted, never a set)
    holders = {t.id for n in walk_local(func) if isinstance(n, (ast.Assign, ast.AnnAssign)) and n.value is not None
               and (isinstance(n.value, ast.Dict) or isinstance(n.value, ast.Call) and call_name(n.value) in ("OrderedDict", "dict"))
               for t in ([n.target] if isinstance(n, ast.AnnAssign) else n.targets) if isinstance(t, ast.Name) and "postponed" in t.id}
    walks = [n for n in walk_local(func) if isinstance(n, ast.For) and txt(n.iter) in {f"{h}{suffix}" for h in holders
                                                                                       for suffix in (".values()", ".items()", "")}]
    ok = bool(holders) and bool(walks)
    ctx.ob("R10.3", REC, func, "Record.from_biopython", "postponed processed in insertion order", ok,
           "the postponed kinds are processed in the order they were listed", form="")


def _ancestors(node: ast.AST):
    cur = getattr(node, "_parent", None)
    while cur is not None:
        yield cur
        cur = getattr(cur, "_parent", None)


def r10_4(ctx: Ctx) -> None:
    pairs = [("record_to_json", "record_from_json"), ("feature_to_json", "feature_from_json"), ("sequence_to_json", "sequence_from_json")]
    for writer, reader in pairs:
        w = written_keys(ctx.repo, None, ctx.fn(SER, writer))
        r = read_keys(ctx.fn(SER, reader))
        for key, mandatory in sorted(r.keys.items()):
            if not mandatory:
                continue
            ok = key in w.keys and w.keys[key]
            ctx.ob("R10.4", SER, ctx.fn(SER, reader), reader, f"key '{key}'", ok,
                   "a key the reader requires is always written by its writer",
                   detail="" if ok else f"written keys: {sorted(w.keys)}", form=f"{writer} -> {reader}")
    top = ctx.fn(SER, "AntismashResults.to_json")
    frm = ctx.fn(SER, "AntismashResults.from_file")
    w = written_keys(ctx.repo, None, top)
    reads = {n.slice.value for n in walk_local(frm) if isinstance(n, ast.Subscript) and isinstance(n.slice, ast.Constant)
             and isinstance(n.slice.value, str) and txt(n.value) in ("data", "results", "json_data")}
    ok = reads <= set(w.keys) and bool(reads)
    ctx.ob("R10.4", SER, frm, "AntismashResults.from_file", "top-level keys", ok,
           "the results file reader only requires keys the writer emits", form=f"read={sorted(reads)} written={sorted(w.keys)}")
    ok = "schema" in txt(frm) and any(isinstance(n, ast.If) and "schema" in txt(n.test) and any(isinstance(s, ast.Raise) for s in n.body)
                                      for n in walk_local(frm))
    ctx.ob("R10.4", SER, frm, "AntismashResults.from_file", "schema check", ok,
           "a results file of another schema is refused", form="")


def r10_5(ctx: Ctx) -> None:
    """ coordinate-sorted part lists must be restored to strand order before a location is built """
    files = [rel for rel in sorted(ctx.repo.modules) if rel.startswith(SECMET)]
    if ctx.tier == "thorough":
        files = sorted(ctx.repo.modules)
    builders = {"CompoundLocation", "build_location_from_others"}
    found = 0
    from ..flow import key_function

    def by_start(rel_: str, func_: ast.AST, key_: Optional[ast.AST]) -> bool:
        """ is the sort key the start coordinate (lambda or named key function)? """
        if key_ is None:
            return False
        resolved = key_function(ctx.repo, rel_, func_, key_)
        return resolved is not None and txt(resolved[1]) == f"{resolved[0]}.start"
    for rel in files:
        for qual, func in _walk_functions(ctx.repo.modules[rel].tree, ""):
            sorted_lists: Dict[str, ast.AST] = {}
            for node in walk_local(func):
                key = None
                target = None
                if isinstance(node, ast.Call) and isinstance(node.func, ast.Attribute) and node.func.attr == "sort":
                    key, target = kwarg(node, "key"), txt(node.func.value)
                elif isinstance(node, ast.Assign) and isinstance(node.value, ast.Call) and call_name(node.value) == "sorted" \
                        and isinstance(node.targets[0], ast.Name):
                    key, target = kwarg(node.value, "key"), node.targets[0].id
                elif isinstance(node, ast.For) and isinstance(node.iter, ast.Call) and call_name(node.iter) == "sorted":
                    key = kwarg(node.iter, "key")
                    # lists appended to inside a loop over a coordinate-sorted sequence inherit the order
                    if by_start(rel, func, key):
                        for call in calls(node):
                            if last_attr(call) == "append" and isinstance(call.func.value, ast.Name):  # type: ignore[attr-defined]
                                sorted_lists[call.func.value.id] = node  # type: ignore[attr-defined]
                    continue
                if target and by_start(rel, func, key):
                    sorted_lists[target] = node
            if not sorted_lists:
                continue
            for call in calls(func):
                if call_name(call) not in builders or not call.args:
                    continue
                arg = call.args[0]
                if not (isinstance(arg, ast.Name) and arg.id in sorted_lists):
                    continue
                found += 1
                ctx.repo.consulted.add(rel)
                name = arg.id
                sort_node = sorted_lists[name]
                restored = [n for n in walk_local(func) if isinstance(n, ast.If) and "strand" in txt(n.test)
                            and any(txt(s) == f"{name}.reverse()" for s in n.body)
                            and getattr(sort_node, "lineno", 0) <= n.lineno <= call.lineno]
                ctx.ob("R10.5", rel, call, qual, f"{txt(call)[:60]}", bool(restored),
                       "parts sorted by coordinate are reversed again for the reverse strand before a location is built from them "
                       "(a location's parts are in reading order)",
                       detail="" if restored else f"`{name}` is sorted by start and handed to {call_name(call)} without a strand-conditional reverse",
                       form=f"sort at line {getattr(sort_node, 'lineno', 0)}; strand restore: {bool(restored)}")
    if found < 1:
        raise AnalysisError("R10.5: no coordinate-sorted part list reaching a location builder found (expected the sub-location builder)")


def r10_6(ctx: Ctx) -> None:
    """ lists of area numbers are written in the order of the member list: reload re-links the members in the order
        of the numbers, and number strings do not sort numerically ('10' < '2') """
    from ..cfg import CFG
    from ..flow import inline_reaching
    from .c12 import NUMBER_GETTERS
    classes = [c for c in ctx.repo.subclasses("Feature") if c.module.rel.startswith(SECMET)]
    count = 0
    written: Set[str] = set()
    for info in sorted(classes, key=lambda c: c.qual):
        func = next((n for n in info.node.body if isinstance(n, ast.FunctionDef) and n.name == "to_biopython"), None)
        if func is None:
            continue
        cfg = None
        for node in walk_local(func):
            if not isinstance(node, ast.Assign):
                continue
            for target in node.targets:
                if not (isinstance(target, ast.Subscript) and isinstance(target.slice, ast.Constant)
                        and isinstance(target.slice.value, str)):
                    continue
                cfg = cfg or CFG(func)
                value = inline_reaching(cfg, node, node.value)
                text = txt(value)
                if not any(g in text for g in NUMBER_GETTERS):
                    continue
                comps = [n for n in ast.walk(value) if isinstance(n, (ast.ListComp, ast.GeneratorExp, ast.SetComp))]
                if not comps:
                    continue
                count += 1
                written.add(target.slice.value)
                ctx.repo.consulted.add(info.module.rel)
                bad = []
                for sub in ast.walk(value):
                    if isinstance(sub, ast.SetComp):
                        bad.append("set comprehension")
                    if isinstance(sub, ast.Call) and call_name(sub) in ("set", "frozenset", "reversed"):
                        bad.append(f"{call_name(sub)}()")
                    if isinstance(sub, ast.Call) and call_name(sub) == "sorted":
                        key = kwarg(sub, "key")
                        if key is None or txt(key) != "int":
                            bad.append("sorted() on number strings is lexicographic")
                ctx.ob("R10.6", info.module.rel, node, f"{info.name}.to_biopython", f"number list `{target.slice.value}`", not bad,
                       "a list of member numbers is written in member-list order (reload re-links members in the order of the "
                       "numbers; number strings do not sort numerically)",
                       detail="; ".join(bad), form=text[:140])
    if count < 3:
        raise AnalysisError(f"expected at least 3 number-list qualifiers in to_biopython methods, found {count}")
    # the reading side: the same qualifiers are read back as lists of number strings; any ordering applied to the
    # strings before they are numbers (or that forgets the order) re-links the members in another order
    readers = 0
    for info in sorted(classes, key=lambda c: c.qual):
        func = next((n for n in info.node.body if isinstance(n, ast.FunctionDef) and n.name == "from_biopython"), None)
        if func is None:
            continue
        parents = {child: parent for parent in ast.walk(func) for child in ast.iter_child_nodes(parent)}
        for node in walk_local(func):
            key = None
            if isinstance(node, ast.Call) and isinstance(node.func, ast.Attribute) and node.func.attr in ("pop", "get") \
                    and node.args and isinstance(node.args[0], ast.Constant) and isinstance(node.args[0].value, str):
                key = node.args[0].value
            elif isinstance(node, ast.Subscript) and isinstance(node.ctx, ast.Load) and isinstance(node.slice, ast.Constant) \
                    and isinstance(node.slice.value, str):
                key = node.slice.value
            if key not in written:
                continue
            readers += 1
            ctx.repo.consulted.add(info.module.rel)
            bad = []
            # names the raw strings are held in, before they are converted
            raw_names: Set[str] = set()
            cur: ast.AST = node
            converted = False
            while cur in parents and not isinstance(cur, ast.stmt):
                parent = parents[cur]
                if isinstance(parent, ast.Call) and cur in parent.args:
                    name = call_name(parent)
                    if name == "sorted" and not converted:
                        sort_key = kwarg(parent, "key")
                        if sort_key is None or txt(sort_key) != "int":
                            bad.append("sorted() on number strings is lexicographic")
                    elif name in ("set", "frozenset", "reversed"):
                        bad.append(f"{name}() forgets the written order")
                if isinstance(parent, ast.SetComp):
                    bad.append("set comprehension forgets the written order")
                if isinstance(parent, ast.comprehension) and cur is parent.iter:
                    comp = parents.get(parent)
                    elt = getattr(comp, "elt", None)
                    if elt is not None and any(isinstance(c, ast.Call) and call_name(c) in ("int", "float") for c in ast.walk(elt)):
                        converted = True
                    cur = comp if comp is not None else parent
                    if isinstance(comp, ast.SetComp):
                        bad.append("set comprehension forgets the written order")
                    continue
                if isinstance(parent, ast.Call) and call_name(parent) in ("int", "float"):
                    converted = True
                cur = parent
            stmt = cur if isinstance(cur, ast.stmt) else parents.get(cur)
            if isinstance(stmt, ast.Assign) and len(stmt.targets) == 1 and isinstance(stmt.targets[0], ast.Name) and not converted:
                raw_names.add(stmt.targets[0].id)
            for sub in walk_local(func):
                if isinstance(sub, ast.Call) and call_name(sub) == "sorted" and sub.args and isinstance(sub.args[0], ast.Name) \
                        and sub.args[0].id in raw_names:
                    sort_key = kwarg(sub, "key")
                    if sort_key is None or txt(sort_key) != "int":
                        bad.append(f"sorted({sub.args[0].id}) on number strings is lexicographic")
                if isinstance(sub, ast.Call) and isinstance(sub.func, ast.Attribute) and sub.func.attr == "sort" \
                        and isinstance(sub.func.value, ast.Name) and sub.func.value.id in raw_names:
                    sort_key = kwarg(sub, "key")
                    if sort_key is None or txt(sort_key) != "int":
                        bad.append(f"{sub.func.value.id}.sort() on number strings is lexicographic")
                if isinstance(sub, ast.Call) and call_name(sub) in ("set", "frozenset", "reversed") and sub.args \
                        and isinstance(sub.args[0], ast.Name) and sub.args[0].id in raw_names:
                    bad.append(f"{call_name(sub)}({sub.args[0].id}) forgets the written order")
            ctx.ob("R10.6", info.module.rel, node, f"{info.name}.from_biopython", f"number list `{key}` read back", not bad,
                   "a list of member numbers is read back in the order it was written (members are re-linked in the order of "
                   "the numbers; number strings do not sort numerically)",
                   detail="; ".join(bad), form=txt(stmt)[:140] if stmt is not None else "")
    if readers < 2:
        raise AnalysisError(f"expected at least 2 number-list qualifiers read back in from_biopython methods, found {readers}")


LOCS = "antismash/common/secmet/locations.py"


def _names_behind(func: ast.AST, expr: ast.AST) -> Set[str]:
    """ every name the expression may derive from, through plain and tuple-unpacking assignments of the function """
    names: Set[str] = set()
    todo = [n.id for n in ast.walk(expr) if isinstance(n, ast.Name)]
    while todo:
        name = todo.pop()
        if name in names:
            continue
        names.add(name)
        for node in walk_local(func):
            if isinstance(node, (ast.Assign, ast.AnnAssign)) and node.value is not None:
                targets = node.targets if isinstance(node, ast.Assign) else [node.target]
                if any(isinstance(x, ast.Name) and x.id == name for t in targets for x in ast.walk(t)):
                    todo += [x.id for x in ast.walk(node.value) if isinstance(x, ast.Name)]
    return names


def r10_7(ctx: Ctx) -> None:
    """ the results JSON stores locations as str(location): `operator{part, part}` for compound ones; the reader has to
        hand the parsed operator back (join and order are different locations) """
    qual = "location_from_string"
    func = ctx.fn(LOCS, qual)
    param = func.args.args[0].arg
    ctors = [c for c in calls(func) if call_name(c) == "CompoundLocation"]
    if not ctors:
        raise AnalysisError(f"{qual}: no CompoundLocation is rebuilt from the string")
    for ctor in ctors:
        op = kwarg(ctor, "operator") or (ctor.args[1] if len(ctor.args) > 1 else None)
        from_text = op is not None and param in _names_behind(func, op)
        ctx.ob("R10.7", LOCS, ctor, qual, "compound operator restored", bool(from_text),
               "a compound location read back from its string form keeps the operator that was written (the default `join` "
               "would turn every `order(...)` location into a different one)",
               detail="" if from_text else "CompoundLocation built without the operator parsed from the text",
               form=txt(ctor)[:100])


def _numeric(type_text: Optional[str]) -> bool:
    """ is this (mypy) type a number, or an optional number?  Zero is a value of such an attribute. """
    if not type_text:
        return False
    text = type_text.strip()
    if text.startswith("Union[") and text.endswith("]"):
        members = [m.strip() for m in text[6:-1].split(",")]
    else:
        members = [text]
    members = [m for m in members if m not in ("None", "builtins.None")]
    return bool(members) and all(m in ("builtins.float", "builtins.int") for m in members)


def r10_8(ctx: Ctx) -> None:
    """ what decides whether a qualifier / JSON key is written: for an optional *number* (a score, an e-value, a
        coordinate) the writer tests `is not None` - a truthiness test drops 0 and 0.0, which the reader then turns into
        None.  Types come from mypy; a name bound by walking a literal table of (key, value, ...) rows takes the types
        of that column.  Every truthiness-guarded write is an instance; it holds when the tested value is not a number. """
    from .. import typedb as _typedb
    db = _typedb.load(ctx.repo)
    files = [rel for rel in sorted(ctx.repo.modules) if rel.startswith(SECMET + "features/") or rel == SER]
    if ctx.tier == "thorough":
        files = sorted(ctx.repo.modules)
    count = 0
    for rel in files:
        for qual, func in ctx.repo.functions(rel):
            if qual.split(".")[-1] not in ("to_biopython", "to_json"):
                continue
            for node in walk_local(func):
                if not isinstance(node, ast.If):
                    continue
                test = node.test
                negated = isinstance(test, ast.UnaryOp) and isinstance(test.op, ast.Not)
                subject = test.operand if negated else test
                if not isinstance(subject, (ast.Name, ast.Attribute)):
                    continue
                arm = node.orelse if negated else node.body
                writes = [n for st in arm for n in [st] + list(walk_local(st))
                          if (isinstance(n, ast.Assign) and isinstance(n.targets[0], ast.Subscript))
                          or (isinstance(n, ast.Call) and last_attr(n) in ("update", "append", "setdefault"))]
                if not writes:
                    continue
                types = [db.type_at(rel, subject)]
                if isinstance(subject, ast.Name):
                    # the column of a literal table the name walks over
                    for loop in [lp for lp in enclosing_loops(node, stop=func) if isinstance(lp, ast.For)]:
                        targets = loop.target.elts if isinstance(loop.target, ast.Tuple) else [loop.target]
                        names = [t.id if isinstance(t, ast.Name) else None for t in targets]
                        if subject.id not in names:
                            continue
                        column = names.index(subject.id)
                        table = loop.iter
                        if isinstance(table, ast.Name):
                            values = bound_from(func, table.id)
                            table = values[0] if len(values) == 1 else table
                        if isinstance(table, (ast.List, ast.Tuple)):
                            for row in table.elts:
                                cell = row.elts[column] if isinstance(row, ast.Tuple) and column < len(row.elts) else \
                                    row if not isinstance(loop.target, ast.Tuple) else None
                                if cell is not None:
                                    types.append(db.type_at(rel, cell))
                    for value in bound_from(func, subject.id):
                        types.append(db.type_at(rel, value))
                count += 1
                ctx.repo.consulted.add(rel)
                bad = [t for t in types if _numeric(t)]
                ctx.ob("R10.8", rel, node, qual, f"write decided by `{txt(test)[:40]}`", not bad,
                       "an optional number decides a write by `is not None`: a truthiness test leaves out 0 and 0.0 (an e-value "
                       "that underflowed to 0.0, a score of 0), and the reloaded feature then holds None",
                       detail="" if not bad else f"`{txt(subject)}` can be a number ({bad[0]}): zero is dropped",
                       form="; ".join(sorted({t for t in types if t}))[:120])
    if count < 10:
        raise AnalysisError(f"R10.8: expected at least 10 truthiness-guarded writes in the serialisers, found {count}")


def run(ctx: Ctx) -> None:
    ctx.rule("R10.1", "qualifiers required on reload are written by to_biopython", floor=12)
    ctx.rule("R10.2", "all stored feature lists are written out; dispatch by resolved feature type", floor=12)
    ctx.rule("R10.3", "reference-resolving classes are postponed in dependency order", floor=4)
    ctx.rule("R10.4", "serialiser readers require only keys their writers emit", floor=8)
    ctx.rule("R10.5", "coordinate-sorted parts are restored to strand order before building a location", floor=1)
    ctx.rule("R10.6", "member-number lists are written and read back in member order, never string-sorted", floor=5)
    r10_1(ctx)
    r10_6(ctx)
    ctx.rule("R10.7", "location strings are read back with their compound operator", floor=1)
    r10_7(ctx)
    r10_2(ctx)
    r10_3(ctx)
    r10_4(ctx)
    r10_5(ctx)
    ctx.rule("R10.8", "an optional number decides a write by `is not None`, not by truthiness", floor=10)
    r10_8(ctx)
